(* fault_main.ml: runs Model/FileRest on the bytes of damaged counter files and
   Model/FileFault on fault plans, against what the real code did (harness
   vh_fault), and evaluates the C05 oracles (hang, panic, other counters
   changed, counts invented) on the implementation's observations. *)

let hexn x = hex_of_n x

(* ---- a byte image shared by the model (read-only closure) and the runner ---- *)
type image = { mutable buf : Bytes.t; mutable len : int }

let img_get im i = if i < im.len && i < Bytes.length im.buf then Char.code (Bytes.get im.buf i) else 0
let img_set im i v =
  if i >= Bytes.length im.buf then begin
    let nb = Bytes.make (max (2 * Bytes.length im.buf) (i + 4096)) '\000' in
    Bytes.blit im.buf 0 nb 0 (Bytes.length im.buf); im.buf <- nb
  end;
  Bytes.set im.buf i (Char.chr (v land 255))
let img_copy im = { buf = Bytes.copy im.buf; len = im.len }
let model_of (im : image) : bfile =
  let snap = img_copy im in
  let ln = n_of_int snap.len in
  { b_len = ln; b_at = (fun o -> if N.ltb o ln then byte_tab.(img_get snap (int_of_n o)) else N0) }

let read_runs c (f : int -> int -> unit) =
  let n = next_int c in
  for _ = 1 to n do
    let off = next_int c in
    let t = next c in
    let l = (String.length t - 1) / 2 in
    for i = 0 to l - 1 do f (off + i) (hexval t.[1 + 2 * i] * 16 + hexval t.[2 + 2 * i]) done
  done

let kind_of_tok = function "ok" -> KOk | "short" -> KShort | _ -> KErr

let handle kind c =
  match kind with
  | "rest" ->
    let dmg = next c in
    let h = next_n c in
    let st = next c in
    (match st with
     | "openerr" -> ()
     | "hang" -> prop "hang" (Printf.sprintf "openMapped on a damaged file (%s) did not return within the step budget" dmg)
     | "panic" -> prop "panic" (Printf.sprintf "openMapped on a damaged file (%s) panicked" dmg)
     | "opened" ->
       let len = next_int c in
       let im = { buf = Bytes.make (max len 16384) '\000'; len } in
       read_runs c (fun i v -> img_set im i v);
       let nops = next_int c in
       let mcell = ref None in
       (* the file AS FOUND AT REST: does its limit cover all its linked records? *)
       let rest_gap = ref None in
       let diverged = ref false in
       for opi = 1 to nops do
         let ok = next c in
         let name = next_bytes c in
         let k = next_n c in
         let status = next c in
         let ires = if status = "ok" then (let n = next_int c in List.init n (fun _ -> next c)) else [] in
         let newlen = next_int c in
         let before = img_copy im in
         let diffs = ref [] in
         read_runs c (fun i v -> diffs := (i, v) :: !diffs);
         let max_end = next_n c in
         let nch = next_int c in
         let changed = List.init nch (fun _ ->
             let what = next c in
             let nm = next_bytes c in let off = next_n c in let nl = next_n c in
             let b = next_n c in let a = next_n c in (what, nm, off, nl, b, a)) in
         (* the real file after the call *)
         List.iter (fun (i, v) -> img_set im i v) !diffs; im.len <- min newlen (1 lsl 20);
         let where = Printf.sprintf "op-%d-%s-%s" opi ok dmg in
         (* ---- model ---- *)
         let f = model_of before in
         let (mres, f') =
           match ok with
           | "lookup" ->
             ((match lookup f h name with
                 | LFound off -> ["cell"; "i" ^ hexn off]
                 | LNotFound _ -> ["notfound"]
                 | LBad -> ["bad"] | LFault -> ["FAULT"] | LFuel -> ["FUEL"]), f)
           | "new" ->
             let (r, f') = new_counter f h name in
             ((match r with
                 | NCell off -> mcell := Some off; ["cell"; "i" ^ hexn off]
                 | NErr REmpty -> mcell := None; ["err"; "empty"]
                 | NErr RTooLong -> mcell := None; ["err"; "toolong"]
                 | NErr RCorrupt -> mcell := None; ["err"; "corrupt"]
                 | NFault -> ["FAULT"] | NFuel -> ["FUEL"]), f')
           | "add" ->
             (match !mcell with
              | Some cell -> (match add_cell f cell k with Some f' -> (["added"], f') | None -> (["FAULT"], f))
              | None -> (["nocell"], f))
           | t -> failwith ("op " ^ t) in
         if !rest_gap = None then begin
           let l0 = rd32 f h in let l0 = if l0 = N0 then table_end h else l0 in
           rest_gap := Some (N.ltb l0 max_end)
         end;
         (* ---- oracles on the implementation ---- *)
         (match status with
          | "hang" ->
            prop "hang" (Printf.sprintf "%s: the call did not return within the step budget (allocation limit found in the file: %s)" where (hexn (rd32 f h)))
          | "panic" -> prop "panic" (Printf.sprintf "%s: the call panicked" where)
          | _ -> ());
         List.iter (fun (what, nm, off, nl, b, a) ->
             let lim = rd32 f h in
             let lim = if lim = N0 then table_end h else lim in
             ignore nl;
             (* known class: the limit of the file as found at rest (before the first call) does not cover
                all its linked records; a record reserved inside such a gap overlaps an existing record, and
                the damage may only show at a later call (e.g. the Add on the overlapping cell) *)
             let cls = if N.ltb lim max_end || !rest_gap = Some true then "limit-below-records" else "other-counter-changed" in
             prop cls (Printf.sprintf "%s: the call on %s %s counter %s at %s (value before %s, after %s; limit found in the file: %s)"
                         where (tok_of_bytes name) (if what = "lost" then "made unreachable the" else "changed the value of")
                         (tok_of_bytes nm) (hexn off) (hexn b) (hexn a) (hexn lim))) changed;
         (* frame rule (C05_newcounter_frame) on what the implementation wrote: inside the header and
            the hash table only the limit word and the head word of the name's own bucket *)
         if ok = "new" && status = "ok" then begin
           let te = int_of_n (table_end h) and hi = int_of_n h and ho = int_of_n (head_off h name) in
           (match List.filter (fun (i, _) -> i < te && not (i >= hi && i < hi + 4) && not (i >= ho && i < ho + 4)) !diffs with
            | (i, _) :: _ ->
              prop "table-overwritten" (Printf.sprintf "%s: newCounter changed byte %x inside the header / hash table (not the limit word, not the head of its own bucket %x)" where i ho)
            | [] -> ())
         end;
         (* ---- model = implementation ---- *)
         if not !diverged then begin
           let expect_hang = (mres = ["FUEL"]) in
           if status = "hang" && not expect_hang then begin diverged := true; diff (where ^ "-status") ~model:(String.concat " " mres) ~impl:"hang" end
           else if status = "ok" && mres <> ires then begin diverged := true; diff (where ^ "-result") ~model:(String.concat " " mres) ~impl:(String.concat " " ires) end
           else if status = "ok" then begin
             if int_of_n f'.b_len <> newlen && newlen <= (1 lsl 20) then begin
               diverged := true; diff (where ^ "-length") ~model:(hexn f'.b_len) ~impl:(string_of_int newlen) end
             else begin
               (* candidate offsets: what the call changed, and what the model may write *)
               let cands = ref (List.map Stdlib.fst !diffs) in
               let add_range lo n = for i = lo to lo + n - 1 do if i >= 0 then cands := i :: !cands done in
               let hi = int_of_n h in
               add_range hi 4;
               add_range (int_of_n (head_off h name)) 4;
               (match ok with
                | "new" ->
                  let (s, _) = place32 h (rd32 f h) (n_of_int (List.length name)) in
                  let s = int_of_n s in
                  if s < (1 lsl 20) then add_range s (24 + List.length name);
                  add_range (before.len - 8) 8
                | "add" -> (match !mcell with Some cell -> add_range (int_of_n cell - 4) 16 | None -> ())
                | _ -> ());
               let bad = List.filter (fun i -> i < (1 lsl 20) && int_of_n (f'.b_at (n_of_int i)) <> img_get im i) !cands in
               (match bad with
                | i :: _ -> diverged := true;
                  diff (where ^ "-bytes") ~model:(Printf.sprintf "byte %x = %x" i (int_of_n (f'.b_at (n_of_int i))))
                    ~impl:(Printf.sprintf "byte %x = %x" i (img_get im i))
                | [] -> ())
             end
           end
         end
       done
     | t -> failwith ("rest status " ^ t))
  | "plan" ->
    let variant = next c in
    let wk = next c in let cf = next c in
    let status = next c in
    let steps = next_list c (fun c -> let i = next_int c in let k = next c in (i, kind_of_tok k)) in
    let open_calls = next_int c in let parked = next_bool c in let has_cur = next_bool c in
    let calls = next_int c in let parked2 = next_bool c in let has_cur2 = next_bool c in
    let total = next_n c in let extra = next_n c in let persisted = next_n c in
    let extra_l = next_n c in let persisted_l = next_n c in
    let _nfired = next_int c in
    let log = next_list c next in
    let same_day = next_bool c in
    let mode = (match next c with "nomode" -> None | "mode" -> Some (next_bytes c) | t -> failwith ("mode tag " ^ t)) in
    let where = Printf.sprintf "plan-%s-mode[%s]-%s" variant
        (match mode with None -> "absent" | Some b -> let t = string_of_bytes b in String.escaped (if String.length t > 20 then String.sub t 0 20 ^ "..." else t))
        (String.concat "," (List.map (fun (i, k) -> Printf.sprintf "%d:%s" i (match k with KOk -> "ok" | KErr -> "err" | KShort -> "short")) steps)) in
    (match status with
     | "hang" -> prop "hang" (where ^ ": Open/Add did not return within the step budget")
     | "panic" -> prop "panic" (where ^ ": a panic escaped from Open/Add")
     | _ ->
       if N.ltb total (N.add extra persisted) then
         prop "counts-invented" (Printf.sprintf "%s: counter a: in memory %s + persisted %s > added %s" where (hexn extra) (hexn persisted) (hexn total));
       if N.ltb (n_of_int 4) (N.add extra_l persisted_l) then
         prop "counts-invented" (Printf.sprintf "%s: long counters: in memory %s + persisted %s > added 4" where (hexn extra_l) (hexn persisted_l));
       if parked && has_cur then prop "parked-with-mapping" (where ^ ": the file is in the error state but has a current mapping");
       (* ---- model ---- *)
       let p (i : nat) = match List.assoc_opt (int_of_nat i) steps with Some k -> k | None -> KOk in
       let week = match wk with
         | "absent" -> None
         | "empty" -> Some [n_of_int 32; n_of_int 10]
         | _ -> Some [n_of_int 50; n_of_int 10] in
       let file = match cf with "absent" -> CAbsent | "short" -> CShort | "valid" -> CValid | "badhdr" -> CBadHdr | t -> failwith ("cfile " ^ t) in
       let (((o, i), ok), n) = scenario p (n_of_int 51) same_day mode { fs_week = week; fs_file = file } in
       let m_parked = (o <> Mapped) in
       let show_m = Printf.sprintf "open-calls=%d parked=%b calls=%d ext-ok=%b" (int_of_nat i) m_parked (int_of_nat n) ok in
       let show_i = Printf.sprintf "open-calls=%d parked=%b calls=%d log=%s" open_calls parked calls (String.concat "," log) in
       if o = Panic then diff (where ^ "-model-panic") ~model:"Panic" ~impl:show_i
       else if int_of_nat i <> open_calls || m_parked <> parked || int_of_nat n <> calls || parked2 <> parked || has_cur2 = parked then
         diff (where ^ "-calls") ~model:show_m ~impl:(show_i ^ Printf.sprintf " parked2=%b cur2=%b" parked2 has_cur2)
       else begin
         let exp_a = if m_parked then (total, N0) else (N0, total) in
         let exp_l = if m_parked then (n_of_int 4, N0) else if ok then (N0, n_of_int 4) else (n_of_int 1, n_of_int 3) in
         if (extra, persisted) <> exp_a || (extra_l, persisted_l) <> exp_l then
           diff (where ^ "-counts")
             ~model:(Printf.sprintf "a: mem %s file %s; long: mem %s file %s" (hexn (Stdlib.fst exp_a)) (hexn (Stdlib.snd exp_a)) (hexn (Stdlib.fst exp_l)) (hexn (Stdlib.snd exp_l)))
             ~impl:(Printf.sprintf "a: mem %s file %s; long: mem %s file %s" (hexn extra) (hexn persisted) (hexn extra_l) (hexn persisted_l))
       end)
  | "cfail" ->
    (* a rotation that fails while an Add is under way: oracle only *)
    let fkind = next c in let k = next_int c in let j = next_int c in let has_ptr = next_bool c in
    let status = next c in let parked = next_bool c in
    let total = next_n c in let extra = next_n c in let persisted = next_n c in
    let _calls = next_int c in let _steps = next_int c in let late_use = next_int c in
    let where = Printf.sprintf "failing-rotation[%s] after %d steps of the Add (counter %s a pointer)%s" fkind k (if has_ptr then "has" else "has not yet")
        (if j >= 0 then Printf.sprintf ", stopped after %d of its steps for a late Add" j else "") in
    if late_use > 0 then
      prop "entered-through-closed-mapping" (Printf.sprintf "%s: an Add that began after the old mapping had been closed went through it (%d accesses): the mapping was closed before the counters were invalidated" where late_use);
    (match status with
     | "panic" -> prop "panic" (where ^ ": a panic escaped from Counter.Add / rotate1")
     | "hang" -> prop "hang" (where ^ ": Add / rotate1 did not return within the step budget")
     | _ ->
       ignore parked;
       if N.ltb total (N.add extra persisted) then
         prop "counts-invented" (Printf.sprintf "%s: in memory %s + persisted %s > added %s" where (hexn extra) (hexn persisted) (hexn total)))
  | "dup" ->
    (* two instances create the same counter while the file grows: oracle only *)
    let first = next_int c in let k = next_int c in let same = next_bool c in
    let status = next c in
    let total = next_n c in let extra = next_n c in let persisted = next_n c in
    let nrec = next_int c in let _steps = next_int c in let late_use = next_int c in
    let where = if k >= 0 then Printf.sprintf "two instances record the same new 4 KiB name while the file must grow (instance %d runs %d steps, the other completes, the first finishes)" first k
      else "two instances record the same new 4 KiB name while the file must grow (random interleaving)" in
    if not same then diff "dup-same-file" ~model:"both instances map the same file" ~impl:"different files";
    if late_use > 0 then
      prop "entered-through-closed-mapping" (Printf.sprintf "%s: after both had returned, an Add went through a closed mapping (%d accesses): newCounter handed out a cell in a mapping it then closed" where late_use);
    (match status with
     | "panic" -> prop "panic" (where ^ ": a panic escaped from Counter.Add")
     | "hang" -> prop "hang" (where ^ ": Counter.Add did not return within the step budget")
     | _ ->
       if nrec > 1 then prop "one-record-per-name" (Printf.sprintf "%s: %d linked records of the name" where nrec);
       if N.ltb total (N.add extra persisted) then
         prop "counts-invented" (Printf.sprintf "%s: in memory %s + persisted %s > added %s" where (hexn extra) (hexn persisted) (hexn total))
       else if late_use = 0 && N.ltb (N.add extra persisted) total then
         prop "counts-lost" (Printf.sprintf "%s: everything returned, files mapped: in memory %s + persisted %s < added %s" where (hexn extra) (hexn persisted) (hexn total)))
  | "env" ->
    (* hostile directory states: oracle only *)
    let kind = next c in let status = next c in let _parked = next_bool c in
    let total = next_n c in let extra = next_n c in let persisted = next_n c in let calls = next_int c in
    let where = (match kind with
        | "weekends-dir" -> "local/weekends is a directory"
        | "weekends-dangling" -> "local/weekends is a dangling symbolic link"
        | "file-deleted" -> "the counter file is deleted while mapped, then a counter needs an extension"
        | "file-replaced" -> "the counter file is replaced by an empty file while mapped, then a counter needs an extension"
        | k -> k) in
    (match status with
     | "panic" -> prop "panic" (where ^ ": a panic escaped from rotate1 / Counter.Add into the host program")
     | "hang" -> prop "hang" (Printf.sprintf "%s: rotate1 / Counter.Add did not return within the step budget (%d file-system calls made)" where calls)
     | _ ->
       if N.ltb total (N.add extra persisted) then
         prop "counts-invented" (Printf.sprintf "%s: in memory %s + persisted %s > added %s" where (hexn extra) (hexn persisted) (hexn total)))
  | "openapi" ->
    (* the package-level Open(rotate) in a process of its own, per state of the mode file *)
    let state = next c in let rotate = next_bool c in let status = next c in let created = next_bool c in
    let mode = (match next c with
        | "noconfig" -> None | "nomode" -> Some None | "mode" -> Some (Some (next_bytes c)) | t -> failwith ("mode tag " ^ t)) in
    let where = Printf.sprintf "counter.Open(rotate=%b) called twice, mode file %s" rotate state in
    (match status with
     | "ok" ->
       (match mode with
        | Some m ->
          (* Model/FileFault.mode_off: telemetry off <=> no counter file is created *)
          let off = mode_off m in
          if created = off then
            diff (Printf.sprintf "openapi-%s-rotate-%b-file" state rotate) ~model:(Printf.sprintf "mode-off=%b" off) ~impl:(Printf.sprintf "file-created=%b" created)
        | None -> if created then diff (Printf.sprintf "openapi-%s-file" state) ~model:"no directory: nothing created" ~impl:"file-created=true")
     | _ -> prop "panic" (Printf.sprintf "%s: a panic escaped from opening the counters into the host program (%s)" where status))
  | k -> diff "unknown-case-kind" ~model:k ~impl:"-"

let () = run_file Sys.argv.(1) handle
