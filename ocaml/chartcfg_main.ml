(* chartcfg_main.ml: evaluates the extracted Model/ChartCfg and Model/ConfigGen
   on the observations of harness vh_chartcfg (C17). *)

let n_render_valid = ref 0
let n_render_multi = ref 0
let show_b b = String.escaped (string_of_bytes b)
let key_of_index i = List.nth all_keys i

let next_record c : chart =
  let title = next_bytes c in
  let description = next_bytes c in
  let issue = next_list c next_bytes in
  let typ = next_bytes c in
  let program = next_bytes c in
  let modul = next_bytes c in
  let counter = next_bytes c in
  let depth = next_z c in
  let err = next_n c in
  let version = next_bytes c in
  { c_title = title; c_description = description; c_issue = issue; c_type = typ; c_program = program;
    c_module = modul; c_counter = counter; c_depth = depth; c_error = err; c_version = version }

(* long values are abbreviated in messages; the replay keeps the whole case line *)
let abbrev (s : string) : string =
  if String.length s <= 160 then s
  else Printf.sprintf "%s...(%d bytes)" (String.sub s 0 60) (String.length s)
let string_of_bytes_short b = abbrev (string_of_bytes b)
let longest_line (text : n list) : int =
  List.fold_left (fun m l -> max m (String.length l)) 0 (String.split_on_char '\n' (string_of_bytes text))

let show_record (r : chart) =
  Printf.sprintf "{title=%S desc=%S issue=[%s] type=%S program=%S module=%S counter=%S depth=%s error=%s version=%S}"
    (string_of_bytes_short r.c_title) (string_of_bytes_short r.c_description)
    (String.concat ";" (List.map (fun b -> Printf.sprintf "%S" (string_of_bytes_short b)) r.c_issue))
    (string_of_bytes_short r.c_type) (string_of_bytes_short r.c_program) (string_of_bytes_short r.c_module)
    (string_of_bytes_short r.c_counter) (tok_of_z r.c_depth) (tok_of_n r.c_error) (string_of_bytes_short r.c_version)

let next_style c : rstyle =
  let sep = next_bool c in
  let pre = next_list c next_bytes in
  let fs = Array.init 10 (fun _ ->
      let w1 = next_bytes c in let w2 = next_bytes c in let cm = next_bytes c in
      { fs_ws1 = w1; fs_ws2 = w2; fs_cmt = cm }) in
  let multi = next_bool c in
  let indent = next_bytes c in
  let post = next_list c next_bytes in
  let idx k =
    let rec go i = function [] -> 0 | k' :: t -> if k' = k then i else go (i + 1) t in
    go 0 all_keys in
  { rs_sep = sep; rs_pre = pre; rs_f = (fun k -> fs.(idx k)); rs_multi = multi; rs_indent = indent; rs_post = post }

(* strconv.ParseFloat answers supplied by the harness *)
let next_float_table c =
  let tbl = Hashtbl.create 8 in
  let _ = next_list c (fun c ->
      let t = next_bytes c in let ok = next_bool c in let bits = next_n c in
      Hashtbl.replace tbl (string_of_bytes t) (if ok then Some bits else None)) in
  tbl
let pf_of tbl (s : n list) : n option =
  match Hashtbl.find_opt tbl (string_of_bytes s) with
  | Some r -> r
  | None -> diff "float-oracle-miss" ~model:(show_b s) ~impl:"-"; None

type impl_parse = IPanic | IErr of bool * z * int | IOk of chart list
let next_parse_result c =
  match next c with
  | "panic" -> IPanic
  | "err" -> let has = next_bool c in let ln = next_z c in let code = next_int c in IErr (has, ln, code)
  | "ok" -> IOk (next_list c next_record)
  | t -> failwith ("bad parse result tag " ^ t)

let show_model_parse = function
  | PErr (ln, e) -> Printf.sprintf "err line=%s code=%d" (match ln with Some k -> tok_of_n k | None -> "-") (int_of_n (perr_code e))
  | POk rs -> "ok [" ^ String.concat "; " (List.map show_record rs) ^ "]"
let show_impl_parse = function
  | IPanic -> "panic"
  | IErr (has, ln, code) -> Printf.sprintf "err line=%s code=%d" (if has then tok_of_z ln else "-") code
  | IOk rs -> "ok [" ^ String.concat "; " (List.map show_record rs) ^ "]"

let n_of_z = function Z0 -> N0 | Zpos p -> Npos p | Zneg _ -> N0

(* compares the model's parse with the implementation's; a panic is a property failure *)
let compare_parse (m : presult) (i : impl_parse) (text : n list) =
  match i with
  | IPanic -> prop "parse-panic" (Printf.sprintf "text=%S" (abbrev (string_of_bytes text)))
  | IErr (has, ln, code) ->
    (match m with
     | PErr (mln, e) ->
       let mcode = int_of_n (perr_code e) in
       let same_line = (match mln, has with
           | Some k, true -> k = n_of_z ln
           | None, false -> true
           | _ -> false) in
       if mcode <> code || not same_line then
         diff "parse-error" ~model:(show_model_parse m) ~impl:(show_impl_parse i)
     | POk _ -> diff "parse-result" ~model:(show_model_parse m) ~impl:(show_impl_parse i))
  | IOk rs ->
    (match m with
     | POk mrs when mrs = rs -> ()
     | _ -> diff "parse-result" ~model:(show_model_parse m) ~impl:(show_impl_parse i))

(* version oracles (go/version, x/mod/semver) supplied by the harness *)
type vrow = { go_valid : bool; go_rank : int; sem_valid : bool; sem_rank : int; canon : n list; prerel : n list }
let next_version_table c =
  let tbl = Hashtbl.create 64 in
  let _ = next_list c (fun c ->
      let s = next_bytes c in
      let gv = next_bool c in let gr = next_int c in
      let sv = next_bool c in let sr = next_int c in
      let ca = next_bytes c in let pr = next_bytes c in
      Hashtbl.replace tbl (string_of_bytes s) { go_valid = gv; go_rank = gr; sem_valid = sv; sem_rank = sr; canon = ca; prerel = pr }) in
  tbl
(* when the implementation reported an error for one program, the model may
   still pad another program's versions, whose padded strings the harness
   cannot know: misses then are not failures (the answers do not influence
   the model's ok/error/panic status, which is all that is compared) *)
let oracle_strict = ref true
let vrow tbl (s : n list) =
  match Hashtbl.find_opt tbl (string_of_bytes s) with
  | Some r -> r
  | None ->
    if !oracle_strict then diff "version-oracle-miss" ~model:(show_b s) ~impl:"-";
    { go_valid = false; go_rank = -1; sem_valid = false; sem_rank = -1; canon = []; prerel = [] }
let cmp_of_int a b = if a < b then Lt else if a > b then Gt else Eq
let oracles tbl =
  let is_valid tc s = let r = vrow tbl s in if tc then r.go_valid else r.sem_valid in
  let vcmp tc a b = let ra = vrow tbl a and rb = vrow tbl b in
    if tc then cmp_of_int ra.go_rank rb.go_rank else cmp_of_int ra.sem_rank rb.sem_rank in
  let canonical s = (vrow tbl s).canon in
  let prerelease s = (vrow tbl s).prerel in
  (is_valid, vcmp, canonical, prerelease)

let next_padding c : padding =
  let r = next_z c in let mj = next_z c in let mm = next_z c in let pa = next_z c in let pr = next_z c in
  { pd_releases = r; pd_maj = mj; pd_majmin = mm; pd_patch = pa; pd_pre = pr }

let show_list l = "[" ^ String.concat " " (List.map string_of_bytes l) ^ "]"
let show_cc l = String.concat "," (List.map (fun (nm, d) -> Printf.sprintf "%S/%s" (string_of_bytes nm) (tok_of_z d)) l)
let show_prog (o : oprog) =
  Printf.sprintf "{%s versions=%s counters=%s stacks=%s}" (string_of_bytes o.o_name) (show_list o.o_versions)
    (show_cc o.o_counters) (show_cc o.o_stacks)
let show_progs l = String.concat " " (List.map show_prog l)

let default_patterns = List.map bytes_of_string ["pre.1"; "pre.2"; "pre.3"; "pre.4"; "pre.5"; "pre.6"; "pre.7"; "pre.8"]

let handle_gen c (ctx : string) =
    let recs = next_list c next_record in
    let tcok = next_bool c in
    let fed = next_list c next_bytes in
    let proxy = next_list c (fun c -> let m = next_bytes c in let vs = next_list c next_bytes in (m, vs)) in
    let paddings = next_list c (fun c -> let p = next_bytes c in let pd = next_padding c in (p, pd)) in
    let status = next c in
    let impl = (if status = "ok" then begin
        let gov = next_list c next_bytes in
        let progs = next_list c (fun c ->
            let nm = next_bytes c in
            let vs = next_list c next_bytes in
            let rate_ok = ref true in
            let ccs c = next_list c (fun c ->
                let n = next_bytes c in let d = next_z c in let r1 = next_bool c in
                if not r1 then rate_ok := false; (n, d)) in
            let counters = ccs c in
            let stacks = ccs c in
            if not !rate_ok then diff "rate" ~model:"1.0" ~impl:(string_of_bytes nm);
            { o_name = nm; o_versions = vs; o_counters = counters; o_stacks = stacks }) in
        Some (gov, progs)
      end else None) in
    let tbl = next_version_table c in
    oracle_strict := (status = "ok");
    let (is_valid, vcmp, canonical, prerelease) = oracles tbl in
    let go_versions = (match impl with Some (gov, _) -> gov | None -> fed) in
    (match impl with
     | Some (gov, _) ->
       if List.sort compare gov <> List.sort compare fed then
         diff "go-versions" ~model:(show_list fed) ~impl:(show_list gov)
     | None -> ());
    let m = if tcok then generate is_valid vcmp canonical prerelease go_versions proxy paddings default_patterns recs else GErr in
    (match m, status, impl with
     | GOk mps, "ok", Some (_, ips) ->
       if mps <> ips then diff "generate" ~model:(show_progs mps) ~impl:(show_progs ips)
     | GErr, "err", _ -> ()
     | GPanic, "panic", _ -> ()
     | _ -> diff "generate-status" ~model:(match m with GOk _ -> "ok" | GErr -> "err" | GPanic -> "panic") ~impl:status);
    (* property oracles on the implementation's configuration *)
    (match impl with
     | Some (_, ips) ->
       let names = List.map (fun o -> o.o_name) ips in
       if List.length (List.sort_uniq compare names) <> List.length names then
         prop "generate-lists" (ctx ^ "a program is listed twice: " ^ show_progs ips);
       if not (lists_ok recs ips) then
         prop "generate-lists" (ctx ^ Printf.sprintf "records=[%s] config=%s"
                                  (String.concat "; " (List.map show_record recs)) (show_progs ips));
       if not (versions_ok is_valid vcmp go_versions proxy recs ips) then
         prop "generate-versions" (ctx ^ Printf.sprintf "records=[%s] known-go=%s proxy=%s config=%s"
                                     (String.concat "; " (List.map show_record recs)) (show_list go_versions)
                                     (String.concat " " (List.map (fun (m, vs) -> string_of_bytes m ^ "=" ^ show_list vs) proxy)) (show_progs ips));
       List.iter (fun o ->
           if not (is_toolchain o.o_name) then begin
             if not (adjacent_ok vcmp o.o_versions) then prop "pad-sorted" (ctx ^ show_prog o);
             if not (nodup_b o.o_versions) then
               (* the proxy list itself may hold duplicates only if the harness fed them; it does not *)
               prop "pad-nodup" (ctx ^ show_prog o)
           end) ips
     | None -> ())

let handle kind c =
  match kind with
  | "keys" ->
    let impl = next_list c (fun c -> let nm = next_bytes c in let kd = next_bytes c in (nm, kd)) in
    let model = List.map (fun k -> (key_name k, key_kind k)) all_keys in
    let show l = String.concat "," (List.map (fun (a, b) -> string_of_bytes a ^ ":" ^ string_of_bytes b) l) in
    check_eq "key-table" show model impl;
    List.iter (fun k -> if is_slice k <> (key_kind k = bytes_of_string "slice") then
                  diff "key-slice" ~model:(string_of_bytes (key_name k)) ~impl:"-") all_keys
  | "render" ->
    let fmt_tbl = Hashtbl.create 8 in
    let items = next_list c (fun c ->
        let r = next_record c in
        let s = next_style c in
        let ft = next_bytes c in
        Hashtbl.replace fmt_tbl (tok_of_n r.c_error) ft;
        (r, s)) in
    let text = next_bytes c in
    let ftbl = next_float_table c in
    let impl = next_parse_result c in
    let rf f = match Hashtbl.find_opt fmt_tbl (tok_of_n f) with
      | Some t -> t
      | None -> diff "format-oracle-miss" ~model:(tok_of_n f) ~impl:"-"; [] in
    let pf = pf_of ftbl in
    (* the harness's renderer and the model's renderer agree byte for byte *)
    let mtext = render rf items in
    check_eq "render-text" show_b mtext text;
    let m = parse pf text in
    compare_parse m impl text;
    (* property: valid records in a valid layout come back unchanged (real parser) *)
    let valid = List.for_all (fun (r, s) -> valid_record pf rf r && style_ok r s) items in
    if valid then begin
      incr n_render_valid;
      if List.exists (fun (r, s) -> s.rs_multi && r.c_counter <> [] && List.mem (n_of_int 123) r.c_counter) items then incr n_render_multi;
      let rs = List.map fst items in
      let observed = (match impl with
          | IOk got -> POk got
          | IErr (has, ln, _) -> PErr ((if has then Some (n_of_z ln) else None), EBadLine)
          | IPanic -> PErr (None, EBadLine)) in
      if not (roundtrip_ok rs observed) then
        prop "parse-render" (Printf.sprintf "records=[%s] longest-line=%d text=%S parsed=%s"
                               (String.concat "; " (List.map show_record rs)) (longest_line text)
                               (abbrev (string_of_bytes text)) (show_impl_parse impl))
    end
  | "text" ->
    let text = next_bytes c in
    let ftbl = next_float_table c in
    let impl = next_parse_result c in
    let m = parse (pf_of ftbl) text in
    compare_parse m impl text
  | "gen" -> handle_gen c ""
  | "sgen" ->
    (* one of several generate() calls made in ONE process through the real
       listProxyVersions path (a fake `go` on PATH answers from the proxy table
       of the case): every call must equal the model on that table, whatever
       was generated before *)
    let sid = next_int c in
    let idx = next_int c in
    handle_gen c (Printf.sprintf "session=%d call=%d (same process as the preceding sgen cases of the session; no test hook) " sid idx)
  | "pad" ->
    let versions = next_list c next_bytes in
    let patterns = next_list c next_bytes in
    let pd = next_padding c in
    let status = next c in
    let impl = if status = "ok" then Some (next_list c next_bytes) else None in
    let tbl = next_version_table c in
    oracle_strict := (status = "ok");
    let (_, vcmp, canonical, prerelease) = oracles tbl in
    let m = pad_versions vcmp canonical prerelease versions patterns pd in
    (match m, impl with
     | Some mo, Some io -> check_eq "pad-versions" show_list mo io
     | None, None -> ()
     | _ -> diff "pad-status" ~model:(match m with Some _ -> "ok" | None -> "panic") ~impl:status);
    (* the property speaks of the padded list: a panic leaves none (finding class pad-panic) *)
    if status = "panic" then
      prop "pad-panic" (Printf.sprintf "padVersions panicked: versions=%s patterns=%s" (show_list versions) (show_list patterns));
    (match impl with
     | Some io ->
       let detail = Printf.sprintf "versions=%s patterns=%s out=%s" (show_list versions) (show_list patterns) (show_list io) in
       if not (superset_b versions io) then prop "pad-superset" detail;
       if not (adjacent_ok vcmp io) then prop "pad-sorted" detail;
       if nodup_b versions && nodup_b patterns && not (nodup_b io) then prop "pad-nodup" detail
     | None -> ())
  | k -> diff "unknown-case-kind" ~model:k ~impl:"-"

let () =
  run_file Sys.argv.(1) handle;
  Printf.printf "INFO render cases with valid records and layout (round-trip oracle evaluated): %d, of which with a multi-line bucket list: %d\n"
    !n_render_valid !n_render_multi
