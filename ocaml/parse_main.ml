(* parse_main.ml: evaluates the extracted Model/Parse on the observations of
   harness vh_parse (C06). *)
(* a changed implementation may differ on every case: print the first few hundred
   differences only (all are counted) *)
let diff_budget = ref 300
let diff0 = diff
let diff field ~model ~impl =
  if !diff_budget > 0 then begin decr diff_budget; diff0 field ~model ~impl end
  else begin failed_here := true; incr n_diff end

let str = string_of_bytes

type obs = Perr of string | Pok of (string * string) list * (string * string) list
let read_obs c =
  let tag = next c in
  if tag <> "ok" then Perr tag
  else begin
    let m = next_list c (fun c -> let k = next_bytes c in let v = next_bytes c in (str k, str v)) in
    let cs = next_list c (fun c -> let k = next_bytes c in let v = next_n c in (str k, tok_of_n v)) in
    Pok (m, cs)
  end
let clip s = if String.length s > 300 then String.sub s 0 300 ^ "..." else s
let show_obs = function
  | Perr t -> t
  | Pok (m, cs) ->
    clip ("ok meta=" ^ String.concat ";" (List.map (fun (k, v) -> String.escaped k ^ "=" ^ String.escaped v) m)
          ^ " counts=" ^ String.concat ";" (List.map (fun (k, v) -> String.escaped k ^ "=" ^ v) cs))
let norm_obs meta counts =
  Pok (List.sort compare (List.map (fun (k, v) -> (str k, str v)) (last_wins meta)),
       List.sort compare (List.map (fun (k, v) -> (str k, tok_of_n v)) (last_wins counts)))
let obs_of_model = function
  | PDiverge -> Perr "diverge"
  | PErrShort -> Perr "short"
  | PErrHdr -> Perr "hdr"
  | PErrCorrupt -> Perr "corrupt"
  | POk (m, cs) -> norm_obs m cs

let handle kind c =
  match kind with
  | "parse" ->
    let stream = next c in
    let data = next_bytes c in
    let real = read_obs c in
    let oob = next c in
    let oob_tag = if oob = "differs" then next c else "" in
    let size = List.length data in
    (* totality: an answer, not a panic and not a hang *)
    (match real with
     | Perr "panic" -> prop "parse-panic" (Printf.sprintf "stream %s: Parse panicked on a %d byte input" stream size)
     | Perr "hang" -> prop "parse-hang" (Printf.sprintf "stream %s: Parse did not return on a %d byte input" stream size)
     | _ -> ());
    (* a function of its input: same answer whatever follows the input in memory *)
    if oob = "differs" then
      prop "parse-oob-read"
        (Printf.sprintf "stream %s: %d byte input, header length field %s: answer %s with zero bytes after the input, %s with 0xff bytes"
           stream size (tok_of_n (get32 data (n_of_int 28))) (show_obs real) oob_tag);
    let model = obs_of_model (parse data) in
    (match real with
     | Perr "panic" | Perr "hang" -> ()
     | _ -> check_eq "parse-result" show_obs model real);
    (* faithfulness on well-formed files *)
    (match spec_read data with
     | None -> ()
     | Some ((((_, _), kv), _), tbl) ->
       let rs = List.concat tbl in
       let spec = norm_obs kv (List.map (fun ((_, name), v) -> (decode_stack name, v)) rs) in
       if real <> spec then
         prop (if twin_clash_from [] rs then "parse-expanded-twin" else "parse-faithful")
           (Printf.sprintf "stream %s: well-formed file of %d bytes, %d records: Parse=%s layout=%s"
              stream size (List.length rs) (show_obs real) (show_obs spec)));
    (* soundness on every input *)
    (match real with
     | Pok (_, cs) ->
       let linked = List.map (fun (k, v) -> (str k, tok_of_n v)) (linked_pairs data) in
       List.iter (fun kv ->
           if not (List.mem kv linked) then
             prop "parse-sound" (Printf.sprintf "stream %s: Parse returned %s=%s which is no linked record of the input"
                                   stream (String.escaped (fst kv)) (snd kv))) cs
     | _ -> ())
  | "read" ->
    let phase = next c in
    let data = next_bytes c in
    let reads = next_list c (fun c -> let name = next_bytes c in let tag = next c in let v = next_n c in (name, tag, v)) in
    let rf_tag = next c in
    let rf = if rf_tag = "ok" then begin
        let cs = next_list c (fun c -> let k = next_bytes c in let v = next_n c in (str k, tok_of_n v)) in
        let ss = next_list c (fun c -> let k = next_bytes c in let v = next_n c in (str k, tok_of_n v)) in
        Some (cs, ss) end else None in
    let sr = spec_read data in
    let spec_counts = match sr with
      | Some ((((_, _), _), _), tbl) -> Some (List.map (fun ((_, name), v) -> (decode_stack name, v)) (List.concat tbl))
      | None -> None in
    let show_r = function RdErr -> "err" | RdNotFound -> "notfound" | RdVal v -> "ok " ^ tok_of_n v in
    List.iter (fun (name, tag, v) ->
        let impl = if tag = "ok" then "ok " ^ tok_of_n v else tag in
        (match tag with
         | "hang" -> prop "read-hang" (Printf.sprintf "phase %s: Read(%s) did not return" phase (String.escaped (str name)))
         | "panic" -> prop "read-panic" (Printf.sprintf "phase %s: Read(%s) panicked" phase (String.escaped (str name)))
         | _ ->
           check_eq ("read-" ^ phase) (fun x -> x) (show_r (read_counter data name)) impl;
           (* oracle: the file on disk is well-formed, so Read has to return what an independent
              reader finds under the expanded name *)
           (match spec_counts with
            | Some cs ->
              let want = match find_last (decode_stack name) cs with Some v -> "ok " ^ tok_of_n v | None -> "notfound" in
              if impl <> want then
                prop "read-faithful"
                  (Printf.sprintf "phase %s, well-formed file of %d bytes: Read(%s) = %s, the file holds %s"
                     phase (List.length data) (clip (String.escaped (str name))) impl want)
            | None -> ()))) reads;
    (* ReadFile *)
    let norm l = List.sort compare (List.map (fun (k, v) -> (str k, tok_of_n v)) l) in
    let model_rf = match read_file data with Some (cs, ss) -> Some (norm cs, norm (last_wins ss)) | None -> None in
    let show_rf = function
      | None -> "err"
      | Some (cs, ss) -> clip (Printf.sprintf "counters=%s stacks=%s"
                                 (String.concat ";" (List.map (fun (k, v) -> String.escaped k ^ "=" ^ v) cs))
                                 (String.concat ";" (List.map (fun (k, v) -> String.escaped k ^ "=" ^ v) ss))) in
    if model_rf <> rf then diff "readfile" ~model:(show_rf model_rf) ~impl:(show_rf rf);
    (match spec_counts, rf with
     | Some _, None -> prop "read-faithful" (Printf.sprintf "phase %s: ReadFile fails on a well-formed file of %d bytes" phase (List.length data))
     | _ -> ())
  | "readres" ->
    (* the model of Read / ReadFile is a function of the file's contents: it has no state to
       leave behind; the implementation must not either *)
    let reads = next_int c in
    let maps0 = next_int c in
    let maps1 = next_int c in
    let fds0 = next_int c in
    let fds1 = next_int c in
    if maps0 >= 0 && maps1 > maps0 then
      prop "read-leaves-mapping"
        (Printf.sprintf "%d reads (Read / ReadFile) left %d additional mappings of the counter file in the process (%d before, %d after)"
           reads (maps1 - maps0) maps0 maps1);
    if fds0 >= 0 && fds1 > fds0 then
      prop "read-leaves-descriptor"
        (Printf.sprintf "%d reads left %d additional open file descriptors (%d before, %d after)" reads (fds1 - fds0) fds0 fds1)
  | k -> diff "unknown-case-kind" ~model:k ~impl:"-"

let () = run_file Sys.argv.(1) handle
