(* common.ml: glue shared by all model runners.  It is concatenated AFTER the
   extracted model (so the extracted types positive / n / z / nat are in
   scope, and extracted names shadow Stdlib ones: use List./Stdlib. prefixes)
   and BEFORE the per-suite driver.  Trusted base: this file only converts
   between the wire format and the extracted datatypes and prints results. *)

let rec pos_of_int (i : int) : positive =
  if i <= 1 then XH
  else if i land 1 = 0 then XO (pos_of_int (i lsr 1))
  else XI (pos_of_int (i lsr 1))
let n_of_int (i : int) : n = if i <= 0 then N0 else Npos (pos_of_int i)
let rec int_of_pos = function
  | XH -> 1 | XO p -> 2 * int_of_pos p | XI p -> 2 * int_of_pos p + 1
let int_of_n = function N0 -> 0 | Npos p -> int_of_pos p
let z_of_int (i : int) : z =
  if i = 0 then Z0 else if i > 0 then Zpos (pos_of_int i) else Zneg (pos_of_int (- i))
let int_of_z = function Z0 -> 0 | Zpos p -> int_of_pos p | Zneg p -> - (int_of_pos p)
let rec nat_of_int (i : int) : nat = if i <= 0 then O else S (nat_of_int (i - 1))
let rec int_of_nat = function O -> 0 | S k -> 1 + int_of_nat k

let hexval c =
  match c with
  | '0' .. '9' -> Char.code c - 48
  | 'a' .. 'f' -> Char.code c - 87
  | 'A' .. 'F' -> Char.code c - 55
  | _ -> failwith ("bad hex digit " ^ String.make 1 c)

(* arbitrary precision: hex digits (most significant first) -> N *)
let n_of_hex (s : string) : n =
  let acc = ref None in
  String.iter (fun c ->
      let v = hexval c in
      List.iter (fun bit ->
          let b = (v lsr bit) land 1 = 1 in
          acc := (match !acc with
                  | None -> if b then Some XH else None
                  | Some p -> Some (if b then XI p else XO p)))
        [3; 2; 1; 0]) s;
  match !acc with None -> N0 | Some p -> Npos p

let hex_of_n (x : n) : string =
  match x with
  | N0 -> "0"
  | Npos p ->
    let rec bits p acc = match p with
      | XH -> 1 :: acc
      | XO q -> bits q (0 :: acc)
      | XI q -> bits q (1 :: acc) in
    (* bits: most significant first *)
    let bl = bits p [] in
    let len = List.length bl in
    let pad = (4 - len mod 4) mod 4 in
    let bl = List.init pad (fun _ -> 0) @ bl in
    let buf = Buffer.create 16 in
    let rec go = function
      | a :: b :: c :: d :: rest ->
        Buffer.add_char buf "0123456789abcdef".[a * 8 + b * 4 + c * 2 + d]; go rest
      | _ -> () in
    go bl; Buffer.contents buf

let z_of_tok (t : string) : z =
  if String.length t < 2 || t.[0] <> 'i' then failwith ("bad int token " ^ t);
  if t.[1] = '-' then
    (match n_of_hex (String.sub t 2 (String.length t - 2)) with N0 -> Z0 | Npos p -> Zneg p)
  else
    (match n_of_hex (String.sub t 1 (String.length t - 1)) with N0 -> Z0 | Npos p -> Zpos p)
let n_of_tok (t : string) : n =
  match z_of_tok t with Z0 -> N0 | Zpos p -> Npos p | Zneg _ -> failwith ("negative N " ^ t)
let int_of_tok t = int_of_z (z_of_tok t)
let bool_of_tok t = int_of_tok t <> 0
let tok_of_z (x : z) : string =
  match x with Z0 -> "i0" | Zpos p -> "i" ^ hex_of_n (Npos p) | Zneg p -> "i-" ^ hex_of_n (Npos p)
let tok_of_n (x : n) : string = "i" ^ hex_of_n x

let byte_tab : n array = Array.init 256 n_of_int
let bytes_of_tok (t : string) : n list =
  if String.length t < 1 || t.[0] <> 'h' then failwith ("bad bytes token " ^ t);
  let l = (String.length t - 1) / 2 in
  List.init l (fun i -> byte_tab.(hexval t.[1 + 2 * i] * 16 + hexval t.[2 + 2 * i]))
let tok_of_bytes (b : n list) : string =
  let buf = Buffer.create 64 in
  Buffer.add_char buf 'h';
  List.iter (fun x -> Buffer.add_string buf (Printf.sprintf "%02x" (int_of_n x land 255))) b;
  Buffer.contents buf
let string_of_bytes (b : n list) : string =
  String.concat "" (List.map (fun x -> String.make 1 (Char.chr (int_of_n x land 255))) b)
let bytes_of_string (s : string) : n list =
  List.init (String.length s) (fun i -> byte_tab.(Char.code s.[i]))

(* results *)
let lineno = ref 0
let n_ok = ref 0
let n_diff = ref 0
let n_prop = ref 0
let failed_here = ref false
let diff field ~model ~impl =
  failed_here := true; incr n_diff;
  Printf.printf "DIFF %d %s model=%s impl=%s\n" !lineno field model impl
let prop cls detail =
  failed_here := true; incr n_prop;
  Printf.printf "PROP %d %s %s\n" !lineno cls detail
let check_eq field to_s m i = if m <> i then diff field ~model:(to_s m) ~impl:(to_s i)

(* token cursor *)
type cursor = { toks : string array; mutable pos : int }
let next c = let t = c.toks.(c.pos) in c.pos <- c.pos + 1; t
let next_z c = z_of_tok (next c)
let next_n c = n_of_tok (next c)
let next_int c = int_of_tok (next c)
let next_bool c = bool_of_tok (next c)
let next_bytes c = bytes_of_tok (next c)
let next_list c f = let k = next_int c in List.init k (fun _ -> f c)
let at_end c = c.pos >= Array.length c.toks

let run_file (path : string) (handle : string -> cursor -> unit) =
  let ic = open_in path in
  (try
     while true do
       let line = input_line ic in
       incr lineno;
       if line <> "" then begin
         let toks = Array.of_list (String.split_on_char ' ' line) in
         failed_here := false;
         (try handle toks.(0) { toks; pos = 1 }
          with
          | Failure m -> diff "runner-failure" ~model:m ~impl:"-"
          | Invalid_argument m -> diff "runner-invalid-arg" ~model:m ~impl:"-"
          | Not_found -> diff "runner-not-found" ~model:"-" ~impl:"-");
         if not !failed_here then incr n_ok
       end
     done
   with End_of_file -> close_in ic);
  Printf.printf "DONE lines=%d ok=%d diff=%d prop=%d\n" !lineno !n_ok !n_diff !n_prop
