(* conc_main.ml: runs Model/CounterConc in lock step with the instrumented
   implementation (harness vh_conc) and evaluates the C03 oracles on the
   implementation's observations. *)
let show5 (a, b, c, d, e) =
  Printf.sprintf "word=%s ptr=%s cur=%s persisted=%s closed=%s"
    (tok_of_z a) (tok_of_z b) (tok_of_z c) (tok_of_z d) (tok_of_z e)

let handle kind c =
  match kind with
  | "conc" ->
    let scen = next c in
    let status = next c in
    let iw = next_z c in let ip = next_z c in let ic = next_z c in let ipers = next_z c in
    let full = next_bool c in
    let tight = next_bool c in
    let faults = next_int c in
    let faults_new = next_int c in
    let nth = next_int c in
    let specs = List.init nth (fun _ -> let k = next c in let a = next_z c in (k, a)) in
    let threads = List.map (fun (k, a) ->
        match k with
        | "add" -> adder a
        | "rot" -> changer NewFile
        | "rotf" -> changer FullFile
        | "ext" -> changer SameFile
        | _ -> failwith ("thread kind " ^ k)) specs in
    let nsteps = next_int c in
    let st = ref (init_of iw ip ic ipers full tight, threads) in
    let spawned = Array.make nth false in
    let init_total = Z.add ipers (w_extra iw) in
    let begun = ref init_total in
    let total = List.fold_left (fun acc (k, a) -> if k = "add" then Z.add acc a else acc) init_total specs in
    let may_sat = Z.leb mAXEXTRA total in
    let diverged = ref false in
    let last_w = ref iw and last_p = ref ipers and last_cur = ref ic and last_ptr = ref ip in
    for i = 1 to nsteps do
      let tid = next_int c in
      let w = next_z c in let p = next_z c in let cu = next_z c in let pers = next_z c in
      let ncl = next_z c in let _done = next_bool c in
      if not spawned.(tid) then begin
        spawned.(tid) <- true;
        (match List.nth specs tid with ("add", a) -> begun := Z.add !begun a | _ -> ())
      end;
      if not !diverged then begin
        st := step default_nops !st (nat_of_int tid);
        let m = obs_of (Stdlib.fst !st) in
        let (((mw, mp), mc), mpers), mcl = m in
        let mm = (mw, mp, mc, mpers, mcl) in
        if mm <> (w, p, cu, pers, ncl) then begin
          diverged := true;
          diff (Printf.sprintf "step-%d-thread-%d-%s" i tid scen) ~model:(show5 mm) ~impl:(show5 (w, p, cu, pers, ncl))
        end
      end;
      (* the pending amount sticks too: when a step of an adder raises it, the new
         value is the old one plus that adder's amount, or the limit 2^33-1 *)
      (let x0 = w_extra !last_w and x1 = w_extra w in
       if Z.ltb x0 x1 then
         match List.nth specs tid with
         | ("add", a) ->
           let want = if Z.ltb mAXEXTRA (Z.add x0 a) then mAXEXTRA else Z.add x0 a in
           if x1 <> want then
             prop "no-wrap" (Printf.sprintf "step %d: an in-memory add of %s took the pending amount from %s to %s (sum or the limit 2^33-1 expected: %s)"
                               i (tok_of_z a) (tok_of_z x0) (tok_of_z x1) (tok_of_z want))
         | _ -> ());
      if not (Z.leb !last_p pers) then
        prop "no-wrap" (Printf.sprintf "step %d: the persisted value went DOWN from %s to %s (values stick at 2^64-1, they never wrap)" i (tok_of_z !last_p) (tok_of_z pers));
      if not (instant_ok (z_of_int nth) !begun w pers) then
        prop "instant" (Printf.sprintf "step %d: word=%s persisted=%s begun=%s threads=%d" i (tok_of_z w) (tok_of_z pers) (tok_of_z !begun) nth);
      last_w := w; last_p := pers; last_cur := cu; last_ptr := p
    done;
    (match status with
     | "hang" -> prop "hang" "a call did not return within the step budget"
     | "panic" -> prop "panic" "a call panicked"
     | _ ->
       if w_have !last_w && !last_ptr <> !last_cur then
         prop "stale-pointer" (Printf.sprintf "all calls returned but the counter's pointer (mapping %s) is not the current mapping (%s): later increments land in a superseded file"
                                 (tok_of_z !last_ptr) (tok_of_z !last_cur));
       if not (final_ok total may_sat (!last_cur <> Z0) !last_w !last_p) then
         prop "quiescent" (Printf.sprintf "word=%s persisted=%s expected-total=%s cur=%s"
                             (tok_of_z !last_w) (tok_of_z !last_p) (tok_of_z total) (tok_of_z !last_cur));
       if not !diverged && not (all_done (Stdlib.snd !st)) then
         diff "model-threads-not-done" ~model:"some thread not Done" ~impl:"all calls returned");
 if faults_new > 0 then prop "entered-through-closed-mapping" (Printf.sprintf "%d accesses by a call that entered its reader/flush section AFTER the mapping was closed (scenario %s)" faults_new scen);
    if faults > 0 then prop "use-after-unmap" (Printf.sprintf "%d accesses through a closed mapping (scenario %s)" faults scen)
  | "stackpersist" ->
    let n = next_int c in
    let bad = next_int c in
    let detail = next_bytes c in
    if n = 0 then diff "stackpersist-empty" ~model:"some stack counters" ~impl:"none";
    if bad > 0 then
      prop "quiescent" (Printf.sprintf "%d of %d counters of stack counters with names near the length limit are not persisted (file open, all calls returned): %s" bad n (string_of_bytes detail))
  | "regwindow" ->
    (* the registration window: a whole Add that BEGINS after a rotation has
       returned must not go through the mapping that rotation closed *)
    let done_ = next_bool c in
    let fb = next_int c in let fc = next_int c in let fd = next_int c in
    if not done_ then prop "hang" "regwindow: a call did not return";
    if fb + fc > 0 then prop "entered-through-closed-mapping" (Printf.sprintf "regwindow: %d accesses through a closed mapping before any mapping was superseded" (fb + fc));
    check_eq "regwindow-faults" string_of_int (int_of_z regwin_faults) fd;
    if fd > 0 then
      prop "unmapped-while-registering"
        (Printf.sprintf "a counter claimed by one goroutine's first Add (c.next set) but not yet linked into the file's list: another goroutine's Add cached its pointer, a rotation's invalidateCounters walk missed the counter and closed the mapping; an Add that began AFTER the rotation returned made %d accesses through the closed mapping (SIGSEGV in production)" fd)
  | "multi" ->
    (* several counters of one file object: Model/CounterMulti in lock step (one
       model step per scheduler step, every observation compared), plus the
       oracles hang / panic / quiescent on the implementation's final state *)
    let status = next c in
    let nc = next_int c in
    let read_obs () =
      let per = List.init nc (fun _ -> let w = next_z c in let p = next_z c in let pers = next_z c in (w, p, pers)) in
      let cu = next_z c in let ncl = next_z c in (per, cu, ncl) in
    let show_obs (per, cu, ncl) =
      String.concat " " (List.mapi (fun i (w, p, pers) ->
          Printf.sprintf "m%d:word=%s,ptr=%s,persisted=%s" i (tok_of_z w) (tok_of_z p) (tok_of_z pers)) per)
      ^ Printf.sprintf " cur=%s closed=%s" (tok_of_z cu) (tok_of_z ncl) in
    let model_obs ms =
      let ((l, cu), ncl) = mobs ms in
      (List.map (fun ((w, p), pers) -> (w, p, pers)) l, cu, ncl) in
    let (iper, icu, _) = read_obs () in
    let listed = next_list c (fun c -> nat_of_int (next_int c)) in
    let nth = next_int c in
    let specs = List.init nth (fun _ -> let k = next c in let ctr = next_int c in let a = next_z c in (k, ctr, a)) in
    let ncn = nat_of_int nc in
    let threads = List.map (fun (k, ctr, a) ->
        match k with
        | "add" -> adderM ncn (nat_of_int ctr) a
        | "rot" -> changerM ncn NewFile
        | "rotf" -> changerM ncn FullFile
        | _ -> failwith ("multi thread kind " ^ k)) specs in
    let st = ref (minit (List.map (fun (w, _, _) -> w) iper) listed, threads) in
    if icu <> Z0 || List.exists (fun (_, p, pers) -> p <> Z0 || pers <> Z0) iper then
      diff "multi-initial-state" ~model:"file not open, no pointers, nothing persisted" ~impl:(show_obs (iper, icu, Z0));
    let nsteps = next_int c in
    let diverged = ref false in
    let sched = Buffer.create 64 in
    let begun = Array.make nc Z0 in
    List.iteri (fun i (w, _, _) -> begun.(i) <- w_extra w) iper;
    let spawned = Array.make nth false in
    for i = 1 to nsteps do
      let tid = next_int c in
      let o = read_obs () in
      Buffer.add_string sched (Printf.sprintf "%d " tid);
      if not spawned.(tid) then begin
        spawned.(tid) <- true;
        (match List.nth specs tid with ("add", ctr, a) -> begun.(ctr) <- Z.add begun.(ctr) a | _ -> ())
      end;
      if not !diverged then begin
        st := mstep !st (nat_of_int tid);
        let m = model_obs (Stdlib.fst !st) in
        if m <> o then begin
          diverged := true;
          diff (Printf.sprintf "multi-step-%d-thread-%d" i tid) ~model:(show_obs m)
            ~impl:(show_obs o ^ " schedule=[" ^ Buffer.contents sched ^ "]")
        end
      end;
      (* model-backed instant oracle, per counter *)
      let (per, _, _) = o in
      List.iteri (fun k (w, _, pers) ->
          if not (instant_ok (z_of_int nth) begun.(k) w pers) then
            prop "instant" (Printf.sprintf "multi: step %d counter m%d: word=%s persisted=%s begun=%s schedule=[%s]" i k
                              (tok_of_z w) (tok_of_z pers) (tok_of_z begun.(k)) (Buffer.contents sched))) per
    done;
    if not !diverged then begin
      let (bad, chk) = mflags (Stdlib.fst !st) in
      if chk then diff "multi-model-self-check" ~model:"the multi-level control found an embedded thread where it did not expect it" ~impl:("schedule=[" ^ Buffer.contents sched ^ "]");
      ignore bad;
      if status = "ok" && not (m_all_done (Stdlib.snd !st)) then
        diff "multi-model-threads-not-done" ~model:"some thread not done" ~impl:("all calls returned; schedule=[" ^ Buffer.contents sched ^ "]")
    end;
    (match status with
     | "hang" -> prop "hang" ("multi: a call did not return within the step budget (first open of a full file with several pending counters); schedule=[" ^ Buffer.contents sched ^ "]")
     | "panic" -> prop "panic" "multi: a call panicked"
     | _ ->
       for i = 0 to nc - 1 do
         let want = next_z c in let got = next_z c in let extra = next_z c in
         if got <> want || extra <> Z0 then
           prop "quiescent" (Printf.sprintf "multi: counter m%d: increments=%s persisted=%s pending=%s schedule=[%s]" i (tok_of_z want) (tok_of_z got) (tok_of_z extra) (Buffer.contents sched))
       done)
  | k -> diff "unknown-case-kind" ~model:k ~impl:"-"

let () = run_file Sys.argv.(1) handle
