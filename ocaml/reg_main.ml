(* reg_main.ml: Model/Register in lock step with the instrumented
   file.register (harness vh_reg); oracles on the implementation's list. *)
let ptr_of_code (c : int) : ptr =
  if c = 0 then PNil else if c = 1 then PEnd else PCtr (nat_of_int (c - 2))
let code_of_ptr = function PNil -> 0 | PEnd -> 1 | PCtr c -> int_of_nat c + 2
let show (h, nx) = Printf.sprintf "head=%d next=[%s]" h (String.concat "," (List.map string_of_int nx))

let handle kind c =
  match kind with
  | "reg" ->
    let status = next c in
    let nc = next_int c in
    let nth = next_int c in
    let who = List.init nth (fun _ -> next_int c) in
    let nsteps = next_int c in
    let st = ref (rinit (nat_of_int nc) (List.map nat_of_int who)) in
    let diverged = ref false in
    let last = ref (0, List.init nc (fun _ -> 0)) in
    for i = 1 to nsteps do
      let tid = next_int c in
      let h = next_int c in
      let nx = List.init nc (fun _ -> next_int c) in
      last := (h, nx);
      if not !diverged then begin
        st := rstep !st (nat_of_int tid);
        let s = Stdlib.fst !st in
        let m = (code_of_ptr s.r_head, List.map code_of_ptr s.r_next) in
        if m <> (h, nx) then begin
          diverged := true;
          diff (Printf.sprintf "step-%d-thread-%d" i tid) ~model:(show m) ~impl:(show (h, nx))
        end
      end;
      let impl = { r_head = ptr_of_code h; r_next = List.map ptr_of_code nx } in
      if not (list_ok impl) then prop "registration-list-malformed" (Printf.sprintf "step %d: %s" i (show (h, nx)))
    done;
    (match status with
     | "hang" -> prop "hang" "register did not return within the step budget"
     | "panic" -> prop "panic" "register panicked"
     | _ ->
       let (h, nx) = !last in
       let impl = { r_head = ptr_of_code h; r_next = List.map ptr_of_code nx } in
       let done_threads = List.map (fun w -> { rt_pc = RDone; rt_c = nat_of_int w; rt_wrote = false; rt_head = PNil }) who in
       if not (quiescent_ok impl done_threads) then
         prop "registered-counter-not-in-list" (Printf.sprintf "all register calls returned: %s, registered counters %s"
                                                  (show (h, nx)) (String.concat "," (List.map string_of_int who)));
       if not !diverged && not (List.for_all rdone (Stdlib.snd !st)) then
         diff "model-threads-not-done" ~model:"some thread not Done" ~impl:"all calls returned")
  | k -> diff "unknown-case-kind" ~model:k ~impl:"-"

let () = run_file Sys.argv.(1) handle
