(* approval_main.ml: evaluates the extracted Model/Approval on the
   observations of harness vh_approval (property C11). *)

let next_strs c = next_list c next_bytes
let next_cc c = next_list c (fun c -> let nm = next_bytes c in let r = next_n c in { cc_name = nm; cc_rate = r })
let next_cfg c =
  let goos = next_strs c in
  let goarch = next_strs c in
  let gov = next_strs c in
  let sample = next_n c in
  let progs = next_list c (fun c ->
      let nm = next_bytes c in
      let vs = next_strs c in
      let cs = next_cc c in
      let ss = next_cc c in
      { pc_name = nm; pc_versions = vs; pc_counters = cs; pc_stacks = ss }) in
  { uc_goos = goos; uc_goarch = goarch; uc_goversion = gov; uc_sample = sample; uc_programs = progs }
let next_ident c =
  let p = next_bytes c in let v = next_bytes c in let g = next_bytes c in
  let o = next_bytes c in let a = next_bytes c in
  { id_program = p; id_version = v; id_goversion = g; id_goos = o; id_goarch = a }
let next_file c =
  let i = next_ident c in
  let counts = next_list c (fun c -> let k = next_bytes c in let v = next_n c in (k, v)) in
  (* does the implementation's parser read the written file as the reference reading does *)
  if not (next_bool c) then
    diff "count-file-parse" ~model:"the counters written" ~impl:("another reading / refused: file of " ^ String.escaped (string_of_bytes i.id_program));
  { f_ident = i; f_counts = counts }
let next_map c = next_list c (fun c -> let k = next_bytes c in let v = next_z c in (k, v))
let next_report c =
  let week = next_bytes c in
  let lastweek = next_bytes c in
  let x = next_n c in
  let cfgv = next_bytes c in
  let progs = next_list c (fun c ->
      let i = next_ident c in
      let cs = next_map c in
      let ss = next_map c in
      (i, (cs, ss))) in
  { r_week = week; r_lastweek = lastweek; r_x = x; r_config = cfgv; r_programs = progs }

let esc b = String.escaped (string_of_bytes b)
let show_ident i =
  String.concat "|" (List.map esc [i.id_program; i.id_version; i.id_goversion; i.id_goos; i.id_goarch])
let verdict_name = function
  | VOk -> "ok" | VBadWeek -> "week" | VBadConfig -> "config" | VBadX -> "x"
  | VUnknownBuild -> "build" | VUnknownCounter -> "counter" | VUnknownStack -> "stack"
let verdict_of_name = function
  | "ok" -> Some VOk | "week" -> Some VBadWeek | "config" -> Some VBadConfig | "x" -> Some VBadX
  | "build" -> Some VUnknownBuild | "counter" -> Some VUnknownCounter | "stack" -> Some VUnknownStack
  | _ -> None
let aclass_name = function
  | AServerRejectsUploader -> "server-rejects-uploader" | AXZero -> "x-zero"
  | AServerAcceptsOutside -> "server-accepts-outside" | AServerRejectsWithin -> "server-rejects-within"
  | AViewerSet -> "viewer-set" | AViewerCounter -> "viewer-counter" | AViewerUploader -> "viewer-uploader"
  | AViewerReportFalse -> "viewer-report-false-claim" | AViewerReportStackOmitted -> "viewer-report-stack-omitted"
  | AViewerChart -> "viewer-chart" | AViewerChartStack -> "viewer-chart-stack"
  | AServerStoresOutside -> "server-stores-outside"

let summary_name = function
  | SProgram -> "program" | SOsArch -> "osarch" | SGoVersion -> "goversion" | SVersion -> "version"
  | SCounters _ -> "counters" | SClean -> "clean"
let sort_names l = List.sort Stdlib.compare (List.map string_of_bytes l)
let show_names l = String.concat "," (List.map String.escaped l)

(* one server judgement: DIFF model vs implementation, PROP oracle on the implementation's verdict *)
let sort_map m = List.sort (fun (a, _) (b, _) -> Stdlib.compare (string_of_bytes a) (string_of_bytes b)) m
let show_map m = String.concat "," (List.map (fun (k, v) -> esc k ^ "=" ^ tok_of_z v) m)
let show_report_programs r =
  String.concat "; " (List.map (fun (i, (cs, ss)) ->
      Printf.sprintf "<%s> C{%s} S{%s}" (show_ident i) (show_map (sort_map cs)) (show_map (sort_map ss))) r.r_programs)
let show_stored r =
  Printf.sprintf "week=%s last=%s x=%s cfg=%s progs=[%s]" (esc r.r_week) (esc r.r_lastweek) (tok_of_n r.r_x) (esc r.r_config)
    (show_report_programs r)

(* what the handler stored for the request whose decoding is r and whose status is `status` *)
let stored_case c u ~what r status =
  let accepted = (status = 200) in
  match next c with
  | "stored" ->
    let s = next_report c in
    let extra = next_bool c in
    (* model: the stored object is the re-encoded decoded report *)
    if accepted then begin
      if show_stored s <> show_stored r then diff (what ^ "-stored-object") ~model:(show_stored r) ~impl:(show_stored s);
      if extra then diff (what ^ "-stored-members") ~model:"only the report format's" ~impl:"others too"
    end else diff (what ^ "-stored") ~model:"nothing" ~impl:"an object";
    List.iter (fun cl ->
        prop (aclass_name cl)
          (Printf.sprintf "%s report week=%s (handler answers %d): stored object, read as text: %s%s"
             what (esc r.r_week) status (if extra then "[members outside the report format] " else "") (show_report_programs s)))
      (stored_check u accepted (Some s) extra)
  | "nostored" ->
    if accepted then diff (what ^ "-stored") ~model:"the report" ~impl:"nothing";
    List.iter (fun cl -> prop (aclass_name cl) (what ^ " report accepted but nothing stored"))
      (stored_check u accepted None false)
  | _ -> diff (what ^ "-stored") ~model:"a JSON report" ~impl:"unreadable object"

let last_uploader_report : report option ref = ref None
let server_case c u cfg ~from_uploader ~what =
  let r = next_report c in
  if from_uploader then last_uploader_report := Some r;
  let vtag = next c in
  let status = next_int c in
  let semver_ok = next_bool c in
  let stored = next_bool c in
  let mv = server_validate cfg semver_ok r in
  let tag s = what ^ "-" ^ s in
  if verdict_name mv <> vtag then diff (tag "verdict") ~model:(verdict_name mv) ~impl:vtag;
  let mstatus = int_of_n (server_status mv) in
  if mstatus <> status then diff (tag "status") ~model:(string_of_int mstatus) ~impl:(string_of_int status);
  if stored <> (status = 200) then diff (tag "stored") ~model:(string_of_bool (status = 200)) ~impl:(string_of_bool stored);
  stored_case c u ~what r status;
  (* the oracle judges the outermost entry point: the upload handler's HTTP status *)
  (match (if status = 200 then Some VOk
          else match verdict_of_name vtag with
            | Some VOk | None -> Some VUnknownBuild   (* refused by the handler although validate alone accepts *)
            | v -> v) with
   | None -> ()
   | Some iv ->
     let week_ok = (match parse_date r.r_week with Some _ -> true | None -> false) in
     List.iter (fun cl ->
         prop (aclass_name cl)
           (Printf.sprintf "%s report week=%s config=%s x=%s programs=%d: handler answers %d (validate alone: %s)"
              what (esc r.r_week) (esc r.r_config) (tok_of_n r.r_x) (List.length r.r_programs) status vtag))
       (server_check u from_uploader week_ok semver_ok r iv))

let handle kind c =
  match kind with
  | "approval" ->
    let u = next_cfg c in
    let cfg = new_config u in
    let files = next_list c next_file in
    last_uploader_report := None;
    (match next c with
     | "up" -> server_case c u cfg ~from_uploader:true ~what:"uploader"
     | _ -> ());
    let nv = next_int c in
    for _ = 1 to nv do server_case c u cfg ~from_uploader:false ~what:"variant" done;
    (match next c with
     | "again" ->
       (match !last_uploader_report with
        | Some r ->
          let vtag = next c in
          let status = next_int c in
          let semver_ok = next_bool c in
          let stored = next_bool c in
          let mv = server_validate cfg semver_ok r in
          if verdict_name mv <> vtag then diff "again-verdict" ~model:(verdict_name mv) ~impl:vtag;
          let mstatus = int_of_n (server_status mv) in
          if mstatus <> status then diff "again-status" ~model:(string_of_int mstatus) ~impl:(string_of_int status);
          if stored <> (status = 200) then diff "again-stored" ~model:(string_of_bool (status = 200)) ~impl:(string_of_bool stored);
          stored_case c u ~what:"again" r status;
          let week_ok = (match parse_date r.r_week with Some _ -> true | None -> false) in
          let iv = if status = 200 then VOk else (match verdict_of_name vtag with Some VOk | None -> VUnknownBuild | Some v -> v) in
          List.iter (fun cl ->
              prop (aclass_name cl)
                (Printf.sprintf "uploader report posted again after %d other reports: week=%s x=%s programs=%d: handler answers %d"
                   nv (esc r.r_week) (tok_of_n r.r_x) (List.length r.r_programs) status))
            (server_check u true week_ok semver_ok r iv)
        | None -> diff "again" ~model:"an uploader report" ~impl:"none")
     | _ -> ());
    (* the uploader's report POSTed by several clients at once to a freshly started server *)
    (match next c with
     | "burst" ->
       let statuses = next_list c next_int in
       (match !last_uploader_report with
        | Some r ->
          let mv = server_validate cfg true r in
          let mstatus = int_of_n (server_status mv) in
          List.iteri (fun i st ->
              if st <> mstatus then begin
                diff "burst-status" ~model:(string_of_int mstatus) ~impl:(string_of_int st);
                let week_ok = (match parse_date r.r_week with Some _ -> true | None -> false) in
                let iv = if st = 200 then VOk else VUnknownBuild in
                List.iter (fun cl ->
                    prop (aclass_name cl)
                      (Printf.sprintf "uploader report posted by %d clients at once to a fresh server: client %d is answered %d (week=%s programs=%d)"
                         (List.length statuses) (i + 1) st (esc r.r_week) (List.length r.r_programs)))
                  (server_check u true week_ok true r iv)
              end) statuses
        | None -> diff "burst" ~model:"an uploader report" ~impl:"none")
     | _ -> ());
    (* the real uploader's report at X = 0 on the whole week *)
    let up0 = (match next c with
        | "some" -> let r = next_report c in Some r.r_programs
        | _ -> None) in
    (match up0 with
     | Some ps ->
       let mp = filter_upload cfg N0 (aggregate files) in
       let keys ps = List.sort Stdlib.compare (List.concat_map (fun (i, (cs, ss)) ->
           List.map (fun (k, _) -> show_ident i ^ "/" ^ string_of_bytes k) (cs @ ss)) ps) in
       check_eq "upload-at-x0" show_names (keys mp) (keys ps)
     | None -> ());
    List.iter (fun f ->
        let cls = next c in
        let names = List.sort Stdlib.compare (List.map string_of_bytes (next_strs c)) in
        let meta = List.init 5 (fun _ -> next_bool c) in
        let active = next_list c (fun c -> let k = next_bytes c in let a = next_bool c in (k, a)) in
        let who = "file<" ^ esc f.f_ident.id_program ^ ">" in
        (* model vs implementation *)
        let ms = viewer_summary cfg f in
        if summary_name ms <> cls then diff "viewer-summary" ~model:(summary_name ms) ~impl:cls
        else (match ms with
            | SCounters l -> check_eq "viewer-summary-names" show_names (sort_names l) names
            | _ -> ());
        check_eq "viewer-active-meta" (fun l -> String.concat "" (List.map (fun b -> if b then "1" else "0") l))
          (viewer_active_meta cfg f.f_ident) meta;
        let norm l = List.sort Stdlib.compare (List.map (fun (k, a) -> (string_of_bytes k, a)) l) in
        check_eq "viewer-active" (fun l -> String.concat "," (List.map (fun (k, a) -> String.escaped k ^ "=" ^ string_of_bool a) l))
          (norm (viewer_active cfg f)) (norm active);
        (* oracle on the implementation's verdicts *)
        let isummary = (match cls with
            | "program" -> Some SProgram | "osarch" -> Some SOsArch | "goversion" -> Some SGoVersion
            | "version" -> Some SVersion | "clean" -> Some SClean
            | "counters" -> Some (SCounters (List.map bytes_of_string names))
            | _ -> None) in
        (match isummary with
         | None -> diff "viewer-summary-text" ~model:"one of the fixed phrases" ~impl:cls
         | Some s ->
           List.iter (fun cl -> prop (aclass_name cl) (who ^ " summary=" ^ cls ^ " [" ^ show_names names ^ "]"))
             (List.sort_uniq Stdlib.compare (viewer_check u f s meta active up0))))
      files;
    (* the viewer on the week's reports (reports(dir, cfg)) *)
    let nrv = next_int c in
    for _ = 1 to nrv do
      let tag = next c in
      let r = next_report c in
      List.iter (fun p ->
          let cls = next c in
          let names = List.sort Stdlib.compare (List.map string_of_bytes (next_strs c)) in
          let (i, _) = p in
          let who = tag ^ "-report program<" ^ esc i.id_program ^ ">" in
          let ms = viewer_report_summary cfg p in
          if summary_name ms <> cls then diff "report-view-summary" ~model:(summary_name ms) ~impl:cls
          else (match ms with
              | SCounters l -> check_eq "report-view-names" show_names (sort_names l) names
              | _ -> ());
          let isummary = (match cls with
              | "program" -> Some SProgram | "osarch" -> Some SOsArch | "goversion" -> Some SGoVersion
              | "version" -> Some SVersion | "clean" -> Some SClean
              | "counters" -> Some (SCounters (List.map bytes_of_string names))
              | _ -> None) in
          (match isummary with
           | None -> diff "report-view-summary-text" ~model:"one of the fixed phrases" ~impl:cls
           | Some s ->
             List.iter (fun cl -> prop (aclass_name cl) (who ^ " summary=" ^ cls ^ " [" ^ show_names names ^ "]"))
               (List.sort_uniq Stdlib.compare (viewer_report_check u p s))))
        r.r_programs
    done
  | "pages" ->
    (* one viewer Server, a sequence of index-page requests for different configuration versions *)
    let files = next_list c next_file in
    let nreq = next_int c in
    for q = 1 to nreq do
      let version = next_bytes c in
      let up = next_bool c in
      let u = next_cfg c in
      let cfg = new_config u in
      let status = next_int c in
      let tag s = Printf.sprintf "page%d-%s" q s in
      if status <> 200 then diff (tag "status") ~model:"200" ~impl:(string_of_int status);
      List.iter (fun f ->
          let cls = next c in
          let names = List.sort Stdlib.compare (List.map string_of_bytes (next_strs c)) in
          if status = 200 then begin
            let ms = viewer_summary cfg f in
            if summary_name ms <> cls then diff (tag "summary") ~model:(summary_name ms) ~impl:cls
            else (match ms with
                | SCounters l -> check_eq (tag "summary-names") show_names (sort_names l) names
                | _ -> ());
            let isummary = (match cls with
                | "program" -> Some SProgram | "osarch" -> Some SOsArch | "goversion" -> Some SGoVersion
                | "version" -> Some SVersion | "clean" -> Some SClean
                | "counters" -> Some (SCounters (List.map bytes_of_string names))
                | _ -> None) in
            (match isummary with
             | None -> diff (tag "summary-text") ~model:"one of the fixed phrases" ~impl:cls
             | Some s ->
               List.iter (fun cl ->
                   prop (aclass_name cl)
                     (Printf.sprintf "request %d of %d on one viewer server: /?config=%s (store %s): file<%s> summary=%s [%s]"
                        q nreq (esc version) (if up then "reachable" else "unreachable") (esc f.f_ident.id_program) cls (show_names names)))
                 (List.sort_uniq Stdlib.compare (viewer_summary_check u f s)))
          end)
        files;
      (* the Charts section *)
      let charts = next_list c (fun c -> let p = next_bytes c in let n = next_bytes c in let a = next_bool c in (p, n, a)) in
      if status = 200 then begin
        let key (p, n) = string_of_bytes p ^ "\000" ^ string_of_bytes n in
        let mcharts = List.sort_uniq Stdlib.compare
            (List.map (fun ((p, n), a) -> (key (p, n), a)) (viewer_charts cfg files)) in
        let icharts = List.sort_uniq Stdlib.compare (List.map (fun (p, n, a) -> (key (p, n), a)) charts) in
        check_eq (tag "charts") (fun l -> String.concat "," (List.map (fun (k, a) -> String.escaped k ^ "=" ^ string_of_bool a) l))
          mcharts icharts;
        List.iter (fun (p, n, a) ->
            List.iter (fun cl ->
                prop (aclass_name cl)
                  (Printf.sprintf "request %d of %d: /?config=%s: chart <%s> of program <%s> shown as %s"
                     q nreq (esc version) (esc n) (esc p) (if a then "present in the config" else "not present in the telemetry config")))
              (viewer_chart_check u files p n a))
          charts
      end
    done
  | "hang" ->
    let i = next_int c in
    prop "hang" (Printf.sprintf "case number %d of this run did not return within the watchdog's time" (i + 1))
  | "fds" ->
    let n0 = next_int c in
    let n1 = next_int c in
    if n1 > n0 + 16 then
      prop "fd-leak" (Printf.sprintf "%d file descriptors open before the run of all cases, %d after" n0 n1)
  | k -> diff "unknown-case-kind" ~model:k ~impl:"-"

let () = run_file Sys.argv.(1) handle
