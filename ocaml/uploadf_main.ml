(* uploadf_main.ml: runs Model/UploaderFault (one uploader.Run under a fault
   plan) on the plan and the week order the harness observed, compares the
   number of calls, the panic flag, the final directory and the server log with
   the real run, and evaluates the C05 (uploader half) oracles on the
   implementation's observations. *)
type odesc =
  | OBlob of int
  | OEmpty
  | ORep of string * string * (int * (int * int) list) list
  | OX

let show_desc = function
  | OBlob i -> Printf.sprintf "blob%d" i
  | OEmpty -> "empty"
  | OX -> "garbage"
  | ORep (w, l, ps) ->
    Printf.sprintf "report(%s,last=%s,%s)" w l
      (String.concat ";" (List.map (fun (p, cs) ->
           Printf.sprintf "p%d[%s]" p (String.concat "," (List.map (fun (k, v) -> Printf.sprintf "%d=%d" k v) cs))) ps))

let empty_blob = 999999
let partial_blob = 888888
let conv_sums s = List.map (fun (p, cs) -> (int_of_n p, List.map (fun (k, v) -> (int_of_n k, int_of_z v)) cs)) s
let desc_of_content allowed (c : content) : odesc =
  match c with
  | CCount (_, h) | CRaw h ->
    let i = int_of_n h in if i = empty_blob then OEmpty else if i = partial_blob then OX else OBlob i
  | CLock | CRep None -> OEmpty
  | CRep (Some r) -> ORep (string_of_bytes r.r_week, string_of_bytes r.r_last, conv_sums (sums allowed r.r_up r.r_files))
let model_listing allowed d =
  List.sort compare (List.map (fun (n, (_, c)) -> (string_of_bytes n, desc_of_content allowed c)) d)
let show_listing l = String.concat " " (List.map (fun (n, d) -> n ^ ":" ^ show_desc d) l)
let has_suffix s suf =
  let ls = String.length s and lf = String.length suf in ls >= lf && String.sub s (ls - lf) lf = suf
let has_prefix s p =
  let ls = String.length s and lp = String.length p in ls >= lp && String.sub s 0 lp = p
let contains_sub s p =
  let ls = String.length s and lp = String.length p in
  let rec go i = i + lp <= ls && (String.sub s i lp = p || go (i + 1)) in go 0
let is_count_s n = has_suffix n ".v1.count"
let is_ready_s n = (not (is_count_s n)) && (not (has_prefix n "local.")) && has_suffix n ".json"

type cnt = { c_name : string; c_end : z; c_week : string; c_cf : cfile }

let handle kind c =
  match kind with
  | "upf" ->
    let ckind = next c in
    let status = next c in
    let exported = next_bool c in
    let _dirp = next_bytes c in
    let allowed = next_list c next_n in
    let counts = ref [] in
    let ninit = next_int c in
    let local0 = List.init ninit (fun i ->
        let name = next_bytes c in
        let k = next c in
        let blob = next_n c in
        match k with
        | "cnt" ->
          let parsed = next_bool c in
          if parsed then begin
            let b = next_z c in let e = next_z c in let p = next_n c in
            let cs = next_list c (fun c -> let k = next_n c in let v = next_z c in (k, v)) in
            let cf = { cf_begin = b; cf_end = e; cf_prog = p; cf_counts = cs } in
            counts := { c_name = string_of_bytes name; c_end = e;
                        c_week = string_of_bytes (uploader_week e); c_cf = cf } :: !counts;
            (name, (nat_of_int i, CCount (Some cf, blob)))
          end else (name, (nat_of_int i, CCount (None, blob)))
        | "raw" -> (name, (nat_of_int i, CRaw blob))
        | k -> failwith ("initial file kind " ^ k)) in
    let counts = List.rev !counts in
    let up_present = next_bool c in
    let nup = next_int c in
    let up0 = List.init nup (fun i ->
        let name = next_bytes c in
        match next c with
        | "lock" -> (name, (nat_of_int (ninit + i), CLock))
        | "raw" -> let b = next_n c in (name, (nat_of_int (ninit + i), CRaw b))
        | k -> failwith ("initial upload kind " ^ k)) in
    let s = next_z c in let ns = next_z c in let on = next_bool c in
    let ap = next_bool c in let a = next_z c in let zone = next_z c in
    let cfg = { u_start = (s, ns); u_on = on; u_asof = (if ap then Some a else None); u_dir = []; u_zone = zone } in
    let plan_l = next_list c (fun c ->
        let i = next_int c in
        let k = (match next c with
            | "ENOENT" | "EACCES" | "ENOSPC" | "EIO" -> FErr
            | "short" -> FShort | "4xx" -> F4xx | "5xx" -> F5xx | "ok" -> FOk
            | k -> failwith ("fault kind " ^ k)) in
        (i, k)) in
    let plan (i : nat) = (match List.assoc_opt (int_of_nat i) plan_l with Some k -> k | None -> FOk) in
    let picks = next_list c (fun c ->
        match next c with
        | "pw" -> PW (next_bytes c)
        | "ps" -> PSilent
        | k -> failwith ("pick " ^ k)) in
    let ncalls = next_int c in
    let escaped = next_bool c in
    let recovered = next_bool c in
    let escaped_rand = next_bool c in
    let names = Array.of_list (next_list c (fun c -> string_of_bytes (next_bytes c))) in
    let descs = Array.of_list (next_list c (fun c ->
        match next c with
        | "b" -> let i = next_int c in if i = empty_blob then OEmpty else OBlob i
        | "e" -> OEmpty
        | "x" -> OX
        | "r" ->
          let w = string_of_bytes (next_bytes c) in
          let l = string_of_bytes (next_bytes c) in
          let ps = next_list c (fun c ->
              let p = next_int c in
              let cs = next_list c (fun c -> let k = next_int c in let v = next_int c in (k, v)) in
              (p, cs)) in
          ORep (w, l, ps)
        | k -> failwith ("desc kind " ^ k))) in
    let snap c =
      let ok = next_bool c in
      let es = next_list c (fun c -> let n = next_int c in let r = next_int c in (names.(n), descs.(r))) in
      (ok, es) in
    let (_, loc) = snap c in
    let (upok, upl) = snap c in
    let posts = next_list c (fun c ->
        let w = string_of_bytes (next_bytes c) in
        let b = next_int c in
        let o = (match next c with
            | "o200" -> O200 | "o4xx" -> O4xx | "o5xx" -> O5xx | "onone" -> ONone
            | k -> failwith ("outcome " ^ k)) in
        (w, descs.(b), o)) in
    let calls = next_list c (fun c -> string_of_bytes (next_bytes c)) in
    ignore calls;
    let fd_delta = next_int c in
    (* ---- model ---- *)
    let fs0 = { f_local = local0; f_upload = (if up_present then Some up0 else None);
                f_next = nat_of_int (ninit + nup) } in
    let bound = call_bound (entries fs0) in
    let x = frun (S bound) plan picks (finit fs0 cfg exported) in
    let where = Printf.sprintf "%s-plan[%s]" ckind
        (String.concat "," (List.map (fun (i, k) -> Printf.sprintf "%d:%s" i
                                        (match k with FErr -> "err" | FShort -> "short" | F4xx -> "4xx" | F5xx -> "5xx" | FOk -> "ok")) plan_l)) in
    if status <> "hang" then begin
      if not (fdone x) then diff (where ^ "-model-not-done") ~model:"fuel exhausted" ~impl:"returned";
      let mcalls = int_of_nat x.x_idx in
      if mcalls <> ncalls then diff (where ^ "-calls") ~model:(string_of_int mcalls) ~impl:(string_of_int ncalls);
      let mpanic = x.x_panic in
      let ipanic = if exported then recovered else escaped_rand in
      if mpanic <> ipanic then diff (where ^ "-panic") ~model:(string_of_bool mpanic) ~impl:(string_of_bool ipanic);
      let ml = model_listing allowed x.x_fs.f_local in
      if ml <> loc then diff (where ^ "-local") ~model:(show_listing ml) ~impl:(show_listing loc);
      (match x.x_fs.f_upload, upok with
       | None, false -> ()
       | Some d, true ->
         let mu = model_listing allowed d in
         if mu <> upl then diff (where ^ "-upload") ~model:(show_listing mu) ~impl:(show_listing upl)
       | None, true -> diff (where ^ "-upload") ~model:"missing" ~impl:"present"
       | Some _, false -> diff (where ^ "-upload") ~model:"present" ~impl:"missing");
      let mposts = List.map (fun a -> (string_of_bytes a.a_week, desc_of_content allowed a.a_body, a.a_out)) x.x_log in
      if mposts <> posts then
        diff (where ^ "-posts") ~model:(string_of_int (List.length mposts)) ~impl:(string_of_int (List.length posts));
      if ncalls > int_of_nat bound then
        prop "call-bound" (Printf.sprintf "%d calls, bound %d for %d directory entries" ncalls (int_of_nat bound) ninit)
    end;
    (* ---- oracles on the implementation's observations ---- *)
    if status = "hang" then prop "hang" "the run did not return: call budget exceeded, blocked for ever on a mutex held by the run itself, or no call and no return within the deadline (watchdog)";
    if fd_delta > 0 then
      prop "fd-leak" (Printf.sprintf "the process holds %d more file descriptors after the run than before" fd_delta);
    if exported && escaped then prop "panic-escaped" "a panic escaped the exported Run";
    if (not exported) && escaped && not escaped_rand then
      prop "panic-escaped" "the inner uploader.Run panicked although no entropy failure was injected";
    (* C05_run_total: a panic is raised only if the plan fails a call (the entropy read) *)
    if exported && recovered && not (List.exists (fun (_, k) -> k = FErr) plan_l) then
      prop "panic-without-fault" "the exported Run recovered a panic although no call failed (the run did not do its work)";
    let init_local_names = List.map (fun (n, _) -> string_of_bytes n) local0 in
    let init_up_names = List.map (fun (n, _) -> string_of_bytes n) up0 in
    let expired x = before_start x.c_end cfg.u_start in
    (* active and unparseable count files are untouched *)
    List.iter (fun (nb, (_, ct)) ->
        let n = string_of_bytes nb in
        if is_count_s n then begin
          let prot = (match List.find_opt (fun x -> x.c_name = n) counts with
              | None -> true | Some x -> not (expired x)) in
          if prot then
            match List.assoc_opt n loc with
            | None -> prop "active-file-touched" (n ^ " (not expired / unparseable) is gone")
            | Some d -> if d <> desc_of_content allowed ct then prop "active-file-touched" (n ^ " changed")
        end) local0;
    (* a count file is gone only if a report for its week exists / existed *)
    let weeks = List.sort_uniq compare (List.map (fun x -> x.c_week) counts) in
    List.iter (fun w ->
        let fw = List.filter (fun x -> x.c_week = w && expired x) counts in
        let missing = List.filter (fun x -> not (List.mem_assoc x.c_name loc)) fw in
        let witness =
          List.mem_assoc ("local." ^ w ^ ".json") loc || List.mem_assoc (w ^ ".json") loc
          || List.mem_assoc (w ^ ".json") upl
          || List.exists (fun (n, _) -> is_ready_s n && contains_sub n w) loc
          || List.exists (fun n -> is_ready_s n && contains_sub n w) init_local_names
          || List.exists (fun (w', _, _) -> w' = w) posts in
        if missing <> [] && not witness then
          prop "deleted-without-report" (Printf.sprintf "week %s: %d count files gone, no report for it" w (List.length missing));
        (* with no report before: the files are all there, or the local report is complete *)
        let evidence0 =
          List.mem ("local." ^ w ^ ".json") init_local_names || List.mem (w ^ ".json") init_local_names
          || List.mem (w ^ ".json") init_up_names
          || (on && List.exists (fun n -> is_ready_s n && contains_sub n w) init_local_names) in
        if not evidence0 then begin
          let sums_of xs = conv_sums (sums allowed false (List.map (fun x -> (bytes_of_string x.c_name, x.c_cf)) xs)) in
          let expected = sums_of fw in
          let rec subsets = function [] -> [ [] ] | x :: l -> let r = subsets l in r @ List.map (fun s -> x :: s) r in
          let total l = List.fold_left (fun a (_, cs) -> List.fold_left (fun a (_, v) -> a + v) a cs) 0 l in
          (match List.assoc_opt ("local." ^ w ^ ".json") loc with
           | Some (ORep (w', _, ps)) ->
             (* every file's counts are in the report or still in the file: the report is the aggregate of a set
                S of the week's files that contains every file that is gone *)
             let cands = if List.length fw <= 10 then List.filter (fun s -> sums_of s = ps) (subsets fw) else [] in
             if w' <> w || cands = [] then begin
               if total ps > total expected then
                 prop "counts-duplicated" (Printf.sprintf "local.%s.json = %s, whole week %s" w (show_desc (ORep (w', "", ps))) (show_desc (ORep (w, "", expected))))
               else
                 prop "counts-lost" (Printf.sprintf "local.%s.json = %s is not the aggregate of a set of the week's files (whole week %s)" w (show_desc (ORep (w', "", ps))) (show_desc (ORep (w, "", expected))))
             end else if not (List.exists (fun s -> List.for_all (fun x -> List.memq x s) missing) cands) then
               prop "counts-lost" (Printf.sprintf "week %s: a count file is gone whose counts are not in local.%s.json" w w)
           | _ ->
             if missing <> [] then
               prop "counts-lost" (Printf.sprintf "week %s: %d count files gone and no complete local report" w (List.length missing)))
        end) weeks
  | k -> diff "unknown-case-kind" ~model:k ~impl:"-"

let () = run_file Sys.argv.(1) handle
