(* uptok_main.ml: histories of program starts (suite starts of C08): the
   extracted Model/UploadStarts (on the token model of Model/Start) against
   the real acquireUploadToken called once per start, with the passage of time
   between starts applied to the token file's modification time. *)
let giga = 1000000000

let handle kind c =
  match kind with
  | "tok" ->
    (* initial token: present?, age in seconds; then the starts *)
    let has0 = next_bool c in
    let age0 = next_int c in
    let n = next_int c in
    let obs = List.init n (fun _ ->
        let t = next_int c in          (* instant of the start, seconds from the first *)
        let acq = next_bool c in       (* the real acquireUploadToken returned true *)
        let has = next_bool c in       (* token file present afterwards *)
        let age = next_int c in        (* its age afterwards, seconds *)
        (t, acq, has, age)) in
    let ns s = z_of_int (s * giga) in
    let tok0 = if has0 then Some (ns (- age0)) else None in
    let times = List.map (fun (t, _, _, _) -> ns t) obs in
    let model = starts_hist c_tokenPeriod_ns tok0 times in
    List.iteri (fun i ((t, acq, has, age), (macq, mtok)) ->
        let where = Printf.sprintf "start-%d-at-%ds" i t in
        if macq <> acq then diff (where ^ "-acquired") ~model:(string_of_bool macq) ~impl:(string_of_bool acq);
        (match mtok, has with
         | None, false -> ()
         | Some m, true ->
           (* the token's age after the start, within two seconds *)
           let mage = (t * giga - int_of_z m) / giga in
           if abs (mage - age) > 2 then
             diff (where ^ "-token-age") ~model:(string_of_int mage ^ "s") ~impl:(string_of_int age ^ "s")
         | None, true -> diff (where ^ "-token") ~model:"absent" ~impl:"present"
         | Some _, false -> diff (where ^ "-token") ~model:"present" ~impl:"absent"))
      (List.combine obs model);
    (* oracles on the implementation's observations *)
    let o = List.map (fun (t, acq, _, _) -> (ns t, acq)) obs in
    let show = String.concat " " (List.map (fun (t, acq, _, _) -> Printf.sprintf "%ds:%s" t (if acq then "acquired" else "refused")) obs) in
    let init = if has0 then Printf.sprintf "token %ds old" age0 else "no token" in
    if not (not_starved c_tokenPeriod_ns tok0 o) then
      prop "token_starved" (Printf.sprintf "a start at least 24h after the last acquisition was refused the upload token (%s; %s)" init show);
    if not (rate_ok c_tokenPeriod_ns tok0 o) then
      prop "token_too_often" (Printf.sprintf "the upload token was acquired less than 24h after the last acquisition (%s; %s)" init show)
  | k -> failwith ("case kind " ^ k)

let () = run_file Sys.argv.(1) handle
