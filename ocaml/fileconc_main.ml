(* fileconc_main.ml: runs Model/FileConc in lock step with the instrumented
   implementation (harness vh_fileconc: independent handles on one file under
   the deterministic scheduler) and evaluates the C04 oracles on the decoded
   REAL file bytes. *)

let pc_name = function
  | LHead -> "LHead" | LLen -> "LLen" | LNext -> "LNext" | RLimit -> "RLimit" | RMap -> "RMap"
  | PLimit -> "PLimit" | EStat -> "EStat" | EWrite -> "EWrite" | EMap -> "EMap" | PCas -> "PCas"
  | WCopy -> "WCopy" | WLen -> "WLen" | KNext -> "KNext" | KCas -> "KCas" | DHead -> "DHead"
  | DLen -> "DLen" | DNext -> "DNext" | DDead -> "DDead" | ALoad -> "ALoad" | ACas -> "ACas" | Done -> "Done"

let fail_name = function
  | FEmpty -> "FEmpty" | FTooLong -> "FTooLong" | FTries -> "FTries" | FLimitWithin -> "FLimitWithin" | FTrunc -> "FTrunc"
  | FExtend -> "FExtend" | FWrite -> "FWrite" | FBeyond -> "FBeyond" | FCycle -> "FCycle" | FRange -> "FRange"

(* the implementation's error classes *)
let fail_class = function FEmpty -> "empty" | FTooLong -> "toolong" | _ -> "corrupt"

let show_ent (e : ent) =
  let (off, (nm, (v, nx))) = e in
  Printf.sprintf "(%s,n%d,%s,%s)" (hex_of_n off) (int_of_n nm) (hex_of_n v) (hex_of_n nx)
let show_ents l = "[" ^ String.concat ";" (List.map show_ent l) ^ "]"
let show_obs (o : obs) =
  Printf.sprintf "size=%s/limit=%s/%s" (hex_of_n o.o_size) (hex_of_n o.o_limit)
    (String.concat "," (List.map (fun (b, c) -> Printf.sprintf "b%d:%s" (int_of_n b) (show_ents c)) o.o_chains))

type iobs = { io : obs; walk : string; scan : ent list; stray : n list }

let read_ent c : ent =
  let off = next_n c in let id = next_n c in let v = next_n c in let nx = next_n c in (off, (id, (v, nx)))

let read_obs c : iobs =
  let size = next_n c in let limit = next_n c in
  let walk = next c in
  let chains = next_list c (fun c -> let b = next_n c in let ents = next_list c read_ent in (b, ents)) in
  let scan = next_list c read_ent in
  let runs = next_list c (fun c -> let o = next_n c in let k = next_int c in (o, k)) in
  let stray = List.concat_map (fun (o, k) -> List.init k (fun j -> N.add o (n_of_int (32 * j)))) runs in
  { io = { o_size = size; o_limit = limit; o_chains = chains }; walk; scan; stray }

let handle kind c =
  match kind with
  | "fc" ->
    let scen = next c in
    let status = next c in
    let h = next_n c in
    let nuse = next_int c in
    let tbl : (int, n * n) Hashtbl.t = Hashtbl.create 64 in
    let _ = next_list c (fun c ->
        let id = next_int c in let len = next_n c in let b = next_n c in Hashtbl.replace tbl id (len, b)) in
    let nlen nm = match Hashtbl.find_opt tbl (int_of_n nm) with Some (l, _) -> l | None -> N0 in
    let bucket nm = match Hashtbl.find_opt tbl (int_of_n nm) with Some (_, b) -> b | None -> N0 in
    let nth = next_int c in
    let progs = Array.init nth (fun _ ->
        next_list c (fun c -> match next c with
            | "new" -> OpNew (next_n c)
            | "add" -> OpAdd (next_n c)
            | k -> failwith ("op " ^ k))) in
    let init = read_obs c in
    let nevents = next_int c in
    let st = ref ({ empty_file with f_size = init.io.o_size }, List.init nth (fun _ -> blank N0)) in
    let killed = Array.make nth false in
    (* damaged-start scenarios are outside the model: oracles hang / panic /
       "a damaged file is not made worse" only *)
    let dmg = String.length scen >= 4 && String.sub scen 0 4 = "dmg-" in
    let diverged = ref dmg in
    let cur = ref init in
    let has_empty (o : obs) = List.exists (fun (e : ent) -> nlen (e_name e) = N0) (all_ents o) in
    (* impl-side accounting of increments, per name id *)
    let begun : (int, n) Hashtbl.t = Hashtbl.create 16 in
    let completed : (int, n) Hashtbl.t = Hashtbl.create 16 in
    let bump t (id, k) = Hashtbl.replace t id (N.add k (match Hashtbl.find_opt t id with Some x -> x | None -> N0)) in
    let get t id = match Hashtbl.find_opt t id with Some x -> x | None -> N0 in
    let reported = Hashtbl.create 8 in
    let prop1 cls detail = if not (Hashtbl.mem reported cls) then (Hashtbl.replace reported cls (); prop cls detail) in
    let check_obs where (o : iobs) =
      if dmg then begin
        if init.walk = "wfwalk" && (o.walk <> "wfwalk" || not (monotone_ok init.io o.io)) then
          prop1 "damaged-file-worsened"
            (Printf.sprintf "%s: records reachable in the damaged initial file were lost or the chains broke (%s): before %s after %s"
               where o.walk (show_obs init.io) (show_obs o.io))
      end else begin
        if o.walk <> "wfwalk" then prop1 "wf" (Printf.sprintf "%s: chain walk of the real file failed (%s)" where o.walk)
        else if not (wf_obsb bucket nlen h false o.io) then begin
          if wf_obsb bucket nlen h true o.io && has_empty o.io
          then prop1 "empty-name" (Printf.sprintf "%s: a record with an empty name is linked (entryAt rejects it): %s" where (show_obs o.io))
          else prop1 "wf" (Printf.sprintf "%s: real file not well-formed: %s" where (show_obs o.io))
        end;
        if not (uniq_obsb o.io) then prop1 "one-record-per-name" (Printf.sprintf "%s: a name is linked twice: %s" where (show_obs o.io));
        (* written records and name bytes only below the limit *)
        List.iter (fun (e : ent) ->
            if not (N.leb (N.add (e_off e) (rsize nlen (e_name e))) o.io.o_limit) then
              prop1 "wf" (Printf.sprintf "%s: written record %s beyond the limit %s" where (show_ent e) (hex_of_n o.io.o_limit))) o.scan;
        List.iter (fun u -> if not (N.ltb u o.io.o_limit) then
                      prop1 "wf" (Printf.sprintf "%s: bytes at %s beyond the limit" where (hex_of_n u))) o.stray
      end
    in
    let check_bounds where (o : iobs) =
      if not dmg then
      let ids = Hashtbl.fold (fun id _ acc -> id :: acc) begun [] in
      List.iter (fun id ->
          let v = value_in o.io (n_of_int id) in
          if not (bounded_ok (get completed id) (get begun id) v) then
            prop1 "monotone-bounded"
              (Printf.sprintf "%s: name n%d value=%s completed=%s begun=%s" where id
                 (match v with Some x -> hex_of_n x | None -> "absent") (hex_of_n (get completed id)) (hex_of_n (get begun id))))
        (List.sort compare ids)
    in
    let compare_model where =
      if not !diverged then begin
        let f = Stdlib.fst !st in
        let mo = obs_of f in
        if mo <> !cur.io then begin
          diverged := true; diff (where ^ "-file") ~model:(show_obs mo) ~impl:(show_obs !cur.io)
        end else begin
          let ms = scan_of f in
          if ms <> !cur.scan then begin
            diverged := true; diff (where ^ "-scan") ~model:(show_ents ms) ~impl:(show_ents !cur.scan) end
          else begin
            let my = List.sort compare (stray_of nlen f) in
            if my <> List.sort compare !cur.stray then begin
              diverged := true;
              diff (where ^ "-stray") ~model:(String.concat "," (List.map hex_of_n my))
                ~impl:(String.concat "," (List.map hex_of_n !cur.stray)) end
          end
        end;
        if f.f_damaged then begin diverged := true; diff (where ^ "-damaged") ~model:"extension write hit a record" ~impl:"-" end
      end
    in
    check_obs "initial" init;
    compare_model "initial";
    for ev = 1 to nevents do
      match next c with
      | "o" ->
        let tid = next_int c in let ml = next_n c in
        st := (Stdlib.fst !st, List.mapi (fun j t -> if j = tid then spawn nlen ml (List.nth (Array.to_list progs) tid) else t) (Stdlib.snd !st))
      | "k" -> let tid = next_int c in killed.(tid) <- true
      | "s" ->
        let tid = next_int c in
        let kind = next_n c in let off = next_n c in
        let where = Printf.sprintf "event-%d-thread-%d-%s" ev tid scen in
        let prev = !cur in
        (match next c with
         | "=" -> ()
         | "o" -> cur := read_obs c
         | t -> failwith ("obs tag " ^ t));
        let nb = next_list c (fun c -> let id = next_int c in let k = next_n c in (id, k)) in
        let nc = next_list c (fun c -> let id = next_int c in let k = next_n c in (id, k)) in
        let idone = next_bool c in
        List.iter (bump begun) nb; List.iter (bump completed) nc;
        if not !diverged then begin
          let t = List.nth (Stdlib.snd !st) tid in
          let (mk, moff) = pending bucket h t in
          if (mk, moff) <> (kind, off) then begin
            diverged := true;
            diff (where ^ "-pending-op") ~model:(Printf.sprintf "%s kind=%d off=%s" (pc_name t.t_pc) (int_of_n mk) (hex_of_n moff))
              ~impl:(Printf.sprintf "kind=%d off=%s" (int_of_n kind) (hex_of_n off))
          end else begin
            st := macro_step bucket nlen h !st (nat_of_int tid);
            compare_model where;
            (* the implementation may still have to close a mapping (yield points
               outside the file) before its function returns: only "done => Done" *)
            let t' = List.nth (Stdlib.snd !st) tid in
            if not !diverged && idone && t'.t_pc <> Done then begin
              diverged := true;
              diff (where ^ "-done") ~model:(pc_name t'.t_pc) ~impl:"returned" end
          end
        end;
        if !cur != prev then begin
          check_obs where !cur;
          if not dmg && N.ltb !cur.io.o_size prev.io.o_size then
            prop1 "size-decreased" (Printf.sprintf "%s: the file became shorter (%s -> %s bytes): a page that another process may have added and mapped was cut off" where (hex_of_n prev.io.o_size) (hex_of_n !cur.io.o_size))
          else if not dmg && not (monotone_ok prev.io !cur.io) then
            prop1 "monotone-bounded" (Printf.sprintf "%s: a value, the limit or the size decreased: before %s after %s" where (show_obs prev.io) (show_obs !cur.io))
        end;
        check_bounds where !cur
      | t -> failwith ("event tag " ^ t)
    done;
    (* finals *)
    let final_empty = has_empty !cur.io in
    for tid = 0 to nth - 1 do
      let ikilled = next_bool c in let idone = next_bool c in let iml = next_n c in
      let caller_closed = next_int c in
      if caller_closed > 0 then
        prop1 "caller-mapping-closed" (Printf.sprintf "thread %d: %d call(s) of newCounter unmapped the mapping the process held when it called (its other goroutines' counters still point into it; only the caller may close it, after invalidating them) (scenario %s)" tid caller_closed scen);
      (* an error comes with what the implementation was seen doing during that call: the number of
         mappings it created (re-maps, extensions) and whether its CAS on the limit word reserved a record *)
      let shapes = ref [] in
      let ires = next_list c (fun c -> match next c with
          | "cell" -> shapes := (0, false) :: !shapes; "cell-" ^ hex_of_n (next_n c)
          | "err" -> let cls = next c in let maps = next_int c in let reserved = next_bool c in
            shapes := (maps, reserved) :: !shapes; "err-" ^ cls
          | t -> failwith ("result tag " ^ t)) in
      let shapes = List.rev !shapes in
      let t = List.nth (Stdlib.snd !st) tid in
      let mres = List.map (function RCell o -> "cell-" ^ hex_of_n o | RFail e -> "err-" ^ fail_class e) t.t_res in
      if not !diverged then begin
        if mres <> ires then
          diff (Printf.sprintf "results-thread-%d-%s" tid scen)
            ~model:(String.concat "," (List.map (function RCell o -> "cell-" ^ hex_of_n o | RFail e -> fail_name e) t.t_res))
            ~impl:(String.concat "," ires)
        else if idone && not ikilled && t.t_map0 <> iml && iml <> N0 then
          diff (Printf.sprintf "maplen-thread-%d-%s" tid scen) ~model:(hex_of_n t.t_map0) ~impl:(hex_of_n iml)
      end;
      if not !diverged && not ikilled && status = "ok" && (idone <> (t.t_pc = Done)) then
        diff (Printf.sprintf "done-thread-%d-%s" tid scen) ~model:(pc_name t.t_pc) ~impl:(string_of_bool idone);
      (* oracles on the implementation's results *)
      let news = List.filter_map (function OpNew nm -> Some nm | _ -> None) progs.(tid) in
      List.iteri (fun j r ->
          let nm = List.nth news j in
          if String.length r >= 5 && String.sub r 0 5 = "cell-" && not dmg then begin
            let ok = List.exists (fun (e : ent) -> e_name e = nm && ("cell-" ^ hex_of_n (e_off e)) = r) (all_ents !cur.io) in
            if not ok then prop1 "cell-wrong" (Printf.sprintf "thread %d: newCounter(n%d) returned %s which is not the linked record of that name" tid (int_of_n nm) r)
          end else if dmg then ()
          else if r = "err-toolong" && N.ltb c_maxNameLen (nlen nm) then ()
          else if r = "err-empty" && nlen nm = N0 then ()
          else if not ikilled then begin
            if final_empty then
              prop1 "empty-name" (Printf.sprintf "thread %d: newCounter(n%d) failed (%s) in a file that holds a record with an empty name" tid (int_of_n nm) r)
            else if r = "err-corrupt" then begin
              (* the known finding has two shapes (C04_failure_shapes): the call had already reserved its
                 record when it failed (duplicate walk beyond a stale mapping), or it had re-mapped ten
                 times; any other errCorrupt of a survivor is a different defect *)
              let (maps, reserved) = List.nth shapes j in
              let reason = (match List.nth_opt t.t_res j with Some (RFail e) when not !diverged -> fail_name e | _ -> "?") in
              if reserved || maps >= 10 then
                prop1 "survivor-errcorrupt" (Printf.sprintf "thread %d (not killed): newCounter(n%d) returned errCorrupt after %s (scenario %s; model reason %s)" tid (int_of_n nm)
                                               (if reserved then "having reserved its record" else Printf.sprintf "%d re-maps" maps) scen reason)
              else
                prop1 "survivor-errcorrupt-early" (Printf.sprintf "thread %d (not killed): newCounter(n%d) returned errCorrupt although it had reserved nothing and re-mapped only %d time(s): it was failed by what the other processes did (scenario %s; model reason %s)" tid (int_of_n nm) maps scen reason)
            end
            else prop1 "survivor-failed" (Printf.sprintf "thread %d (not killed): newCounter(n%d) returned %s" tid (int_of_n nm) r)
          end) ires
    done;
    (match status with
     | "hang" -> prop1 "hang" "a surviving call did not return within the step budget"
     | "panic" -> prop1 "panic" "a call panicked"
     | "shrunk" -> prop1 "size-decreased" "the file became shorter (scenario stopped there)"
     | _ -> ());
    if nuse > 0 then prop1 "use-after-unmap" (Printf.sprintf "%d accesses through a closed mapping" nuse)
  | "fp" ->
    (* one process with two goroutines sharing its file with another process: oracle only *)
    let foreign = next c in let k = next_int c in let first = next_int c in
    let status = next c in let nuse = next_int c in
    let extra_a = next_n c in let pers_a = next_n c in let extra_b = next_n c in let pers_b = next_n c in
    let _steps = next_int c in
    let where = Printf.sprintf "two goroutines of one process, other process %s; goroutine %s runs %d steps, then the other to completion" foreign (if first = 0 then "B" else "A") k in
    (match status with
     | "panic" -> prop "panic" (where ^ ": a panic escaped from Counter.Add (the process is made to crash by what another process did)")
     | "hang" -> prop "hang" (where ^ ": Counter.Add did not return within the step budget")
     | _ ->
       if nuse > 0 then prop "use-after-unmap" (Printf.sprintf "%s: %d accesses through a closed mapping" where nuse);
       if N.ltb (n_of_int 1) (N.add extra_a pers_a) || N.ltb (n_of_int 2) (N.add extra_b pers_b) then
         prop "monotone-bounded" (Printf.sprintf "%s: counts invented: A mem %s file %s (added 1), B mem %s file %s (added 2)" where (hex_of_n extra_a) (hex_of_n pers_a) (hex_of_n extra_b) (hex_of_n pers_b)))
  | k -> diff "unknown-case-kind" ~model:k ~impl:"-"

let () = run_file Sys.argv.(1) handle
