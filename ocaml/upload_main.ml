(* upload_main.ml: runs Model/Uploader in lock step with the instrumented
   uploader (harness vh_upload) and evaluates the C07 / C08 oracles on the
   implementation's observations (directory snapshots after every call and
   the server's log). *)

(* ---- observations ---- *)
type odesc =
  | OBlob of int                                         (* bytes of an initial file *)
  | OEmpty
  | ORep of string * string * (int * (int * int) list) list   (* week, lastWeek, per program sums *)
  | OX

let show_desc = function
  | OBlob i -> Printf.sprintf "blob%d" i
  | OEmpty -> "empty"
  | OX -> "garbage"
  | ORep (w, l, ps) ->
    Printf.sprintf "report(%s,last=%s,%s)" w l
      (String.concat ";" (List.map (fun (p, cs) ->
           Printf.sprintf "p%d[%s]" p (String.concat "," (List.map (fun (k, v) -> Printf.sprintf "%d=%d" k v) cs))) ps))

let empty_blob = 999999

let conv_sums s = List.map (fun (p, cs) -> (int_of_n p, List.map (fun (k, v) -> (int_of_n k, int_of_z v)) cs)) s

let desc_of_content allowed (c : content) : odesc =
  match c with
  | CCount (_, h) | CRaw h -> let i = int_of_n h in if i = empty_blob then OEmpty else OBlob i
  | CLock | CRep None -> OEmpty
  | CRep (Some r) ->
    ORep (string_of_bytes r.r_week, string_of_bytes r.r_last, conv_sums (sums allowed r.r_up r.r_files))

let model_listing allowed d =
  List.sort compare (List.map (fun (n, (_, c)) -> (string_of_bytes n, desc_of_content allowed c)) d)

let show_listing l = String.concat " " (List.map (fun (n, d) -> n ^ ":" ^ show_desc d) l)

let has_suffix s suf =
  let ls = String.length s and lf = String.length suf in
  ls >= lf && String.sub s (ls - lf) lf = suf
let has_prefix s p =
  let ls = String.length s and lp = String.length p in
  ls >= lp && String.sub s 0 lp = p
let contains_sub s p =
  let ls = String.length s and lp = String.length p in
  let rec go i = i + lp <= ls && (String.sub s i lp = p || go (i + 1)) in
  go 0
let is_count_s n = has_suffix n ".v1.count"
let is_ready_s n = (not (is_count_s n)) && (not (has_prefix n "local.")) && has_suffix n ".json"

type cnt = { c_name : string; c_begin : z; c_end : z; c_week : string; c_cf : cfile }

let rec subsets = function
  | [] -> [ [] ]
  | x :: l -> let r = subsets l in r @ List.map (fun s -> x :: s) r

let handle kind c =
  match kind with
  | "up" ->
    let tag = next c in
    let scen = next c in
    let status = next c in
    let dirp = next_bytes c in
    let eventual = next_bool c in
    let quiet_at = next_int c in
    let _stale = next_bytes c in
    let allowed = next_list c next_n in
    (* initial files *)
    let counts = ref [] in
    let ninit = next_int c in
    let local0 = List.init ninit (fun i ->
        let name = next_bytes c in
        let k = next c in
        let blob = next_n c in
        match k with
        | "cnt" ->
          let parsed = next_bool c in
          if parsed then begin
            let b = next_z c in let e = next_z c in let p = next_n c in
            let cs = next_list c (fun c -> let k = next_n c in let v = next_z c in (k, v)) in
            let cf = { cf_begin = b; cf_end = e; cf_prog = p; cf_counts = cs } in
            counts := { c_name = string_of_bytes name; c_begin = b; c_end = e;
                        c_week = string_of_bytes (uploader_week e); c_cf = cf } :: !counts;
            (name, (nat_of_int i, CCount (Some cf, blob)))
          end else (name, (nat_of_int i, CCount (None, blob)))
        | "raw" -> (name, (nat_of_int i, CRaw blob))
        | k -> failwith ("initial file kind " ^ k)) in
    let counts = List.rev !counts in
    let up_present = next_bool c in
    let nup = next_int c in
    let up0 = List.init nup (fun i ->
        let name = next_bytes c in
        match next c with
        | "lock" -> (name, (nat_of_int (ninit + i), CLock))
        | "raw" -> let b = next_n c in (name, (nat_of_int (ninit + i), CRaw b))
        | k -> failwith ("initial upload kind " ^ k)) in
    let nth = next_int c in
    let cfgs = List.init nth (fun _ ->
        let s = next_z c in let ns = next_z c in let on = next_bool c in
        let ap = next_bool c in let a = next_z c in let zone = next_z c in
        { u_start = (s, ns); u_on = on; u_asof = (if ap then Some a else None); u_dir = dirp; u_zone = zone }) in
    let names = Array.of_list (next_list c (fun c -> string_of_bytes (next_bytes c))) in
    let descs = Array.of_list (next_list c (fun c ->
        match next c with
        | "b" -> let i = next_int c in if i = empty_blob then OEmpty else OBlob i
        | "e" -> OEmpty
        | "x" -> OX
        | "r" ->
          let w = string_of_bytes (next_bytes c) in
          let l = string_of_bytes (next_bytes c) in
          let ps = next_list c (fun c ->
              let p = next_int c in
              let cs = next_list c (fun c -> let k = next_int c in let v = next_int c in (k, v)) in
              (p, cs)) in
          ORep (w, l, ps)
        | k -> failwith ("desc kind " ^ k))) in
    let nsteps = next_int c in
    let fs0 = { f_local = local0; f_upload = (if up_present then Some up0 else None);
                f_next = nat_of_int (ninit + nup) } in
    let st = ref (init_state fs0 cfgs) in
    let diverged = ref false in
    let c07 = (tag = "c07") and c08 = (tag = "c08") in
    let prop07 cls d = if c07 then prop cls d in
    let prop08 cls d = if c08 then prop cls d in
    (* ---- oracle state (implementation side) ---- *)
    let init_local_names = List.map (fun (n, _) -> string_of_bytes n) local0 in
    let init_up_names = List.map (fun (n, _) -> string_of_bytes n) up0 in
    let mode_on = (match cfgs with cf :: _ -> cf.u_on | [] -> false) in
    let weeks = List.sort_uniq compare (List.map (fun x -> x.c_week) counts) in
    let expired_for cf x = before_start x.c_end cf.u_start in
    let uniform w =
      List.for_all (fun x -> x.c_week <> w ||
                              (List.for_all (fun cf -> expired_for cf x) cfgs
                               || List.for_all (fun cf -> not (expired_for cf x)) cfgs)) counts in
    let week_files w = List.filter (fun x -> x.c_week = w && List.for_all (fun cf -> expired_for cf x) cfgs) counts in
    let sums_of xs = conv_sums (sums allowed false (List.map (fun x -> (bytes_of_string x.c_name, x.c_cf)) xs)) in
    let protected_names =
      List.filter (fun n -> is_count_s n &&
                            (match List.find_opt (fun x -> x.c_name = n) counts with
                             | None -> true
                             | Some x -> List.for_all (fun cf -> not (expired_for cf x)) cfgs)) init_local_names in
    let prev_local = ref (List.map (fun (n, (_, ct)) -> (string_of_bytes n, (-1, desc_of_content allowed ct))) local0) in
    let prev_up = ref (List.map (fun (n, (_, ct)) -> (string_of_bytes n, (-1, desc_of_content allowed ct))) up0) in
    let init_raw = Hashtbl.create 16 in   (* protected name -> raw id at first sight *)
    let ever_local = Hashtbl.create 64 and ever_up = Hashtbl.create 16 in
    List.iter (fun n -> Hashtbl.replace ever_local n ()) init_local_names;
    List.iter (fun n -> Hashtbl.replace ever_up n ()) init_up_names;
    let acks = ref [] in            (* (week, body raw id) acknowledged with 200 *)
    let pend = Array.make nth None in  (* disposition checks pending per thread *)
    let kills = ref 0 and panicked = ref false in
    let quiet_local = ref None in
    let flagged = Hashtbl.create 8 in
    let void_ready = Hashtbl.create 4 in
    let lock_holder = Hashtbl.create 4 in
    let refused_final = Hashtbl.create 4 in
    let read_raw = Array.make nth None in       (* per thread: the report file it read last, and what was in it *)   (* weeks the server did not accept from the final run *)
    let once cls d f = if not (Hashtbl.mem flagged (cls, d)) then (Hashtbl.replace flagged (cls, d) (); f cls d) in
    let witness_ever w =
      Hashtbl.mem ever_local ("local." ^ w ^ ".json") || Hashtbl.mem ever_local (w ^ ".json")
      || Hashtbl.mem ever_up (w ^ ".json")
      || Hashtbl.fold (fun n () acc -> acc || (is_ready_s n && contains_sub n w)) ever_local false in
    let check_report name d =
      (* a local report created by a run: equals the aggregate of the whole week *)
      if has_prefix name "local." && has_suffix name ".json" && not (List.mem name init_local_names) then
        match d with
        | ORep (w, _, ps) ->
          let wn = String.sub name 6 (String.length name - 11) in
          if w <> wn then once "wrong_report" (name ^ " has Week " ^ w) prop07
          else if uniform w || scen = "grow" then begin
            (* scenario grow: sequential runs with different start times; the report is the LAST run's, for
               which the week's files (in their final state) are expired *)
            let fw = if uniform w then week_files w
              else List.filter (fun x -> x.c_week = w && expired_for (List.nth cfgs (List.length cfgs - 1)) x) counts in
            let obs = List.map (fun (p, cs) -> (n_of_int p, List.map (fun (k, v) -> (n_of_int k, z_of_int v)) cs)) ps in
            let files_of xs = List.map (fun x -> (bytes_of_string x.c_name, x.c_cf)) xs in
            (* week_reports_ok (Model/Uploader.v): the program entries = the grouping of the week's
               files by full identity, each value the sum over exactly that group *)
            if not (week_reports_ok obs (files_of fw)) then begin
              let subs = if List.length fw <= 10 then subsets fw else [] in
              if List.exists (fun s -> s <> [] && sums_of s = ps) subs && mode_on && nth >= 3
                 && (scen = "race3" || scen = "conc3") then
                once "subset_report"
                  (Printf.sprintf "%s = aggregate of a strict subset of the week's %d files: %s" name (List.length fw) (show_desc d)) prop07
              else
                once "wrong_report" (Printf.sprintf "%s = %s, expected %s" name (show_desc d)
                                       (show_desc (ORep (w, "", sums_of fw)))) prop07
            end
          end
        | _ -> ()
    in
    for i = 1 to nsteps do
      let tid = next_int c in
      let actk = next c in
      let act, outc = (match actk with
          | "step" ->
            let o = (match next c with
                | "o200" -> O200 | "o4xx" -> O4xx | "o5xx" -> O5xx | "onone" -> ONone
                | k -> failwith ("outcome " ^ k)) in
            (AStep o, Some o)
          | "pick" -> (APick (next_bytes c), None)
          | "pnone" -> (APickNone, None)
          | "kill" -> incr kills; (AKill, None)
          | k -> failwith ("act " ^ k)) in
      let label = string_of_bytes (next_bytes c) in
      (if has_prefix label "ReadFile " && has_suffix label ".json" then
         let base = (match String.rindex_opt label '/' with Some k -> String.sub label (k + 1) (String.length label - k - 1) | None -> label) in
         match List.assoc_opt base !prev_local with
         | Some (r, _) -> read_raw.(tid) <- Some (base, r)
         | None -> read_raw.(tid) <- None);
      let posted = next_bool c in
      let post = if posted then begin
          let w = string_of_bytes (next_bytes c) in
          let b = next_int c in
          let f = next_int c in
          Some (w, b, names.(f))
        end else None in
      let _done = next_bool c in
      let pan = next_bool c in
      let snap c =
        let ok = next_bool c in
        let es = next_list c (fun c -> let n = next_int c in let r = next_int c in (names.(n), (r, descs.(r)))) in
        (ok, es) in
      let (_, loc) = snap c in
      let (upok, upl) = snap c in
      if pan then panicked := true;
      (* ---- model ---- *)
      if not !diverged then begin
        let log_before = List.length !st.s_log in
        st := step !st (nat_of_int tid, act);
        let ml = model_listing allowed !st.s_fs.f_local in
        let il = List.map (fun (n, (_, d)) -> (n, d)) loc in
        let where = Printf.sprintf "step-%d-thread-%d-%s-[%s]" i tid scen (String.escaped label) in
        if ml <> il then begin
          diverged := true;
          diff (where ^ "-local") ~model:(show_listing ml) ~impl:(show_listing il)
        end;
        (match !st.s_fs.f_upload, upok with
         | None, false -> ()
         | Some d, true ->
           let mu = model_listing allowed d in
           let iu = List.map (fun (n, (_, d)) -> (n, d)) upl in
           if mu <> iu then begin
             diverged := true;
             diff (where ^ "-upload") ~model:(show_listing mu) ~impl:(show_listing iu)
           end
         | None, true -> diverged := true; diff (where ^ "-upload") ~model:"missing" ~impl:"present"
         | Some _, false -> diverged := true; diff (where ^ "-upload") ~model:"present" ~impl:"missing");
        let log_after = List.length !st.s_log in
        (match post with
         | Some (w, b, _) ->
           if log_after <> log_before + 1 then begin
             diverged := true; diff (where ^ "-post") ~model:"no request" ~impl:("request for " ^ w)
           end else begin
             let a = List.nth !st.s_log (log_after - 1) in
             let m = (string_of_bytes a.a_week, desc_of_content allowed a.a_body) in
             if m <> (w, descs.(b)) then begin
               diverged := true;
               diff (where ^ "-post") ~model:(Stdlib.fst m ^ ":" ^ show_desc (Stdlib.snd m)) ~impl:(w ^ ":" ^ show_desc descs.(b))
             end
           end
         | None ->
           if log_after <> log_before then begin
             diverged := true; diff (where ^ "-post") ~model:"request" ~impl:"no request"
           end)
      end;
      (* ---- oracles on the implementation's observations ---- *)
      (* C07: count files are removed only once a report for their week has existed *)
      List.iter (fun (n, _) ->
          if is_count_s n && not (List.mem_assoc n loc) then
            match List.find_opt (fun x -> x.c_name = n) counts with
            | Some x ->
              if not (witness_ever x.c_week) then begin
                if contains_sub (string_of_bytes dirp) x.c_week then
                  once "dir_path_contains_date" (Printf.sprintf "step %d: %s removed, no report for week %s has existed; the telemetry directory path contains %s" i n x.c_week x.c_week) prop07
                else
                  once "deleted_without_report" (Printf.sprintf "step %d: %s removed, no report for week %s has existed" i n x.c_week) prop07
              end
            | None -> once "touched" (Printf.sprintf "step %d: unparseable count file %s removed" i n) prop07) !prev_local;
      (* C07: active and unparseable count files stay byte-identical *)
      List.iter (fun n ->
          match List.assoc_opt n loc with
          | None -> once "touched" (Printf.sprintf "step %d: %s (not expired / unparseable) is gone" i n) prop07
          | Some (r, _) ->
            (match Hashtbl.find_opt init_raw n with
             | None -> Hashtbl.replace init_raw n r
             | Some r0 -> if r <> r0 then once "touched" (Printf.sprintf "step %d: %s changed" i n) prop07)) protected_names;
      (* C07: a written local report never changes or disappears; it is the whole week's aggregate *)
      List.iter (fun (n, (r, d)) ->
          if has_prefix n "local." && has_suffix n ".json" && d <> OEmpty && r >= 0 then
            match List.assoc_opt n loc with
            | Some (r', _) when r' = r -> ()
            | _ -> once "report_changed" (Printf.sprintf "step %d: %s changed after it was written" i n) prop07) !prev_local;
      List.iter (fun (n, (_, d)) -> check_report n d) loc;
      (* an initial ready report that is gone while the upload directory has no marker for it *)
      List.iter (fun n ->
          if is_ready_s n && not (List.mem_assoc n loc) && not (List.mem_assoc n !prev_up) then
            Hashtbl.replace void_ready (String.sub n 0 (String.length n - 5)) ()) init_local_names;
      (* C07: no report file is created for a week that had a report before the runs *)
      List.iter (fun (n, _) ->
          if has_suffix n ".json" && not (List.mem_assoc n !prev_local) && not (List.mem n init_local_names) then begin
            let w = if has_prefix n "local." then String.sub n 6 (String.length n - 11)
              else String.sub n 0 (String.length n - 5) in
            (* local reports and markers are permanent; a ready report W.json of before the runs is a
               witness until it is removed without a marker (a 4xx answer removes it without a trace:
               a later report for W is then the first one the server can accept) *)
            if List.mem (w ^ ".json") init_up_names || List.mem ("local." ^ w ^ ".json") init_local_names
               || (List.mem (w ^ ".json") init_local_names && not (Hashtbl.mem void_ready w)) then
              once "second_report" (Printf.sprintf "step %d: %s created although week %s had a report before the runs" i n w) prop07
          end) loc;
      (* C08 *)
      (match post, outc with
       | Some (w, b, f), Some o ->
         (* C08_posted_verbatim_read: the body of a request is the content the run read from the report file *)
         (match read_raw.(tid) with
          | Some (f', r) when f' = f && r <> b ->
            once "posted_not_verbatim" (Printf.sprintf "step %d: the request for week %s does not carry the content read from %s (%s)" i w f
                                          (show_desc descs.(b))) prop08
          | _ -> ());
         if tid = nth - 1 && o <> O200 then Hashtbl.replace refused_final w ();
         if List.mem_assoc (w ^ ".json") !prev_up then
           once "resend_after_record" (Printf.sprintf "step %d: request for week %s while upload/%s.json exists" i w w) prop08;
         if o = O200 then begin
           if List.exists (fun (w', b') -> w' = w && b' <> b) !acks then
             once "two_bodies" (Printf.sprintf "step %d: week %s acknowledged with a second, different body" i w) prop08
           else if List.exists (fun (w', _) -> w' = w) !acks then
             once "double_ack" (Printf.sprintf "step %d: week %s acknowledged twice" i w) prop08;
           acks := (w, b) :: !acks
         end;
         if descs.(b) = OEmpty then
           once "empty_body_posted" (Printf.sprintf "step %d: week %s posted with an empty body (report created, not yet written)" i w) (fun _ _ -> ());
         pend.(tid) <- Some (o, f, w, List.mem_assoc f !prev_local, List.mem_assoc (w ^ ".json") !prev_up, 0)
       | _ ->
         (match actk, pend.(tid) with
          | "kill", _ -> pend.(tid) <- None
          | "step", Some (o, f, w, had, marker0, k) ->
            let k = k + 1 in
            let here = List.mem_assoc f loc and marker = List.mem_assoc (w ^ ".json") upl in
            let bad d = once "disposition" (Printf.sprintf "step %d: after a %s answer for %s: %s" i
                                              (match o with O200 -> "200" | O4xx -> "4xx" | O5xx -> "5xx" | ONone -> "missing") f d) prop08 in
            (match o, k with
             | O200, 1 -> if not marker then bad "upload marker not written"
             | O200, 2 -> if here then bad "report not removed from local/"
             | O4xx, 1 -> if here then bad "report not discarded"
             | O4xx, 2 -> if marker && not marker0 then bad "marked as uploaded"
             | (O5xx | ONone), 1 ->
               if had && not here then bad "report removed (must stay for a later run)";
               if marker && not marker0 then bad "marked as uploaded"
             | _ -> ());
            pend.(tid) <- (if k >= 2 || (match o with O5xx | ONone -> true | _ -> false) then None else Some (o, f, w, had, marker0, k))
          | _ -> ()));
      (* C08, the lock protocol (C08_lock_removed_by_holder / C08_lock_kept_by_others): a lock file
         of upload/ disappears only by a step of the thread whose exclusive creation made it appear *)
      List.iter (fun (n, _) ->
          if has_suffix n ".json.lock" && not (List.mem_assoc n upl) then begin
            (match Hashtbl.find_opt lock_holder n with
             | Some h when h = tid -> ()
             | Some h -> once "lock_released_by_other"
                           (Printf.sprintf "step %d: thread %d removed upload/%s, which thread %d created and has not released" i tid n h) prop08
             | None -> once "lock_released_by_other"
                         (Printf.sprintf "step %d: thread %d removed upload/%s, a lock it does not hold (left by an earlier run)" i tid n) prop08);
            Hashtbl.remove lock_holder n
          end) !prev_up;
      List.iter (fun (n, _) ->
          if has_suffix n ".json.lock" && not (List.mem_assoc n !prev_up) then Hashtbl.replace lock_holder n tid) upl;
      List.iter (fun (n, _) -> Hashtbl.replace ever_local n ()) loc;
      List.iter (fun (n, _) -> Hashtbl.replace ever_up n ()) upl;
      prev_local := loc; prev_up := upl;
      if i = quiet_at then quiet_local := Some loc
    done;
    if quiet_at = 0 then quiet_local := Some (List.map (fun (n, (_, ct)) -> (string_of_bytes n, (-1, desc_of_content allowed ct))) local0);
    (match status with
     | "hang" -> prop "hang" "the uploaders did not finish: step budget exceeded, or a run stopped making calls without returning (watchdog)"
     | _ ->
       if not !diverged && not (quiescent !st) then
         diff "model-threads-not-finished" ~model:"some thread neither Done nor killed" ~impl:"all runs returned or were killed");
    if !panicked then
      once "short_json_name_panic" "a run panicked in uploadReportContents (fdate slice of a short *.json name)" prop08;
    (* C07: every eligible week has its report once all runs have returned *)
    if status = "ok" && !kills = 0 && not !panicked then
      List.iter (fun w ->
          let fw = week_files w in
          let has_counts = List.exists (fun x -> x.c_cf.cf_counts <> []) fw in
          let evidence0 =
            List.mem ("local." ^ w ^ ".json") init_local_names || List.mem (w ^ ".json") init_local_names
            || List.mem (w ^ ".json") init_up_names
            || (mode_on && List.exists (fun n -> is_ready_s n && contains_sub n w) init_local_names) in
          if uniform w && fw <> [] && has_counts && not evidence0 && not (contains_sub (string_of_bytes dirp) w) then
            if not (List.mem_assoc ("local." ^ w ^ ".json") !prev_local) then
              once "missing_report" (Printf.sprintf "week %s: %d expired files with counters, no local.%s.json after all runs" w (List.length fw) w) prop07) weeks;
    (* C08: without kills, a further complete run answered 200 delivers every uploadable week exactly once *)
    if eventual && status = "ok" && not !panicked then begin
      let last_cfg = List.nth cfgs (nth - 1) in
      match !quiet_local with
      | None -> ()
      | Some ql ->
        List.iter (fun (n, _) ->
            let nb = bytes_of_string n in
            if collect_ready last_cfg nb && not (in_future (today last_cfg) nb) then
              match fdate nb with
              | Some w ->
                let w = string_of_bytes w in
                let k = List.length (List.filter (fun (w', _) -> w' = w) !acks) in
                (* a week whose upload marker pre-existed is (correctly) dropped without a request *)
                (* ... and a week the server refused (5xx / no answer) in the final run is not the uploader's debt *)
                if k = 0 && not (List.mem (w ^ ".json") init_up_names) && not (Hashtbl.mem refused_final w) then once "not_delivered" (Printf.sprintf "week %s (%s) uploadable at the quiescent point, never acknowledged" w n) prop08
              | None -> ()) ql
    end
  | k -> diff "unknown-case-kind" ~model:k ~impl:"-"

let () = run_file Sys.argv.(1) handle
