from vcommon import Suite, sh


def build_helpers(dst):
    """The server's validate/handleUpload are members of package main of the godev module and the viewer is an
    internal package of cmd/gotelemetry: both run as helper processes of harness vh_approval, built here from the
    same scratch copy (tag verif).  A helper that does not build is reported by the harness (exit 3)."""
    log = []
    rc, out = sh(["go", "build", "-tags", "verif", "-o", str(dst / ".." / "bin-vh_view"),
                  "./cmd/gotelemetry/internal/verifh/vh_view"], cwd=dst, timeout=1200)
    log.append(out)
    rc2, out2 = sh(["go", "build", "-tags", "verif", "-o", str(dst / ".." / "bin-vh_server"),
                    "./cmd/telemetrygodev"], cwd=dst / "godev", timeout=1200)
    log.append(out2)
    (dst / ".." / "helper-build.log").write_text("\n".join(log))


SPEC = {
    "id": "C11",
    "title": "Uploader, server and local viewer agree on what is approved",
    "design_ref": "DESIGN.md section 7, C11",
    "suites": [
        Suite(name="approval", harness="vh_approval", runner="approval",
              model_deps=["theories/Model/Approval.vo"],
              quick_n=1000, thorough_n=16000, rewrite=build_helpers,
              rule="each case: one generated configuration (1-4 programs, duplicate entries, damaged bucket syntax, "
                   "stacks named like counters) and 1-3 counter files over 1-3 builds differing in one identity field; in 35% of the cases "
                   "instead 2-3 DIFFERENT programs whose approved builds recorded counters and stacks of the SAME "
                   "names, approved / rated / omitted differently per program, files in random order; in 15% two DIFFERENT programs with the same base name, version, "
                   "Go version and platform (golang.org/x/tools/gopls / example.com/fork/gopls ...), exactly one of "
                   "them in the configuration; in 60% of the cases the count files carry the names rotate1 gives "
                   "them (base name, version, platform, begin date; begin days spread over the week, so same-base "
                   "programs differ only in the date, in both orders); "
                   "(a) the real uploader's upload report (X via crypto/rand.Reader, X = 0 in ~3%) is sent verbatim to "
                   "the real validate and to the real handleUpload (FS bucket): verdict class, HTTP status, stored; "
                   "(b) 2-4 single-item perturbations of that report (added counter / stack / cross-named item, one "
                   "identity field changed, invalid Week, invalid or unusual semver Config, X in {0,-0,denormal}, or "
                   "none) are judged the same way and the uploader's report is POSTed once more, verbatim, after them (all "
                   "requests of a run go to one server process; the oracle judges the HANDLER's status); a fifth of "
                   "the perturbed requests are raw BODIES whose JSON text says more than its decoding (duplicated "
                   "Programs member with a build outside the configuration first, duplicated members inside a "
                   "program entry, members outside the report format); for every request the object the handler "
                   "stored is read back from the bucket and its TEXT (first of duplicated members, merged "
                   "duplicates) judged by stored_check; (c) the real viewer through the functions its index page is built from: files(dir, cfg) on the "
                   "directory holding the count files (summary text, ActiveMeta, Active flags of every file) and "
                   "reports(dir, cfg) on the local (unfiltered) and on the upload report the real uploader wrote "
                   "(per-program summary, judged by viewer_report_check: set verdict, no approved item called "
                   "excluded, every dropped counter listed), and the real uploader at X = 0 on the WHOLE week. 4% of the cases (kind pages): ONE viewer "
                   "Server (handleIndex over the embedded content, configuration fetched by the real "
                   "configstore.Download from a file:// proxy with two versions differing in what they approve) "
                   "answers 2-3 page requests /?config=<v1.0.0|v1.1.0|latest||empty>, the store unreachable for "
                   "some; the per-file summaries and the Charts section (program, chart, 'not present in the "
                   "telemetry config' flag) are read from the HTML and judged under the configuration that request "
                   "names. 4% of the approval cases POST the uploader's report from 8 clients at the same moment to "
                   "a freshly created configuration object and handler (the configuration extended by an unrelated "
                   "counter with 120000 buckets on the report's programs); configurations list chart:bucket "
                   "counters with and without a bucket list. distinct = distinct case "
                   "lines; every case compares all implementation verdicts with the model and evaluates "
                   "server_check / viewer_check on the implementation's verdicts; none is trivial"),
    ],
    "technique": "Coq proof (three deciders reduced to one specification through the table lemmas of C01) + "
                 "differential correspondence of the extracted model against the real uploader, server handler and "
                 "viewer + executable agreement oracle",
    "level_text": "Machine-checked theorems over the Gallina models of the uploader filter, the server's validate and "
                  "the viewer's summary/newCounterFile, for all configurations, files, reports and X: each decider's "
                  "build / counter / stack test equals the documented semantics; the server accepts every report the "
                  "uploader model builds (X <> 0, valid week, valid semver) and accepts a report iff it is well "
                  "formed and within the configuration; the viewer calls a data set excluded iff the build is not "
                  "approved iff the uploader drops the program at every X, and lists/flags a counter iff the "
                  "uploader drops it at X = 0 from the whole week's report; what the uploader keeps of one program "
                  "does not depend on the other programs of the report or their order; builds are told apart by all "
                  "five identity fields (Program path in full); the report view (newTelemetryReport, after fix a1becfe) lists "
                  "exactly the displayed names of the dropped counters and dropped stacks and never calls an approved "
                  "one excluded; its oracle accepts the model; "
                  "sequences: the answer of the upload handler to a request and the viewer page for a configuration "
                  "version in any sequence of requests are those of that request alone (any permutation of concurrent "
                  "requests gives each its own answer); the stored object is the validated report (within the configuration, no other member); Charts (after fix c8e437d): a chart is shown as present iff a configured counter "
                  "belongs to it or a configured stack has its name, never absent when it draws an approved counter "
                  "or an approved stack; the chart oracle accepts the model. The models are tied to the code by differential execution against "
                  "the real createReport, validate, handleUpload, summary and newCounterFile.",
    "level_note": "Trusted: Coq kernel+VM, extraction, OCaml glue, Go harness/generators, the two helper processes "
                  "(injected exporter in package view; init hook in package main of telemetrygodev). "
                  "semver.IsValid is an oracle boolean (sent by the server helper); time.Parse(DateOnly) is "
                  "Lib/Calendar.parse_date (sampled on valid and malformed weeks). HTML escaping/template rendering "
                  "of the viewer are not modelled: the harness classifies the summary by its fixed phrases and "
                  "unescapes the names. JSON decoding in handleUpload is not modelled (bodies are valid JSON; C12 "
                  "covers the endpoint). Rates are non-negative floats (bit patterns), so 'most permissive X' is "
                  "X = 0. X = 0 (probability 2^-52) is known finding 15: class x-zero.",
    "assumptions": [
        "semver.IsValid(report.Config) is supplied as a boolean by the harness (x/mod/semver is not modelled)",
        "time.Parse(\"2006-01-02\") behaves as Lib/Calendar.parse_date (sampled)",
        "rates are non-negative non-NaN float64 values; encoding/json round-trips reports and configurations",
        "html.EscapeString / html/template only escape text: the viewer's summary is classified by its fixed phrases",
        "burst cases: the model judges the report under the case's configuration; the server is given that configuration plus an unrelated counter zzbig:{b0..b119999} (no item of the report belongs to it)",
        "charts: chart_prefix_ok (no bucket introduces the chart separator ':' when the collapsed name has none before its brace) is a premise of the chart theorems; the generator's configurations satisfy it",
        "sequences: the upload handler decodes each body into a fresh report and the viewer resolves the configuration version on each request (code facts sampled by the suite); go mod download against the file:// proxy returns the stored config.json of the requested / newest version",
    ],
    "trusted_base": [],
    "own_objects": ["theories/Props/C11.vo", "theories/Proofs/ApprovalCharts.vo", "theories/Proofs/ApprovalSequences.vo", "theories/Proofs/ApprovalReports.vo", "theories/Proofs/ReportPrograms.vo", "theories/Proofs/ApprovalOracle.vo", "theories/Proofs/ApprovalFacts.vo", "theories/Model/Approval.vo"],
}
