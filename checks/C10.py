from vcommon import Suite


def rewrite_os_for_c10(dst):
    """In the scratch copy only, import lines only: `"os"` of internal/counter (file.go, counter.go) and of
    internal/mmap goes through harness/shim/vosy (yield point of the deterministic scheduler + numbered fault
    point at every file-system call; plain package os when neither is active)."""
    for d, names in ((dst / "internal" / "counter", ("file.go", "counter.go")), (dst / "internal" / "mmap", None)):
        for p in d.glob("*.go"):
            if p.name.endswith("_test.go") or (names and p.name not in names):
                continue
            t = p.read_text()
            t2 = t.replace('\t"os"\n', '\tos "golang.org/x/telemetry/internal/verifh/shim/vosy"\n')
            if t2 != t:
                p.write_text(t2)

SPEC = {
    "id": "C10",
    "title": "Written counter files conform to the documented v1 on-disk format",
    "design_ref": "DESIGN.md section 7, C10",
    "suites": [
        Suite(name="layout", harness="vh_layout", runner="layout",
              model_deps=["theories/Model/Layout.vo", "theories/Model/LayoutMulti.vo", "theories/Model/LayoutRace.vo",
                          "theories/Model/Parse.vo",
                          "theories/Model/LayoutRef.vo"],
              quick_n=280, thorough_n=4000, timeout=3000, rewrite=rewrite_os_for_c10,
              rule="cases: real place on (hdrLen, limit, namelen) incl. limits around page ends, unaligned, near 2^32 (55%); "
                   "real hash (10%); real mappedHeader (5%); operation sequences through the real mappedFile API "
                   "(openMapped, newCounter, Add on the returned pointer, extend, close/reopen incl. foreign metadata) or the "
                   "real file/Counter API, cut into segments, names of every length in {1,15,16,17,4079..4096} and random "
                   "1..4096 with NUL/newline/0xff/UTF-8/stack shapes, names aimed at the last 10 units of a page, files of "
                   "1..6 pages (12 in thorough), compared byte for byte with the model's rendering (20%); files written by "
                   "an independent Go encoder (several placement/link/tag policies) read by the real Parse and continued by "
                   "the real library (10%). In the mapped-API sequences 18% of the operations run with a fault plan in the "
                   "os shim (file-system call 0..5 of the operation fails with ENOSPC/EIO/EFBIG/EDQUOT; names chosen so that "
                   "the record does not fit into the file, i.e. the calls of extend are reached); limit and size are read "
                   "from disk after EVERY operation, failed ones included. Before those: racing writers (independent "
                   "openMapped handles as managed threads of the deterministic scheduler, parked before every file-system "
                   "call, also those inside newCounter's extend and remap loop), every plan with at most 2 preemptions (a "
                   "deterministic sample when there are more than a few hundred), one case per distinct schedule: (a) "
                   "creation: 2 or 3 writers opening the SAME file that is absent / empty / header-only and adding 1-2 "
                   "counters each; (b) growth: the file exists with its last page nearly full, 2 (thorough also 3) writers "
                   "create the SAME new name whose record needs a new page, so that one parks inside extend while the "
                   "other links the name, then allocate 0-3 further records of different sizes. Limit and size are read "
                   "from disk after EVERY scheduler step; the run is replayed on Model/LayoutRace (and on the coarser "
                   "Model/LayoutMulti for (a)). (c) the same scenarios with ONE failing file-system call: for every plan "
                   "with at most one preemption the call with which the preempted writer resumes and its next two calls "
                   "(the other writer has worked on the file in between, e.g. allocated in the page the first one has just "
                   "added), plus arbitrary positions. Independent-encoder files also with headers longer than the "
                   "library's minimum (up to one page), non-zero bytes after the metadata's NUL and metadata over 512 bytes. "
                   "The header cases observe the header through openMapped on a fresh file (one process creates files with metadata "
                   "of many lengths, long before short). A writer that can no longer open the file it wrote ends its session "
                   "as a `lockout` case (oracle own-file-refused), a panicking race writer is recorded, not fatal. "
                   "Encoder files also with the exact (unrounded) end of the last record as the limit: the layout checker accepts any "
                   "limit at or after the end of the last record's bytes (the rounded limit is a proved fact about the writer, "
                   "C10_writer_limit_rounded), so those files are compared with the Coq layout reader and the model of Parse like the rest. "
                   "Oracle header-length: a library-written header has round32(32+len(metadata)) bytes. "
                   "Oracles added for every sequence: the metadata of the file stays the one it was created with; one newCounter "
                   "grows the file by at most two pages (a file the code blew up is reported by size, not put on the wire). "
                   "distinct = distinct case lines; every case compares implementation observables "
                   "with the model and evaluates the layout oracle, none is trivial"),
    ],
    "technique": "Coq proof (placement arithmetic for all limits by lia over div/mod; wf_file as an inductive invariant of "
                 "every single-writer operation sequence via frame lemmas on byte lists; refinement of the byte-level writer "
                 "to an abstract name->value map; independent encoder proved well-formed and read back) + "
                 "translator-generated constants + byte-exact differential correspondence of the extracted model",
    "level_text": "Also proved: with a failing file-system call at any point of a file growth, after every operation (failed "
                  "ones included) the file is well-formed and limit <= size, and a failed operation changes no record "
                  "(C10_writer_wf_with_failing_growth, C10_failed_op_changes_no_record); for every interleaving of the "
                  "file-system calls of any number of writers creating the same file, the file is absent, header-only or "
                  "well-formed and reads back exactly the operations performed (C10_racing_creation). "
                  "round, hash and mappedFile.place of the model are proved equal, for all inputs in range, to the Go functions "
                  "as translated from the current source on every run (Gen/GoFns.v). Machine-checked theorems over the Gallina model of round/hash/mappedHeader/place/entryAt/lookup/newCounter/"
                  "extend/openMapped: place_ok for every limit and name length 1..4096 below the uint32 wrap; the hash is "
                  "FNV-1a 32 with the published constants, folded, mod 512; wf_file (the documented layout as an executable "
                  "checker, whose meaning is restated clause by clause in C10_wf_file_meaning) holds after every operation "
                  "of every sequence of newCounter/Add/extend/reopen by one writer, for names of any content and any values, "
                  "any number of pages; limit only grows and never exceeds the file size; an independent reader finds "
                  "exactly the abstract map of the operations; files of the independent encoder are well-formed and the "
                  "model of Parse reads them back. The model is tied to the code by byte-for-byte comparison of real files "
                  "with the model's rendering and by evaluating wf_file and the independent reader on the real bytes.",
    "level_note": "Several writers: proved here for the creation sequence of openMapped (C10_racing_creation; each writer's "
                  "later operations are single steps of that model). For the interleavings of newCounter itself (CAS on "
                  "the limit and on bucket heads, stale heads, dead records) Props/C10.v cites the C04 theorems about "
                  "Model/FileConc (one record per name, limit / size / values never decrease, every schedule); the "
                  "file-system-call-granularity model Model/LayoutRace.v that the race cases replay is executable only and "
                  "tied to the code by the suite, it has no theorem of its own; failing calls in the presence of another "
                  "writer are covered by that model and the oracles (limit <= size at every step, well-formed, read back) "
                  "only. The layout checker accepts headers longer than the writer's minimum (32-aligned, at most one "
                  "page), ignores the bytes after the metadata's NUL and does not cap foreign metadata at 512 bytes: that is "
                  "what Parse accepts and what the layout comment fixes. Faults are errno failures "
                  "without partial effect (no short writes) of the calls made by extend; a process killed between two "
                  "calls is the 'writer that stops anywhere' of the racing-creation schedules, not of the growth sequence. Sequences are restricted to files at least 64 KiB below the 4 GiB "
                  "cap of the format (hypothesis all_small / small): beyond it place and extend wrap in uint32 "
                  "(C10_place_wraps_near_4GiB), not reachable in tests. The empty name and names over 4096 bytes are "
                  "refused by newCounter and leave the file unchanged (C10_refused_names). The top byte of the name "
                  "length word (0xff tag written by the library, masked by readers) is not in the layout comment; the "
                  "checker accepts any tag. Trusted: Coq kernel+VM, extraction, OCaml glue, Go harness and its independent "
                  "encoder; mmap/MAP_SHARED visibility and os.File.WriteAt semantics are modelled as plain byte-list "
                  "updates (sampled by the suite). The Counter front end (extra bits, saturation) is C03's; here small "
                  "deltas go through it and arbitrary uint64 deltas through the mapped pointer.",
    "assumptions": [
        "one writer at a time: the mapping is the file (MAP_SHARED), WriteAt extends with zeros; sampled by the suite",
        "files stay at least 64 KiB below the 4 GiB cap implied by the format's uint32 offsets",
        "metadata is at most 512 bytes, has no NUL byte and consists of \"key: value\" lines (what rotate1 writes)",
        "counter names of 1..4096 bytes get a record; the empty name and longer ones are refused (modelled and proved harmless)",
    ],
    "trusted_base": [
        "harness/shim/vosy (os with a scheduler yield and a numbered fault point at every file-system call) and vsched; "
        "import rewrite `\"os\"` -> vosy of internal/counter (file.go, counter.go) and internal/mmap in the scratch copy, "
        "import lines only",
    ],
    "own_objects": ["theories/Props/C10.vo", "theories/Proofs/LayoutArith.vo", "theories/Proofs/LayoutRead.vo",
                    "theories/Proofs/LayoutWrite.vo", "theories/Proofs/WriterFacts.vo", "theories/Proofs/WriterInv.vo",
                    "theories/Proofs/EncodeFacts.vo", "theories/Proofs/FormatExtras.vo", "theories/Proofs/GoFnsLayout.vo", "theories/Proofs/MultiFacts.vo",
                    "theories/Model/LayoutMulti.vo",
                    "theories/Model/Layout.vo"],
}
