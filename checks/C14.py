from vcommon import Suite

SPEC = {
    "id": "C14",
    "title": "Crash reports reach telemetry only as program counters",
    "design_ref": "DESIGN.md section 7, C14",
    "suites": [
        Suite(name="crash", harness="vh_crash", runner="crash",
              model_deps=["theories/Model/Crash.vo"],
              quick_n=3000, thorough_n=60000,
              rule="the real telemetryCounterName / parseStackPCs (injected exporters) on: 11 real crash reports written "
                   "through the real crashmonitor.Parent by child processes of the harness binary itself (nil dereference, "
                   "panic, index, nil map, inlined frames, methods, generics, crash in a non-first goroutine, 30-deep and "
                   "300-deep recursion, deadlock, a 200 KiB panic message, 20 frames of a function with a 300-byte name, a mix of "
                   "long-named functions, a 1 MiB panic message, generic instantiations), each compared with the frames "
                   "runtime.Callers reported while unwinding and each ALSO delivered on the stdin of a process running the real "
                   "crashmonitor.Child (hooks as in the package's tests; kind `child`), as are 1 in 25 of the other reports "
                   "and reports whose running goroutine straddles the 64 KiB / 256 KiB / 1 MiB byte mark (inserted message "
                   "line); symbol-position lines that begin with '(' or have an empty symbol; "
                   "then per 20 cases: 8 rewrites of every non-PC field of a real report (messages, arguments, symbols "
                   "other than runtime.sigpanic, file paths, header fields, sentinel spelling, pc spelling 0x/0X/0b/0o/"
                   "octal/decimal/underscores, other goroutines), 5 outcome-changing mutations (sentinel missing/odd/late, "
                   "pairing shifted, invalid pc spellings incl. > 2^64, earlier ' pc=', sigpanic placement, frames "
                   "without pc, header and terminator variants, cut text, changed pcs, > 16 frames), 2 relocation pairs "
                   "(sentinel and pcs shifted, incl. wrap-around), 1 in 10: synthetic report over REAL pcs of stacks in which "
                   "instantiated generic functions are followed outwards by same-package functions and methods (also a "
                   "real crash child generic-chain), 1 in 10: synthetic report over REAL pcs of functions with "
                   "60..300-byte names (encoded name near / beyond 4096 bytes within 16 frames), 1 in 50: a real and a "
                   "synthetic report each with and without an inserted non-PC line of 64 KiB..200 KB before the running "
                   "goroutine, 3 synthetic reports, 2 random texts (one in 40 cases each "
                   "instead runs strconv.ParseUint(s,0,64) resp. fmt.Sscanf(line,\"sentinel %x\") directly on generated "
                   "numerals against the model's parse_uint0 / scan_sentinel). distinct = distinct "
                   "case lines; every case compares status, pc list and name with the model and evaluates the oracles "
                   "(total: no panic and - 20 s watchdog per call and per Child process - termination; Child treats only < 2 lines as no crash; shape, 16-frame cap, length <= 4096 and truncation marker, DecodeStack(name) = one line Function:line,+0xoff "
                   "per frame runtime.CallersFrames reports for the pcs [name-lists-frames], equal projection -> equal name, equal pcs -> equal name, relocation "
                   "invariance, genuine frames) on the implementation's output"),
    ],
    "technique": "Coq proof (loop invariant: the one-pass parser of parseStackPCs factors through a phase-structured "
                 "projection; structural induction over lines) + translator-generated constants + differential "
                 "correspondence of the extracted model against the real functions, incl. real crash reports",
    "level_text": "Machine-checked theorems over the Gallina model of telemetryCounterName/parseStackPCs (incl. "
                  "fmt.Sscanf(\"sentinel %x\") and strconv.ParseUint(s,0,64) with prefixes, underscores, range), for ALL "
                  "byte strings, all child sentinels and all symbolisers: total; Ok name is the fixed name or the crash "
                  "prefix + EncodeStack of 1..16 pcs, length <= 4096 (C15's bound); counter_name = finish(view crash) "
                  "where view = (sentinel, [(pc, follows sigpanic)] of the first running goroutine), hence equal views "
                  "give equal results (stronger than the stated 'equal or error'); only the first 16 frames of the view "
                  "matter; text-level: line-wise equal line classes give equal results, and everything after the blank "
                  "line ending the first running goroutine is irrelevant. The model is tied to the code by differential "
                  "execution, including real tracebacks of the harness binary.",
    "level_note": "Trusted: Coq kernel+VM, extraction, OCaml glue, Go harness and generators. NOT proved, only tested: "
                  "'for a genuine traceback of the same executable, the frames name the functions on the crashing "
                  "goroutine's stack at the faulting lines' depends on the runtime's traceback printer and symbol tables: "
                  "checked on 9 real crash kinds against runtime.Callers taken during unwinding (oracle genuine-frames) and "
                  "on relocated copies (oracle relocation-invariant). fmt.Sscanf and strconv.ParseUint are modelled from "
                  "their Go 1.23 sources and validated by the suite only. The symboliser (counter.EncodeStack's use of "
                  "runtime.CallersFrames) is a parameter. Observation (not a violation; an error is an allowed outcome): "
                  "a crash whose running goroutine has more than 100 frames contains the line '...N frames elided...' in "
                  "a symbol position, so telemetryCounterName returns an error (crash/malformed) for every deep-recursion "
                  "crash.",
    "assumptions": [
        "runtime symboliser (CallersFrames/FileLine) is a Section variable; theorems hold for every symboliser",
        "fmt.Sscanf(line, \"sentinel %x\", &uint64) and strconv.ParseUint(s, 0, 64) behave as modelled (Go 1.23 sources; sampled by the suite)",
        "strings are byte sequences; getSymbol's rune iteration is modelled bytewise ('(' and '.' are ASCII and never part of a multi-byte rune)",
        "uintptr is 64 bits",
        "the traceback format of the Go runtime (for the tested clause on genuine tracebacks)",
    ],
    "trusted_base": [],
    "own_objects": ["theories/Props/C14.vo", "theories/Proofs/CrashFacts.vo", "theories/Model/Crash.vo"],
}
