from vcommon import Suite

SPEC = {
    "id": "C19",
    "title": "gotelemetry mode commands and clean touch exactly what they promise",
    "design_ref": "DESIGN.md section 7, C19",
    "suites": [
        Suite(name="cli", harness="vh_cli", runner="cli",
              model_deps=["theories/Model/Cli.vo"],
              quick_n=1500, thorough_n=30000,
              rule="units on 6 parallel workers, each with its own PRNG derived from (seed, unit index), written in unit "
                   "order. 70% command sequences: a generated telemetry directory (absent / mode file absent, valid, "
                   "near-valid, garbage, a directory / local and upload absent, a file, or 0..8 entries named from a pool of "
                   "matching and near-miss names (x.v1.count, .v1.count, a.v2.count, b.v1.count.tmp, x.json.bak, .json, "
                   "x.JSON, weekends, upload.token, *.lock, ...) as files, empty directories, non-empty directories (nested), "
                   "symlinks / debug/ / foreign first-level entries), then 3..7 commands from on/local/off/clean/env run "
                   "with the REAL gotelemetry binary (built by the harness from the scratch copy, XDG_CONFIG_HOME "
                   "redirected); one case line per command with full recursive snapshots before/after, exit status, "
                   "stdout, `gotelemetry env` output and the library's Dir.Mode() afterwards. Every command runs in a generated "
                   "process time zone (TZ = a TZif file written by the harness: UTC, +14h, -12h, +13:45, -11h, +5:30, -8h, +1h, "
                   "-9:30; at every instant the local date of +14h or -12h differs from the UTC date) and with a generated "
                   "TMPDIR (unset, a fresh directory on the same file system, a fresh directory on ANOTHER file system found "
                   "at run time (/dev/shm ...), a missing path, a regular file) whose contents must stay unchanged. 5% of "
                   "units: no user configuration directory (HOME, XDG_CONFIG_HOME unset), the working directory holds a "
                   "generated decoy telemetry tree that must stay untouched. 20% in-process "
                   "Dir.SetModeAsOf at a generated instant of years 0..9999 expressed in a generated fixed zone, often near midnight, + Mode() read-back; 10% Dir.Mode() on generated "
                   "mode-file bytes. distinct = distinct case lines; every line is compared with the model, none is trivial"),
    ],
    "technique": "Coq proof over a tree model of the telemetry directory (nested inductive, any depth): exact frame of clean by "
                 "case analysis on paths, frame of mode commands by induction over the command list, read-back by the "
                 "calendar round trip + a TrimSpace identity lemma; translator-generated FileVersion constant; differential "
                 "correspondence of the extracted model against the real built gotelemetry binary",
    "level_text": "Machine-checked theorems, for ALL directory trees and all command histories: clean deletes exactly the "
                  "entries of local/ whose name ends in .<FileVersion>.count or .json and of upload/ whose name ends in "
                  ".json that os.Remove can delete (files, empty directories); every other path of any depth is observed "
                  "unchanged (C19_clean_removes_exactly, _entries_exact, _leaves_no_target, _keeps_mode, _idempotent); any "
                  "sequence of on/local/off leaves every path but <dir>/mode identical (C19_mode_cmd_frame), is a no-op "
                  "when Mode() already reads the requested mode (C19_mode_cmd_noop), otherwise succeeds and reads back as "
                  "(requested mode, today) for dates of years 0..9999 (C19_mode_cmd_sets, _file_roundtrip, _reports), today being the UTC "
                  "date of the instant in every process time zone (C19_zone_independent, _mode_cmd_records_utc_date) and wherever "
                  "TMPDIR points, other file systems included (C19_tmpdir_independent, _mode_cmd_sets_any_tmpdir); the "
                  "single failing case (mode path is a directory) is characterised and inert (C19_mode_cmd_fails_iff, "
                  "_failure_inert); in mixed histories the mode path evolves as if only mode commands ran and all other "
                  "paths as if only cleans ran (C19_history_*). The executable oracle evaluated on the real snapshots "
                  "accepts the model and is sound for the declarative statement (C19_oracle_*).",
    "level_note": "Trusted: Coq kernel+VM, extraction, OCaml glue, Go harness and generators. The model is tied to the code "
                  "only by the correspondence suite (real binary, real library). Not modelled: removal failures other than "
                  "a non-empty directory (permissions, files in use on Windows) - the harness runs with sufficient "
                  "permissions; the telemetry directory's own parents (MkdirAll of <config>/go is assumed to succeed); "
                  "without a user configuration directory (zero Dir) the commands are modelled as touching nothing "
                  "(cli_run_nodir) and the suite checks that on a decoy tree in the working directory; "
                  "symlinks are treated as plain entries (the "
                  "harness places them only as leaves of the data directories); the flag package's argument handling. "
                  "`today` of the binary is the machine's UTC date: a step during which the date changes is skipped. "
                  "C19_clean_removes_exactly assumes entry names inside local/ and upload/ are unique (always true of a "
                  "file system); the entry-level forms need no such premise.",
    "assumptions": [
        "os.ReadDir/os.Remove/os.ReadFile/os.WriteFile/os.MkdirAll behave as the tree model says (Remove deletes files, "
        "symlinks and empty directories and fails on non-empty ones; WriteFile fails on a directory) - exercised by the suite",
        "strings.TrimSpace, strings.Index, time.Parse/Format(DateOnly), time.Time.String behave as Lib/Bytes and "
        "Lib/Calendar model them (sampled by the suite incl. years 0..9999 and non-UTF-8 bytes)",
        "the names \"local\", \"upload\", \"debug\", \"mode\" of telemetry.NewDir and the suffix \".count\"/\".json\" literals are "
        "not constants the translator can read; they are tied to the code by the suite only (FileVersion is translated)",
        "the user configuration directory is resolvable and writable; no concurrent writer during a command",
    ],
    "trusted_base": [],
    "own_objects": ["theories/Props/C19.vo", "theories/Proofs/CliFacts.vo", "theories/Model/Cli.vo"],
}
