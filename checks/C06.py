from vcommon import Suite

SPEC = {
    "id": "C06",
    "title": "Reading a counter file is total and faithful",
    "design_ref": "DESIGN.md section 7, C06",
    "suites": [
        Suite(name="parse", harness="vh_parse", runner="parse",
              model_deps=["theories/Model/Layout.vo", "theories/Model/Parse.vo"],
              quick_n=700, thorough_n=8000, timeout=3000,
              rule="inputs: files written by the real library (0..300 counters, names 1..4096 bytes incl. NUL/newline/UTF-8/"
                   "stack shapes, twin names) 12%; files of an independent encoder (several policies) 12%; structured "
                   "mutations of both (header length incl. values that put the table at the end of the input, limit, bucket "
                   "heads, record length, next links incl. self-cycle / 2-cycle / into header / past EOF / off a record by 4, by odd amounts, by 8, "
                   "truncation at 32-byte boundaries, prefix, metadata, extension, bit flips; one or two per file) 50%; "
                   "2 (thorough: 8) inputs of about 7.3 MiB whose bucket head or next link is 0xfffffff8 / within 32 bytes of "
                   "2^32 (long enough that a reader with wrapping uint32 offsets finds a record at the wrapped offset); library "
                   "and encoder files with pairs of different names of one 32-bit FNV-1a value (birthday search in the "
                   "generator); hand-made regression inputs (header length < 32, cycles through compressed stack names, long chains, "
                   "records ending at EOF, record offsets of every alignment, duplicate raw names; a quarter of them: inputs whose "
                   "length is not a multiple of 32 with a complete linked record in the partial unit after the last full one) 14%; random bytes 12%. Real Parse under "
                   "a watchdog (panic recovered, 3 s limit), run twice with different bytes after the input. Plus (3%) "
                   "Read/ReadFile scenarios: two file values (two processes) on the week's counter file opened by the real "
                   "rotate1; A adds counters, B adds counters (75%: long names that extend the file beyond A's mapping), A "
                   "adds again; after each phase counter.Read through A for its own counters, counters only B created and a "
                   "name nobody created, and counter.ReadFile, with the file as it is on disk; then a batch of 40-60 reads with the "
                   "number of mappings of the file (/proc/self/maps) and of open descriptors (/proc/self/fd) before and after "
                   "(oracles read-leaves-mapping / read-leaves-descriptor: reading leaves no process state behind). "
                   "distinct = distinct case lines; every case compares the answer with the model and evaluates the "
                   "totality / faithfulness / soundness / determinism oracles"),
    ],
    "technique": "Coq proof (fuel bound by the source's own walk bound; soundness by induction over the walk; faithfulness by "
                 "simulation of Parse's lenient walk by the strict layout reader on well-formed files) + differential "
                 "correspondence of the extracted model on generated, mutated and random inputs",
    "level_text": "Machine-checked theorems over the Gallina model of Parse/entryAt/load32/DecodeStack: for every byte list "
                  "the result is an error or a result and the model's fuel (len/32+2 per bucket) is never used up; entryAt "
                  "with uint32 arithmetic and slice bounds spelled out cannot panic on inputs below 4 GiB; the result is "
                  "the list of (expanded name, value) of linked records with pairwise different stored names (arbitrary "
                  "bytes; a repeated stored name is answered corrupt); on EVERY well-formed file Parse returns exactly what "
                  "the independent reader of the documented layout returns (equal expanded names: the later record in "
                  "bucket order wins); for every input the answer does not depend on bytes after the input; counter.Read / ReadFile return what the "
                  "independent reader finds in the file's current contents, whatever mapping the reading process holds "
                  "(C06_read_faithful, C06_read_finds_record, C06_read_file_faithful). The model is "
                  "tied to the code by differential execution on library-written, independently encoded, mutated and "
                  "random inputs.",
    "level_note": "The three defects found while building this check are fixed in /repo (219cb21 load32 bound, 6b4a27d "
                  "duplicate test on stored names, a01a83c 8-byte alignment of record offsets); their oracle classes "
                  "parse-oob-read and parse-expanded-twin are ordinary violation classes now. Record offsets that are not "
                  "multiples of 8 are refused by entryAt and by the model; on amd64 a revert of that test shows only as a "
                  "model/implementation difference (the panic needs a 32-bit platform). Inputs of 4 GiB or more are not "
                  "covered. strings.Split/Cut/IndexByte and map assignment are modelled by list functions (sampled by the "
                  "suite). ReadMapped, the CLI printers and the viewer are not covered.",
    "assumptions": [
        "inputs are shorter than 4 GiB (uint32 offset arithmetic in entryAt does not wrap)",
        "the result maps are compared as maps: the model's assignment lists with the last value per key",
    ],
    "trusted_base": [],
    "own_objects": ["theories/Props/C06.vo", "theories/Proofs/ParseFacts.vo", "theories/Model/Parse.vo"],
}
