from vcommon import Suite

SPEC = {
    "id": "C01",
    "title": "Uploaded reports contain only configuration-approved data",
    "design_ref": "DESIGN.md section 7, C01",
    "suites": [
        Suite(name="report", harness="vh_report", runner="report",
              model_deps=["theories/Model/Report.vo", "theories/Model/ReportRuns.vo"],
              quick_n=5000, thorough_n=50000,
              rule="cases: real config.Expand on structured/damaged bucket syntax (20%); real config.NewConfig "
                   "lookups HasProgram/HasVersion/HasCounter/HasCounterPrefix/HasStack/Rate/HasGOOS/HasGOARCH/"
                   "HasGoVersion on 6-11 probes per generated configuration (20%); real uploader findWork+reports "
                   "(createReport) on 1-6 counter files written in the documented v1 layout with 1-3 program builds "
                   "differing in one identity field, configurations with 1-4 programs (duplicate entries, empty/"
                   "duplicate buckets, damaged braces, stacks named like counters), names that are expansions / "
                   "prefixes / suffixes / near-misses of approved names, values incl. 0, 1, 2^32, 2^62, 2^63-1, "
                   "2^63, 2^64-1, X chosen through crypto/rand.Reader (0, 2^-52, 1/2, 1-2^-52, grid neighbours of "
                   "rates, random) with rates placed at X, next above, next below, 0, 1, denormals; gate closed by "
                   "mode local / age / as-of in 3/14 (60%, of which 1/6 also run the HTTP phase against a local "
                   "server with a leftover report and compare POSTed bytes); four directed cases replay known "
                   "findings 13 and 14 and a name configured as counter AND stack with rates on either side of X, "
                   "recorded both ways (the known class rate-table-shared is reported only when the decision is the "
                   "one the single shared rate table gives; any other decision on such a name is an ordinary "
                   "violation); a quarter of the weeks have 2-3 DIFFERENT programs whose approved builds "
                   "record counters and stacks of the SAME names, approved / rated / omitted differently per program, "
                   "files in random order; 8% have two different programs with the same base name, version and platform, one "
                   "approved; half of the cases name the count files as rotate1 does (begin days spread over the "
                   "week); 2% of the cases (kind runs) call the real upload.Run (configuration downloaded by the "
                   "go command from a file:// proxy, HTTP upload to a local server) two or three times in this one "
                   "process with the same environment while the configuration module publishes a new version "
                   "(approvals withdrawn / added) and the next week expires in between; 6% of the stack counters are "
                   "deep ditto-compressed stacks whose decoded name lands on either side of the 4096-byte name limit "
                   "(stored name within it); the files given to the model are the REFERENCE reading of what was "
                   "written (own decoder), the real parser's reading is an observable; 5% of the cases (kind weeks): the expired files of one run end on the same DATE at different "
                   "instants and zone offsets (00:00Z, 03:00Z, 23:59:59Z, +02:00, +05:30, -08:00 ...), in a third "
                   "of them on two dates a week apart: one report per date from all files of that date; 6% of the weeks have two approved programs whose package paths NEST (P and P/e), P "
                   "listing e/<rest> and P/e recording <rest>; in 10% of the cases near-miss names differ from an "
                   "approved name by bytes that are not valid UTF-8 (names are sent to the model as encoding/json "
                   "renders them: U+FFFD per stray byte); a core "
                   "program whose base name starts with `local.` (example.com/tools/local.agent); "
                   "10% of the cases (kind seq) are HISTORIES: this one process runs a new "
                   "uploader two or three times on the same directory while the count files change in between "
                   "(run while the files are active - programs count on - files expire - run; or run consuming a "
                   "week - same file names written for the next week - run), each run compared with the model and "
                   "judged by report_check on the files as the real parser reads them at that run. distinct = distinct case lines; every case compares implementation "
                   "observables (expansion, table answers, both JSON reports parsed, count files left) with the "
                   "model and evaluates report_check on the implementation's upload report; none is trivial"),
    ],
    "technique": "Coq proof (induction over files/programs/configuration lists, association-list invariants, int64 "
                 "wrap arithmetic by lia) + differential correspondence of the extracted model + executable "
                 "property oracle proved to accept the model",
    "level_text": "Machine-checked theorems over the Gallina model of config.NewConfig/Expand/Has*/Rate and "
                  "createReport/findProgReport, for all configurations, all lists of parsed counter files and all X: "
                  "soundness (builds, counter names via expansion, stack titles, rates), value = int64-wrapped sum "
                  "over exactly the files of the build (true sum below 2^63), completeness, report header, no report "
                  "iff no counters; programs of a report filtered independently of each other and of their order; "
                  "histories: with the parse cache explicit, every run of a process reports the expired files of "
                  "the directory as it is at that run (cache transparent when consistent, empty at each Run; a "
                  "stale cache is exhibited to differ); the expired files of a run are grouped by the date label of their TimeEnd, one report per "
                  "label covering exactly the files of that label; a Run fetches the newest configuration version of the store "
                  "it finds and its upload is filtered by that version, whatever earlier Runs fetched; expansion specified for the documented syntax and in general; the shared rate "
                  "table characterised (one of the configured rates; THE rate when unambiguous); the executable "
                  "oracle used on the implementation's reports is proved sound (acceptance implies the property's "
                  "clauses in Prop form with true sums) and to accept the model's reports outside the two known "
                  "classes, each of which is exhibited by a witness theorem. The model is tied to the "
                  "code by differential execution against the real Expand, NewConfig lookups and uploader.",
    "level_note": "Trusted: Coq kernel+VM, extraction (ExtrOcamlBasic), OCaml glue, Go harness, generators and its "
                  "counter-file writer (checked against the real Parse on every file). Rates/X are modelled as "
                  "IEEE-754 bit patterns of non-negative non-NaN floats (N order = float order there); negative or "
                  "NaN rates are outside the model and the generator. encoding/json (MarshalIndent, Unmarshal) is "
                  "not modelled: reports are compared after parsing, names are valid UTF-8. computeRandom's float "
                  "construction is not modelled (the theorems hold for every X); the suite drives it through "
                  "crypto/rand.Reader. posted_verbatim (bytes POSTed = bytes of local/<week>.json, leftover reports "
                  "passed through unchanged) is only TESTED by the suite (class posted-verbatim), not proved: the "
                  "HTTP phase is C08's model. Unparseable count files (skipped by createReport) cannot reach it "
                  "through findWork and are not generated.",
    "assumptions": [
        "rates, SampleRate and X are non-negative, non-NaN float64 values (config range [0,1]); their order is the order of their bit patterns",
        "encoding/json round-trips the report; a name that is not valid UTF-8 appears in the reports with U+FFFD for every stray byte (the harness applies that rendering to the names it sends to the model); the reports are compared as parsed structures",
        "the model starts from the reference reading of the written count files (harness decoder of the documented stack-name compression); counter.Parse agreeing with it is observed per file (C06 proves it)",
        "the gate (mode on, week not too old, as-of before the data) is an input boolean here; its computation is property C02",
        "histories: each upload.Run builds a new uploader (empty parse cache) and the directory does not change DURING a run; grouping of expired files by week and LastWeek are C07/C09 (one week expires per run in the suite)",
    ],
    "trusted_base": [],
    "own_objects": ["theories/Props/C01.vo", "theories/Proofs/ReportRunsFacts.vo", "theories/Proofs/ReportPrograms.vo", "theories/Model/ReportRuns.vo", "theories/Proofs/ReportOracleSound.vo", "theories/Proofs/ReportOracle.vo", "theories/Proofs/ReportFacts.vo",
                    "theories/Proofs/AggregateFacts.vo", "theories/Proofs/ConfigFacts.vo", "theories/Model/Report.vo",
                    "theories/Model/ApprovalSpec.vo", "theories/Model/Config.vo", "theories/Lib/Str.vo",
                    "theories/Lib/Assoc.vo"],
}
