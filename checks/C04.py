from vcommon import Suite
from C03 import rewrite_counter_imports


SPEC = {
    "id": "C04",
    "title": "Processes sharing a counter file never corrupt it, even when killed",
    "design_ref": "DESIGN.md section 7, C04",
    "suites": [
        Suite(name="fileconc", harness="vh_fileconc", runner="fileconc",
              model_deps=["theories/Model/FileConc.vo"],
              quick_n=1500, thorough_n=12000, rewrite=rewrite_counter_imports, tags="verif,verifconc",
              rule="TO BE FILLED"),
    ],
    "technique": "TO BE FILLED",
    "level_text": "TO BE FILLED",
    "level_note": "TO BE FILLED",
    "assumptions": [],
    "trusted_base": [],
    "own_objects": ["theories/Props/C04.vo", "theories/Proofs/FileConcThms.vo", "theories/Proofs/FileConcInv.vo",
                    "theories/Proofs/FileConcBase.vo", "theories/Proofs/FileConcWitness.vo", "theories/Model/FileConc.vo"],
}
