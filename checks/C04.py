from vcommon import Suite


def rewrite_counter_imports(dst):
    """In the scratch copy only: route sync/atomic and sync of internal/counter
    through the yielding shims (import lines only; no other line changes).
    Same rewrite as checks/C03.py (kept here so that C04 does not depend on it)."""
    d = dst / "internal" / "counter"
    for p in d.glob("*.go"):
        if p.name.endswith("_test.go"):
            continue
        t = p.read_text()
        t2 = t.replace('\t"sync/atomic"\n', '\tatomic "golang.org/x/telemetry/internal/verifh/shim/vatomic"\n')
        t2 = t2.replace('\t"sync"\n', '\tsync "golang.org/x/telemetry/internal/verifh/shim/vsync"\n')
        if t2 != t:
            p.write_text(t2)


def rewrite_counter_for_create(dst):
    """C04 suite create: as rewrite_counter_imports, plus `"os"` of internal/counter (file.go, counter.go, the
    exporter) and internal/mmap through harness/shim/vosc (with Yielding on: every file-system call is a
    scheduling point).  Import lines only."""
    rewrite_counter_imports(dst)
    for p in list((dst / "internal" / "counter").glob("*.go")) + list((dst / "internal" / "mmap").glob("*.go")):
        if p.name.endswith("_test.go"):
            continue
        if p.parent.name == "counter" and p.name not in ("file.go", "counter.go", "zz_verif_fileconc.go"):
            continue
        t = p.read_text()
        t2 = t.replace('\t"os"\n', '\tos "golang.org/x/telemetry/internal/verifh/shim/vosc"\n')
        if t2 != t:
            p.write_text(t2)


SPEC = {
    "id": "C04",
    "title": "Processes sharing a counter file never corrupt it, even when killed",
    "design_ref": "DESIGN.md section 7, C04",
    "suites": [
        Suite(name="fileconc", harness="vh_fileconc", runner="fileconc",
              model_deps=["theories/Model/FileConc.vo"],
              quick_n=2400, thorough_n=12000, rewrite=rewrite_counter_imports, tags="verif,verifconc",
              rule="each case is one scenario: 2-4 'processes' = independent handles (the real openMapped) on ONE "
                   "counter file in one address space, each running a list of the real mappedFile.newCounter(name) and "
                   "Counter.add calls (import-rewritten copy: sync/atomic -> yielding vatomic) under the deterministic "
                   "scheduler with fine granularity, one atomic operation per step. Names from a pool with forced "
                   "same-name and same-bucket collisions (found with an independent FNV-1a, cross-checked against the "
                   "package's hash), 4080/4096-byte names to force extension, records sized to end exactly at / one "
                   "unit before a page end, an over-long and (one scenario) an empty name; handles opened before or "
                   "after the file grew (stale mappings); random schedules biased to switch at CAS points, a solo "
                   "prefix, kills of any subset at any step; plus every schedule with at most 3 preemptions of two "
                   "tiny same-name / same-bucket / different-bucket programs and kills at every step (quick: a "
                   "deterministic sample of a quarter of n, thorough: all 3990 plans); two designated replays of the "
                   "known finding (witness4: duplicate walk beyond a stale mapping; witness-tries: ten remaps do "
                   "not catch up, driven by a scheduling callback) and remap-twice (the file grows twice under a "
                   "looking-up process, which must re-map twice and succeed); every error result comes with the "
                   "number of mappings the call created and whether its limit CAS reserved a record; two damaged-start scenarios (cyclic chain, small damaged limit; oracle-only). After "
                   "EVERY step the real file is read back (os.ReadFile) and decoded by the harness's own decoder "
                   "(bucket walk + raw scan of the record area) and compared with the model stepped on the same "
                   "schedule: operation kind and file offset of the pending atomic operation, size, limit, every "
                   "chain (offset, name, value, next), every written record found by the raw scan, every stray "
                   "non-zero unit; at the end every call's result (cell offset / error class) and mapping length. "
                   "distinct = distinct case lines; all non-trivial (>= 2 processes)"),
        Suite(name="create", harness="vh_create", runner="create",
              model_deps=["theories/Model/FileCreate.vo"],
              quick_n=400, thorough_n=3000, rewrite=rewrite_counter_for_create, tags="verif,verifconc",
              rule="each case: 2-3 processes open ONE counter file with the real openMapped and record a counter "
                   "(newCounter + two adds); `os` of internal/counter and internal/mmap goes through the shim vosc with "
                   "a scheduling point at every file-system call, so the openers race at file-system-call granularity "
                   "and are killed between any two calls; the file is found absent, empty, header only (a creator "
                   "killed between its two writes), partially zeroed, two bytes short, or valid; designated: the "
                   "creator killed after each of its first 0..6 calls followed by a second opener, every 0..5 x 0..5 "
                   "prefix of two racing creators; after every call of an opener the file length and the presence of "
                   "the header are compared with Model/FileCreate; at the end: every surviving process has opened the "
                   "file and its counter is in a well-formed file with the right value. Scenarios grow / grow-fault: a valid "
                   "file whose first page is nearly full, every opener records a 4 KiB name so that its newCounter must "
                   "extend the file; kills at any of the first 40 scheduling points of an opener (through the open, the "
                   "Stat / WriteAt / re-open of extend and the limit CAS), in grow-fault one file-system call of the "
                   "first 14 fails with ENOSPC or EIO (no lock-step then, oracles only, and a survivor's own failure is "
                   "not judged); after EVERY step the allocation limit read from the file must not exceed the file "
                   "length (class limit-beyond-file, theorem C04_limit_within_file); in the use phase the model follows "
                   "the observed growth (whole pages only, header unchanged). Seven hm cases (oracle only): a second PROGRAM "
                   "opens the first one's counter file (same name) with metadata of another length (longer, shorter, by one "
                   "byte) or of the same length and other content and, if it is admitted, records six counters: the first "
                   "program's file must stay well formed and keep its four counters with their values. "
                   "distinct = distinct case lines"),
    ],
    "technique": "Coq inductive invariant (rely/guarantee: shared well-formedness + per-process facts stable under "
                 "every action of every other process) of a transition system at atomic-operation granularity over "
                 "all schedules = all interleavings and all kill sets, any number of processes, arbitrary names; "
                 "potential-function argument for nonblocking; computed model witnesses for the refuted clauses; "
                 "lock-step differential execution of the extracted model against the import-rewritten real code "
                 "under a deterministic scheduler, with the property oracles evaluated on the decoded real file bytes",
    "level_text": "Machine-checked (Coq 8.16, no axioms) for the Gallina transition system Model/FileConc.v "
                  "(mappedFile.lookup, the remap loop, place, the limit CAS, extend = Stat / WriteAt / openMapped, "
                  "writeEntryAt = name copy / length store, the link loop with the duplicate walk, entryAt's bounds, "
                  "Counter.add's load/CAS; one program point per atomic operation, the file-system calls and the name "
                  "copy are program points of their own), for EVERY schedule (list of process indices: all "
                  "interleavings; a killed process is one that no longer occurs, so all kill sets and kill points), "
                  "any number of processes with arbitrary programs, arbitrary names, hash function, name lengths and "
                  "header length, from any well-formed initial file: C04_wf_always (file well formed at every "
                  "reachable state; linked => completely written, in its bucket, aligned, below limit <= size, outside "
                  "page tails; chains acyclic and 0-terminated; incomplete / dead regions unreachable; no extension "
                  "write ever hits a record), C04_one_record_per_name, C04_monotone (no step decreases a value, the "
                  "limit or the size), C04_bounded + C04_ledger_exact + C04_exact_at_quiescence (value = saturated sum "
                  "of initial value and the increments whose cell CAS succeeded <= increments begun; survivors that "
                  "returned have nothing pending, a killed process at most its last increment), "
                  "C04_limit_within_file (limit <= size at every instant = every kill point, and the step that moves the limit "
                  "publishes an offset the file had reached BEFORE that step: extension first, CAS after), "
                  "C04_failures_classified (a call fails only for its own empty or over-long name, in the "
                  "stale-mapping class, or because the reservation would pass 4 GiB (errCorrupt of fix 633eed3): the cycle guards, writeEntryAt's, extend's and "
                  "the corrupt-limit tests never fire), C04_failure_shapes (FBeyond only after the process has reserved and written its record, FTries only "
                  "after ten re-maps: the two shapes of the known finding are the only ways another process can fail "
                  "a call), C04_nonblocking (a potential depending only "
                  "on the file and the process's own locals strictly decreases with each own step unless the call "
                  "completes, is raised by another process's step only if that step is a successful CAS and then by at "
                  "most 20 + 2*chain length; a process running alone from any reachable state finishes all its "
                  "calls), C04_oracle_accepts_reachable (the executable oracles run on the real bytes hold of every "
                  "reachable model file). REFUTED, with computed model witnesses replayed on the real code: "
                  "C04_survivor_failed_refuted and C04_survivor_failed_refuted_tries (known finding "
                  "survivor-errcorrupt, both routes). C04_empty_name_rejected: the empty name (finding empty-name of this "
                  "check, fixed in /repo by 342cd17) fails with its own error before anything is written. The model is tied to the code by lock-step differential execution after every "
                  "atomic operation (see the suite rule).",
    "level_note": "Proved about the model, sampled for the code. Trusted: Coq kernel+VM, extraction (ExtrOcamlBasic), "
                  "OCaml glue, Go harness (scheduler and atomics shims, independent decoder, generators). The model "
                  "is sequentially consistent; Go's sync/atomic on mmap'ed memory and the kernel's page-cache coherence "
                  "between MAP_SHARED mappings, pwrite and read are assumptions (DESIGN section 11). 'Processes' are "
                  "emulated by independent handles in one address space; real multi-process execution is not run. "
                  "File-system calls (Stat, WriteAt, mmap, Close) and the name copy are NOT yield points of the "
                  "instrumented code: they execute inside the step of the preceding atomic operation (the model's "
                  "macro_step), so the correspondence suite samples only those interleavings; the THEOREMS cover the "
                  "finer interleavings where they are separate steps. File-system calls are assumed to succeed "
                  "(their own errors are outside C04). A reservation whose page end does not fit 32 bits fails with errCorrupt as in the "
                  "code since fix 633eed3 (FRange); below that no arithmetic of the code wraps, so the model computes "
                  "on unbounded numbers. The nonblocking bound per foreign successful CAS depends on the "
                  "chain length (a retry re-walks the chain); no bound on the number of foreign CASes is claimed "
                  "(lock-freedom, not wait-freedom). survivor_not_failed is REFUTED, not proved: a survivor can get "
                  "errCorrupt from the duplicate walk (FBeyond) or after ten remaps (FTries) because of what other "
                  "processes did; outside those two reasons C04_failures_classified is the positive statement. "
                  "The damaged-start scenarios (not well-formed initial file) are oracle-only: they are outside "
                  "init_ok and exercise guards that C04_failures_classified shows unreachable from well-formed files.",
    "assumptions": [
        "sequential consistency of sync/atomic operations on the mapped file across processes; MAP_SHARED mappings, "
        "pwrite (WriteAt) and read (os.ReadFile) of one file are coherent (kernel page cache)",
        "file-system calls (OpenFile, Stat, WriteAt, mmap) succeed; a file never shrinks",
        "the regions beyond the allocation limit read as zero (new records start with value 0 and next 0); sampled "
        "by the raw scan of the harness after every step",
        "names are identified with numbers, the hash and the length of a name are arbitrary functions (bucket, "
        "nlen)",
        "init_ok: the initial file is well formed (in particular no linked or reserved record has an empty name; "
        "possibly with abandoned regions of earlier, killed, runs); "
        "processes start by opening it",
    ],
    "trusted_base": [
        "harness/shim/vsched, vatomic, vsync (deterministic scheduler, yielding atomics with sync/atomic's layout)",
        "import rewrite of internal/counter in the scratch copy (import lines only), munmap replaced by a closed-region "
        "marker, memmap wrapped to record mappings (harness/inject/internal/counter/zz_verif_conc.go, "
        "zz_verif_fileconc.go)",
    ],
    "own_objects": ["theories/Props/C04.vo", "theories/Proofs/FileCreateFacts.vo", "theories/Model/FileCreate.vo", "theories/Proofs/FileConcShapes.vo", "theories/Proofs/FileConcOracle.vo", "theories/Proofs/FileConcProgress.vo",
                    "theories/Proofs/FileConcInv2.vo", "theories/Proofs/FileConcWitness.vo",
                    "theories/Proofs/FileConcThms.vo", "theories/Proofs/FileConcInv.vo",
                    "theories/Proofs/FileConcBase.vo", "theories/Model/FileConc.vo"],
}
