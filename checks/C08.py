from vcommon import Suite
from upload_common import rewrite_upload_imports

SPEC = {
    "id": "C08",
    "title": "At most one report per week is delivered, under races, retries and crashes",
    "design_ref": "DESIGN.md section 7, C08",
    "suites": [
        Suite(name="upload", harness="vh_upload", runner="upload",
              model_deps=["theories/Model/Uploader.vo"],
              quick_n=700, thorough_n=12000, rewrite=rewrite_upload_imports, tags="verif",
              extra_args=["c08"],
              rule="each case is one scenario: a telemetry directory with count files written by the real counter "
                   "library (1-3 program builds x 1-3 weeks, expired/active/empty/malformed, optional leftover "
                   "reports, markers, stale lock, stray *.json) and 2-4 real uploader.Run calls executed as threads "
                   "of the deterministic scheduler, one os/http call per step ('os' and 'net/http' of internal/upload "
                   "rewritten to yielding shims in the scratch copy): random and bounded-context-switch schedules, "
                   "kills after a random call, scripted server answers 200 / 4xx (400, 401, 403, 404, 408, 410, 413, 425, 429, 431, 451) / 5xx (500, 502, 503, 504) / 3xx / none (a quarter of the answers with a body that cannot be read: "
                   "status line and headers arrive, the connection is cut - the status decides all the same; a fifth with a SLOW "
                   "answer: the server has processed the request, its answer arrives after 30 s of simulated time - a client "
                   "with a shorter timeout would give up on a request the server has acknowledged), a scripted "
                   "create-then-read race, the scripted 'lateunlock' scenario (three runs, two or three weeks to upload: "
                   "run A's first request fails and A is parked before its second, run B locks the first week and is "
                   "parked before its request, A runs to its END, run C runs completely, then B's request goes out), "
                   "the scenario 'stubborn' (two or three weeks to upload, the server never accepts the OLDEST one - 5xx or "
                   "no answer, also in the final run - and answers 200 for the others: they must be delivered all the same; "
                   "not_delivered does not count a week the final run's request for which the server refused), the scripted 'oldlock' scenario (run A holds a week's lock and is parked before its request, more than a "
                   "day passes - every lock file of upload/ is back-dated by 25-72 h -, run B runs completely, then A's "
                   "request goes out), stale locks of dead uploaders with mtimes 2-72 h old (file ages are part of the "
                   "state), "
                   "and 'eventual' scenarios (no kills, then one further complete run answered "
                   "200); every run is what the exported Run does with its uploader: Run, then the deferred Close; thorough tier adds the sweep: kill uploader 1 after call k = 1..26 x every request answered "
                   "200 / 404 / 503 / not at all, then uploader 2 runs. After every step local/, upload/ (names, content classes, canonical report sums) and the "
                   "server log are compared with the model run on the same schedule; the C08 oracles are evaluated "
                   "on the implementation's observations (among them posted_not_verbatim: the body of a request is the content the run read from the report file; lock_released_by_other: a lock file of upload/ "
                   "disappears only by a step of the thread whose exclusive creation made it appear). distinct = distinct case lines, all non-trivial"),
        Suite(name="starts", harness="vh_upload", runner="uptok",
              model_deps=["theories/Model/Start.vo", "theories/Model/UploadStarts.vo"],
              quick_n=400, thorough_n=4000, rewrite=rewrite_upload_imports, tags="verif", extra_args=["c08tok"],
              rule="each case is a HISTORY of 3-8 program starts on one telemetry directory (progress over time: the "
                   "uploader only runs when the start acquires the upload token): initially no token or a token 0 h - "
                   "100 h old; the starts follow each other in a regular rhythm (every 1 / 5 / 12 / 13 / 23 / 23:59 / "
                   "24 / 24:01 / 25 / 30 / 49 h) or with irregular gaps from that list; every start calls the real "
                   "acquireUploadToken (injected exporter), and between two starts the gap is applied to the token file "
                   "as the world would (its modification time is moved back by the gap, whatever the code made of the "
                   "file). Observed per start: acquired?, token present, token age. Compared with Model/UploadStarts "
                   "(starts_hist over acquire_seq of Model/Start.v); oracles on the observations: token_starved (a start "
                   "at least 24 h after the last acquisition is refused), token_too_often (two acquisitions less than "
                   "24 h apart). distinct = distinct case lines, all non-trivial"),
    ],
    "technique": "Coq inductive invariants over all interleavings of any number of uploader runs, all kill sets and all "
                 "server-outcome sequences (transition system at file-system/HTTP-call granularity) + lock-step "
                 "differential execution of the extracted model against the import-rewritten real uploader",
    "level_text": "Machine-checked theorems (Coq, closed under the global context) over the Gallina model of uploader.Run as a "
                  "transition system with one step per os/http call: for EVERY interleaving of ANY number of uploader runs "
                  "(started at any time: re-runs and concurrent runs), every kill set (a killed thread never runs again, its "
                  "lock file stays) and every sequence of server answers (200 / 4xx / other status / no answer): mutual "
                  "progress over a history of program starts (C08_token_acquire_spec, C08_token_refused_keeps_window, "
                  "C08_starts_not_starved, C08_starts_rate_ok on the token model of C16: a start acquires the upload token iff "
                  "the last ACQUISITION is at least 24 h ago, a refused start leaves the window alone), "
                  "exclusion of the lock-file protocol (a lock file disappears only by the unlock step of its live holder: "
                  "C08_lock_removed_by_holder, C08_lock_kept_by_others), at most one acknowledgement per week (hence never two bodies), no "
                  "request while upload/W.json exists and that file is permanent, the status-dependent disposition of the "
                  "report (own steps by computation; no other thread can remove the report or write the marker while the "
                  "lock is held), the posted body is the content read, and progress without kills (from any state in which "
                  "all runs have returned, one further complete run answered 200 leaves every uploadable week acknowledged "
                  "exactly once in the whole log). The model is tied to the code by lock-step differential execution of the "
                  "extracted model against the real uploader whose 'os'/'net/http' imports are rewritten to yielding shims.",
    "level_note": "Trusted: Coq kernel+VM, extraction (ExtrOcamlBasic), OCaml glue, Go harness, the shims vos/vhttp/vsched "
                  "and the import rewrite. Granularity: one step = one os/http call of internal/upload (ReadDir, ReadFile, "
                  "Stat, OpenFile, File.Write, WriteFile, Remove, MkdirAll, Post); each call is atomic, os.WriteFile of the "
                  "marker included; File.Close and the reads of the mode file (package telemetry) are not steps. 'no answer' "
                  "means the server did not process the request. eventual_once assumes the history started with an empty "
                  "upload/ directory (no stale lock, markers = acknowledgements); a stale lock left by a kill blocks its week "
                  "for ever, which the property allows (progress only without crashes; Example C08_ex_stale_lock). "
                  "Observation, not a violation: a report can be posted with an EMPTY body when another uploader reads "
                  "W.json between its exclusive creation and its write (Example C08_ex_empty_body_posted; counted in the "
                  "suite's distribution as observation-empty-body-posted). File-system faults (EIO, ENOSPC) are not modelled.",
    "assumptions": [
        "os calls of internal/upload are atomic at the granularity of one call (the model's step); a directory listing is a snapshot",
        "the upload server's log is the sequence of requests it processed; 'no answer' = not processed",
        "report names in local/ and upload/ are handled as byte strings; Go's regexp/strings/filepath functions used on them are modelled in Model/Uploader.v (date_pat, fdate, re_date) and validated by the suite",
        "time.Time.Format/Parse behave as Lib/Calendar models them (C09)",
        "no file-system faults other than not-exist / exists",
    ],
    "trusted_base": [],
    "own_objects": ["theories/Props/C08.vo", "theories/Proofs/UploaderLock.vo", "theories/Proofs/UploaderLockOwner.vo", "theories/Model/UploadStarts.vo", "theories/Proofs/UploadStartsFacts.vo", "theories/Proofs/UploaderDisp.vo",
                    "theories/Proofs/UploaderLive.vo"],
}
