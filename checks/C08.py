from vcommon import Suite
from upload_common import rewrite_upload_imports

SPEC = {
    "id": "C08",
    "title": "At most one report per week is delivered, under races, retries and crashes",
    "design_ref": "DESIGN.md section 7, C08",
    "suites": [
        Suite(name="upload", harness="vh_upload", runner="upload",
              model_deps=["theories/Model/Uploader.vo"],
              quick_n=700, thorough_n=12000, rewrite=rewrite_upload_imports, tags="verif",
              extra_args=["c08"],
              rule="each case is one scenario: a telemetry directory with count files written by the real counter "
                   "library (1-3 program builds x 1-3 weeks, expired/active/empty/malformed, optional leftover "
                   "reports, markers, stale lock, stray *.json) and 2-4 real uploader.Run calls executed as threads "
                   "of the deterministic scheduler, one os/http call per step ('os' and 'net/http' of internal/upload "
                   "rewritten to yielding shims in the scratch copy): random and bounded-context-switch schedules, "
                   "kills after a random call, scripted server answers 200/4xx/5xx/3xx/none, a scripted "
                   "create-then-read race, and 'eventual' scenarios (no kills, then one further complete run answered "
                   "200). After every step local/, upload/ (names, content classes, canonical report sums) and the "
                   "server log are compared with the model run on the same schedule; the C08 oracles are evaluated "
                   "on the implementation's observations. distinct = distinct case lines, all non-trivial"),
    ],
    "technique": "Coq inductive invariants over all interleavings of any number of uploader runs, all kill sets and all "
                 "server-outcome sequences (transition system at file-system/HTTP-call granularity) + lock-step "
                 "differential execution of the extracted model against the import-rewritten real uploader",
    "level_text": "TO BE FILLED",
    "level_note": "TO BE FILLED",
    "assumptions": [],
    "trusted_base": [],
    "own_objects": ["theories/Props/C08.vo", "theories/Proofs/UploaderLock.vo", "theories/Proofs/UploaderDisp.vo"],
}
