from vcommon import Suite
import coqreplay


def rewrite_time_c09(dst):
    """In the scratch copy only, import line only: `"time"` of internal/counter/file.go goes through the shim
    vtime (everything is the real package time except AfterFunc, whose timers the harness records and fires)."""
    p = dst / "internal" / "counter" / "file.go"
    t = p.read_text()
    t2 = t.replace('\t"time"\n', '\ttime "golang.org/x/telemetry/internal/verifh/shim/vtime"\n')
    if t2 != t:
        p.write_text(t2)

SPEC = {
    "id": "C09",
    "title": "Counter-file week boundaries are computed and honoured consistently",
    "design_ref": "DESIGN.md section 7, C09",
    "suites": [
        Suite(name="span", harness="vh_c09", runner="c09",
              model_deps=["theories/Model/Span.vo"],
              quick_n=1500, thorough_n=40000, coq_replay=coqreplay.span, rewrite=rewrite_time_c09,
              rule="cases: real counterSpan (50%), real rotate1 metadata+file name (20%), increments around a second "
                   "rotate1 (20%), real uploader run with start at end-1ns/end/end+1ns/... (10%); times over 0001..9998 "
                   "with month ends, leap days, midnight+-1s; weekends file valid/missing/empty/malformed. "
                   "distinct = distinct case lines; every case compares implementation observables with the model, "
                   "none is trivial"),
    ],
    "technique": "Coq proof (arithmetic forall Z by lia; calendar by one-era vm_compute sweep lifted by periodicity) "
                 "+ translator-generated constants + differential correspondence of the extracted model",
    "level_text": "Machine-checked theorems over the Gallina model of counterSpan/weekEnd/rotate1 and the uploader's "
                  "expiry test, for all times (Z) and all week-end settings; calendar round trip for all Z (one "
                  "400-year era swept by vm_compute, lifted by a periodicity lemma), render/parse for years 0..9999. "
                  "The model is tied to the code by differential execution of the extracted model against the real "
                  "counterSpan, rotate1 and uploader on generated inputs.",
    "level_note": "Trusted: Coq kernel+VM, extraction (ExtrOcamlBasic), OCaml glue, Go harness and generators. "
                  "Go's time package (Date, Format, Parse) is modelled by Lib/Calendar and validated only by the "
                  "correspondence suite. Timer delivery (time.AfterFunc) is not modelled: the theorem is about the "
                  "decision rotate1 takes when called.",
    "assumptions": [
        "time.Time.Date/Format/Parse behave as Lib/Calendar models them (sampled by the suite over years 1..9998)",
        "the rotation timer fires: only rotate1's decision is modelled, not time.AfterFunc",
        "weekends file read is atomic (the source concedes a short creation race)",
    ],
    "trusted_base": [],
    "own_objects": ["theories/Props/C09.vo", "theories/Proofs/SpanFacts.vo", "theories/Proofs/SpanShare.vo", "theories/Model/Span.vo"],
}
