"""Shared by checks/C07.py and checks/C08.py: the import rewrite of the scratch copy."""

SHIM = "golang.org/x/telemetry/internal/verifh/shim/"


def rewrite_upload_imports(dst):
    """In the scratch copy only: route "os", "net/http" and "sync" of internal/upload's
    non-test files through the yielding shims (import lines only; no other line
    changes)."""
    d = dst / "internal" / "upload"
    for p in d.glob("*.go"):
        if p.name.endswith("_test.go") or p.name.startswith("zz_verif_"):
            continue
        t = p.read_text()
        t2 = t.replace('\t"os"\n', '\tos "%svos"\n' % SHIM)
        t2 = t2.replace('\t"net/http"\n', '\thttp "%svhttp"\n' % SHIM)
        # the parse cache's mutex: scheduler-aware (a thread that finds it held parks as Blocked instead of
        # blocking the whole harness); taking a free mutex is no step
        t2 = t2.replace('\t"sync"\n', '\tsync "%svsyncu"\n' % SHIM)
        if t2 != t:
            p.write_text(t2)


def rewrite_upload_fault(dst):
    """C05, uploader half: as rewrite_upload_imports, plus "crypto/rand" of internal/upload (computeRandom) goes
    through the fault-point shim vrand, and "sync" (the parse cache's mutex) through vsyncu, which turns a lock
    attempt that can never succeed into an observed hang (import lines only)."""
    rewrite_upload_imports(dst)
    d = dst / "internal" / "upload"
    for p in d.glob("*.go"):
        if p.name.endswith("_test.go") or p.name.startswith("zz_verif_"):
            continue
        t = p.read_text()
        t2 = t.replace('\t"crypto/rand"\n', '\trand "%svrand"\n' % SHIM)
        t2 = t2.replace('\t"sync"\n', '\tsync "%svsyncu"\n' % SHIM)
        if t2 != t:
            p.write_text(t2)
