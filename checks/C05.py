from vcommon import Suite


def rewrite_counter_for_faults(dst):
    """In the scratch copy only, import lines only: internal/counter's sync/atomic and sync go through the
    yielding shims (as for C03/C04), and `"os"` of internal/counter (file.go, counter.go, the C04 exporter) and of
    internal/mmap goes through the fault-injecting shim vosc."""
    d = dst / "internal" / "counter"
    for p in d.glob("*.go"):
        if p.name.endswith("_test.go"):
            continue
        t = p.read_text()
        t2 = t.replace('\t"sync/atomic"\n', '\tatomic "golang.org/x/telemetry/internal/verifh/shim/vatomic"\n')
        t2 = t2.replace('\t"sync"\n', '\tsync "golang.org/x/telemetry/internal/verifh/shim/vsync"\n')
        if p.name in ("file.go", "counter.go", "zz_verif_fileconc.go"):
            t2 = t2.replace('\t"os"\n', '\tos "golang.org/x/telemetry/internal/verifh/shim/vosc"\n')
        if t2 != t:
            p.write_text(t2)
    for p in (dst / "internal" / "mmap").glob("*.go"):
        if p.name.endswith("_test.go"):
            continue
        t = p.read_text()
        t2 = t.replace('\t"os"\n', '\tos "golang.org/x/telemetry/internal/verifh/shim/vosc"\n')
        if t2 != t:
            p.write_text(t2)


FAULT_FILE = Suite(
    name="fault-file", harness="vh_fault", runner="fault",
    model_deps=["theories/Model/FileRest.vo", "theories/Model/FileFault.vo"],
    quick_n=1800, thorough_n=9000, rewrite=rewrite_counter_for_faults, tags="verif,verifconc,veriffault",
    rule="TO BE FILLED")

SPEC = {
    "id": "C05",
    "title": "Telemetry failures never crash, hang or block the host program",
    "design_ref": "DESIGN.md section 7, C05",
    # the counter-file half; the uploader half appends its suite here
    "suites": [FAULT_FILE],
    "technique": "TO BE FILLED",
    "level_text": "TO BE FILLED",
    "level_note": "TO BE FILLED",
    "assumptions": [],
    "trusted_base": [],
    "own_objects": ["theories/Props/C05.vo"],
}
