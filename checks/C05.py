from vcommon import Suite
from upload_common import rewrite_upload_fault
from C03 import SPEC as _C03, rewrite_counter_imports

# The in-process half of "no memory fault": the lock-step suite of C03 (real Counter.Add / releaseLock / lookup /
# rotate1 / newCounter1 under the deterministic scheduler against Model/CounterConc), run here with its fault
# oracles: an access through a closed mapping by a call that entered its section after the close is a violation.
CONC_FAULT = Suite(
    name="conc", harness="vh_conc", runner="conc", model_deps=["theories/Model/CounterConc.vo", "theories/Model/CounterMulti.vo"],
    quick_n=150, thorough_n=3000, rewrite=rewrite_counter_imports, tags="verif,verifconc",
    rule=_C03["suites"][0].rule + " (C05 runs fewer random scenarios than C03 and the same systematic schedules; its "
         "interest here are the oracles panic, hang and entered-through-closed-mapping, and the scenario `grow` in "
         "which the lookup of a lock holder extends the file itself.)")


def rewrite_counter_for_faults(dst):
    """In the scratch copy only, import lines only: internal/counter's sync/atomic and sync go through the
    yielding shims (as for C03/C04), and `"os"` of internal/counter (file.go, counter.go, the C04 exporter) and of
    internal/mmap goes through the fault-injecting shim vosc."""
    d = dst / "internal" / "counter"
    for p in d.glob("*.go"):
        if p.name.endswith("_test.go"):
            continue
        t = p.read_text()
        t2 = t.replace('\t"sync/atomic"\n', '\tatomic "golang.org/x/telemetry/internal/verifh/shim/vatomic"\n')
        t2 = t2.replace('\t"sync"\n', '\tsync "golang.org/x/telemetry/internal/verifh/shim/vsync"\n')
        if p.name in ("file.go", "counter.go", "zz_verif_fileconc.go"):
            t2 = t2.replace('\t"os"\n', '\tos "golang.org/x/telemetry/internal/verifh/shim/vosc"\n')
        if t2 != t:
            p.write_text(t2)
    for p in (dst / "internal" / "mmap").glob("*.go"):
        if p.name.endswith("_test.go"):
            continue
        t = p.read_text()
        t2 = t.replace('\t"os"\n', '\tos "golang.org/x/telemetry/internal/verifh/shim/vosc"\n')
        if t2 != t:
            p.write_text(t2)


FAULT_FILE = Suite(
    name="fault-file", harness="vh_fault", runner="fault",
    model_deps=["theories/Model/FileRest.vo", "theories/Model/FileFault.vo"],
    quick_n=2100, thorough_n=9000, rewrite=rewrite_counter_for_faults, tags="verif,verifconc,veriffault",
    rule="(a) rest cases (quick: what remains of n after the 800 plan, 570 cfail, 26 openapi, 172 dup and 4 env cases; thorough: the remainder likewise): a counter file is built with the real code (1-6 counters, same-bucket, long and "
         "short names, four header lengths), damaged at rest by one of: allocation limit (0, inside header / table, "
         "at / inside / just after a record, true limit +-32, at / beyond EOF, values whose page rounding wraps around "
         "4 GiB), a bucket head or a next link (0, own record, other record, into the header, past EOF, unaligned by "
         "4 / 16, into the table, the limit, 0xFFFFFFFF; optional 2-cycle / cycle through another bucket), a record "
         "length (0, huge, beyond EOF, +-1), a copy of a record at an offset that is 4 / 8 / 12 / 16 / 20 bytes off "
         "alignment, truncation at a random 32-byte boundary, 64 random bytes, random bytes after the header, random "
         "bytes everywhere, the header length field, or none; opened with the real openMapped; then 1-3 calls of the real "
         "mappedFile.lookup / newCounter / Counter.add on existing and new names, each as a managed thread under the "
         "deterministic scheduler with a step budget and recover(); the file bytes before and the byte changes made by "
         "every call are compared with Model/FileRest run on the same bytes (result, new length, every byte the call "
         "changed and every byte the model may write). (b) plan cases (800 in quick; all in thorough): the real "
         "rotate1 -> weekEnd / MkdirAll / openMapped, then Add of counters that fit, then of one that needs extend, "
         "with a fault plan installed in the os shim (call index -> ENOENT / EACCES / ENOSPC / EIO / short write), on "
         "seven initial directory states (fresh, weekends valid / blank / garbage, counter file valid / shorter than "
         "16 KiB / other header): no fault, every single call index 0..39 x kind (quick: all kinds on two states, EIO "
         "and short write on the others, up to 800 cases; thorough: everything) and, in thorough, all pairs of call "
         "indices below 30 with kinds {EIO, short} x {ENOSPC, short} on two states; compared with Model/FileFault: "
         "number of calls made by the open, parked or mapped, total number of calls, where the counts ended (in "
         "memory / in the file). (d) openapi cases (26, both tiers): the package-level counter.Open(rotate) is "
         "once-per-process, so each case is a child process of the harness binary: every state of the mode file "
         "(absent, empty, blank, garbage, off / off with date / padded off, on, local, 1500 bytes) and no "
         "configuration directory at all (zero telemetry.Dir) x rotate in {false, true}; the child calls Open(rotate) "
         "twice with the same value, increments a counter and calls the close functions; a panic or a crash of the "
         "child is class panic; whether a counter file was created is compared with Model/FileFault.mode_off. "
         "(f) env cases (4, oracle only; every file-system call is a scheduling point, step budget 6000): "
         "local/weekends is a directory / a dangling symbolic link, then rotate1 and Adds; the counter file is deleted / "
         "replaced by an empty file while mapped, then counters that need an extension: oracles panic, hang, "
         "counts-invented. (c) cfail cases (570 in quick): one goroutine runs Counter.Add on a mapped file while rotate1 FAILS (mode "
         "switched off, weekends unreadable, MkdirAll / OpenFile / mmap of the new week's file failing, short header "
         "write) and parks the file: the failing rotation runs to completion after the first k steps of the Add, for "
         "every k (quick 0..24, thorough 0..60; counter with / without a pointer), and the rotation stopped after j "
         "of its steps with a whole late Add in between; oracles panic, hang, counts-invented, "
         "entered-through-closed-mapping. (e) dup cases (172 in quick, 1202 in thorough): two file objects (two "
         "instances of one program) map the same counter file whose first page is nearly full and record the SAME new "
         "4 KiB name at the same time (instance i runs k steps, the other completes, i finishes, for every k <= 70 / "
         "400 and both i; plus random interleavings); both must extend / re-map, the loser finds the duplicate after "
         "its re-map; then, with everything returned, each adds once more: oracles panic, hang, "
         "entered-through-closed-mapping (an Add after quiescence goes through a closed mapping), "
         "one-record-per-name, counts-invented, counts-lost (in memory + record = everything added); oracle only, the "
         "positive statements are C04's (C04_one_record_per_name, C04_caller_mapping_kept, C04_bounded). "
         "distinct = distinct case lines; none is trivial")

FAULT_UPLOAD = Suite(
    name="fault-upload", harness="vh_upload", runner="uploadf",
    model_deps=["theories/Model/Uploader.vo", "theories/Model/UploaderFault.vo"],
    quick_n=1500, thorough_n=12000, rewrite=rewrite_upload_fault, tags="verif", extra_args=["c05"],
    rule="each case is one run of the real uploader under a fault plan: a telemetry directory generated as for C07/C08 "
         "(count files written by the real counter library: 1-3 program builds x 1-3 weeks, expired / active / empty / "
         "malformed, optional leftover reports, markers, stale lock, stray *.json; mode on or local), copied afresh for "
         "every plan; the exported upload.Run (with its recover; 3 of 4 directory states in mode local) or the inner "
         "uploader.Run via VerifNewUploader; 'os', 'net/http' and 'crypto/rand' of internal/upload rewritten (import "
         "lines only, scratch copy) to the shims vos / vhttp / vrand in PLAN mode: every call ReadDir, ReadFile, Stat, "
         "OpenFile, File.Write, File.Close, WriteFile, Remove, MkdirAll, Post and the entropy read has an index in "
         "program order and the plan maps index -> ok | ENOENT | EACCES | ENOSPC | EIO | short write (first half of the "
         "bytes) | for Post: transport error / 5xx / 4xx. Every third directory state is built for the lock of a dead uploader: one week to "
         "report and upload, mode on, and upload/<week>.json.lock already there - 30 min, 90 min, 2 h, 25 h or 3 days old, "
         "an empty file or (every other time) a non-empty DIRECTORY under the lock's name that no Remove takes away. The directory states also include locks of dead uploaders whose "
         "mtime is hours or days old (file ages are part of the state) and count files with a valid header whose hash "
         "chains leave the file (grown beyond the first page and truncated; dangling link). Plans: none; every single call index of the fault-free run x "
         "kind (all five error kinds on the first two directory states, EIO and short write on the others; 4xx / 5xx at "
         "the Post indices); in thorough all five kinds everywhere, all PAIRS of call indices below 31 x {EIO, short} x {ENOSPC, short} on "
         "the first three states, and on every other state six random plans with 2-3 faults. On every state also four PERSISTENT faults (the same call "
         "fails however often it is repeated: upload/ read-only, no Remove in upload/, no Remove at all, every write "
         "ENOSPC), given to the model as the equivalent index plan (the indices at which the rule fired). Observables compared with Model/UploaderFault run on the same "
         "directory, plan and observed week order: number of calls made, panic raised, final listing of local/ and "
         "upload/ with content classes and report sums, requests received by the server. Oracles on the "
         "implementation's observations (PROP classes): call-bound (more than 21 n + 6 calls), hang (step budget "
         "exceeded), panic-escaped (a panic left the exported Run), fd-leak (the process holds more file descriptors after the run than before), panic-without-fault (the exported Run recovered a panic "
         "although the plan fails no call: C05_run_total allows a panic only after a failed entropy read; states with a "
         "blank mode file - empty or white space only - are generated for this), active-file-touched, deleted-without-report, "
         "counts-duplicated (a file's counts in two reports or twice in one), counts-lost (a count file gone whose "
         "counts are in no completely written local report although the week had no report before). A watchdog (60 s per case) reports a run that neither "
         "makes a call nor returns as a hang with its input and ends the harness cleanly. distinct = "
         "distinct case lines; none is trivial")

SPEC = {
    "id": "C05",
    "title": "Telemetry failures never crash, hang or block the host program",
    "design_ref": "DESIGN.md section 7, C05",
    # the counter-file half and the uploader half
    "suites": [FAULT_FILE, FAULT_UPLOAD, CONC_FAULT],
    "technique": "Coq proofs over a byte-level model of one process on an ARBITRARY file (totality with explicit fuel "
                 "bounds, frame rule, computed counterexamples for the unguarded variants) and over a fault-plan "
                 "model of the open / extend call sequences (for every plan); differential execution of the "
                 "extracted models against the real code on damaged files and under injected file-system faults; "
                 "uploader half: Coq invariants over a solo uploader.Run under EVERY fault plan (potential function for "
                 "the call bound, inductive invariants for isolation and keeps-or-drops) + differential execution of the "
                 "extracted fault model against the real upload.Run with fault-injecting os / http / rand shims",
    "level_text": "COUNTER-FILE HALF. Machine-checked (Coq 8.16, no "
                  "axioms): for EVERY file (any length >= end of the hash table, any bytes) and every name: "
                  "C05_lookup_total (lookup returns within len/32+3 walk iterations, no access outside the mapping), "
                  "C05_newcounter_total (newCounter returns after at most one extension, no fault, for every file: the "
                  "4 GiB wrap-around found by this check is closed by fix 633eed3, C05_newcounter_wrap_fixed), "
                  "C05_parse_total (Parse, cited from C06), C05_newcounter_frame / C05_add_frame / "
                  "C05_other_cell_preserved (a call, successful or failed, writes only the limit word, the head word "
                  "of its own bucket, its own record after the hash table, its own cell: value cells of records below "
                  "the limit found in the file never change); for EVERY fault plan: C05_open_total (<= 12 calls, "
                  "mapped or parked, no panic), C05_extend_total, C05_scenario_total (<= 18 calls), "
                  "C05_parked_add_in_memory (parked: every step of every Add leaves all persisted cells alone). "
                  "Computed refutations showing what each guard is for and what no guard prevents: "
                  "C05_lookup_unbounded_refuted (no walk bound = before fix a9b3f3d: diverges), "
                  "C05_table_unprotected_refuted (no table bound = before fix 69df376: bucket heads overwritten), "
                  "C05_isolation_limit_refuted (known finding limit-below-records). "
                  "UPLOADER HALF (Model/UploaderFault: a solo uploader.Run, every os / http / entropy call indexed in "
                  "program order, fault plan index -> ok | error | short write | 4xx | 5xx). For EVERY plan, map iteration "
                  "order, initial directory and configuration: C05_run_total (the run returns after at most 21 n + 6 "
                  "calls, n = entries of local/, C05_call_bound; the only panic is computeRandom's on an entropy failure, "
                  "which the exported Run recovers), C05_fault_active_untouched (a count file that is not expired keeps "
                  "inode and content), C05_fault_delete_only_after_report (a count file is removed only as an expired file "
                  "of the week being deleted, with a report witness present), C05_fault_keeps_or_drops (week without "
                  "report before: every count file is still there unchanged, or its counts are in a COMPLETELY written "
                  "local.W.json that lists every file once and only expired files of W - a failed or short write never "
                  "loses counts within the run), C05_fault_ready_removed_only (a ready report is removed only when the "
                  "server's marker exists or the server answered this report with a 4xx).",
    "level_note": "Proved about the models, sampled for the code by the suite fault-file. Model/FileRest is ONE process on "
                  "a file at rest (the mapping is the whole file); interference of other processes on damaged files is "
                  "not modelled (C04 covers well-formed files). The model has the fixes 219cb21 (load32 bound) and "
                  "a01a83c (8-byte alignment in entryAt). File lengths in the suite stay below 1 MiB: limits that make "
                  "the real code create multi-GiB sparse files (observed: limit 0x80000000 -> 2 GiB file, call "
                  "succeeds) are not generated, only the wrap-around values. On amd64 an unaligned 64-bit atomic does "
                  "not fault; other platforms are outside the suite. In Model/FileFault the four errno kinds take the "
                  "same branch (one error kind); Close / munmap errors are ignored by the code and are not fault "
                  "points; telemetry.Default.Mode() and debug.ReadBuildInfo are not faulted (mode 'off' parks without "
                  "any call). The fault-plan theorems are about the call sequences of rotate1 (first open) and one "
                  "extension, not about arbitrary later rotations (time-driven rotation repeats rotate1 on a fresh "
                  "name). Parked => in-memory is a one-step fact of the C03 transition system for the program points "
                  "of an Add without pointer. SIGBUS on truncation of a live mapping is outside the property. "
                  "UPLOADER HALF: proved about Model/UploaderFault, sampled for the code by the suite fault-upload. ONE run, "
                  "alone in its directory (concurrent uploaders under faults are not modelled; C07/C08 cover concurrency "
                  "without faults). The four errno kinds take the same branch (no os.IsExist / IsNotExist distinction is "
                  "reachable except OpenFile O_EXCL on an existing file, which is modelled from the directory state, not "
                  "from the plan). A macro step groups Write+Close and OpenFile+Close of the lock; a failed Close of a written "
                  "file counts as a failed write. The model's panic state stands for both the recovered panic of the exported "
                  "Run and the escaping panic of the inner uploader.Run; that the exported Run returns is checked by the "
                  "suite (class panic-escaped), not proved. keeps_or_drops is about ONE run and a week with no report "
                  "before it; ACROSS runs counts can be lost after a fault (observations of the suite's model, not "
                  "violations of the stated property): a transient ReadFile error on one count file gives a week report "
                  "without it and a later run deletes the unread file because the report exists; a short write of "
                  "local.W.json leaves a truncated report whose mere existence makes the next run delete the week's count "
                  "files; a failed marker write after a 200 leaves W.json in local/, so the next run posts the week again; "
                  "a failed Remove of the lock leaves a stale lock that blocks the week. Reads of the mode file (package "
                  "telemetry) and of the upload config are not fault points.",
    "assumptions": [
        "the header length H is the one computed from the metadata (openMapped has checked the header prefix); "
        "table_end H + 4 <= file length (openMapped extends any shorter file to 16 KiB first)",
        "one process, file at rest: no concurrent writer while the damaged file is used",
        "a fault plan changes only the outcome of the planned calls; a short write writes the first half of the bytes",
        "atomic 32/64-bit accesses at any byte offset behave as plain little-endian accesses (amd64)",
        "uploader half: one uploader alone in its telemetry directory; a failing call has no effect on the file system "
        "except a short write (first half of the bytes stored); a failed Post reaches no server; the os calls of "
        "internal/upload are atomic at the granularity of one call",
    ],
    "trusted_base": [
        "harness/shim/vosc (fault-injecting os), vsched / vatomic / vsync; import rewrite of internal/counter "
        "(sync/atomic, sync, os) and internal/mmap (os) in the scratch copy, import lines only; memmap wrapped as a "
        "fault point (harness/inject/internal/counter/zz_verif_fault.go)",
        "uploader half: harness/shim/vos (plan mode), vhttp, vrand; import rewrite of internal/upload (os, net/http, "
        "crypto/rand) in the scratch copy, import lines only; harness/cmd/vh_upload (fault mode), ocaml/uploadf_main.ml",
    ],
    "own_objects": ["theories/Props/C05.vo", "theories/Proofs/FileRestFacts.vo", "theories/Proofs/FileRestWitness.vo",
                    "theories/Proofs/FileFaultFacts.vo", "theories/Model/FileRest.vo", "theories/Model/FileFault.vo",
                    "theories/Model/UploaderFault.vo", "theories/Proofs/UploaderFaultFacts.vo",
                    "theories/Proofs/UploaderFaultInv.vo", "theories/Proofs/UploaderFaultIso.vo",
                    "theories/Proofs/UploaderFaultKeep.vo", "theories/Proofs/UploaderFaultDrop.vo"],
}
