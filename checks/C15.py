from vcommon import Suite


def rewrite_counter_imports(dst):
    """In the scratch copy only: route sync/atomic and sync of internal/counter
    through the yielding shims (import lines only; same rewrite as C03)."""
    d = dst / "internal" / "counter"
    for p in d.glob("*.go"):
        if p.name.endswith("_test.go"):
            continue
        t = p.read_text()
        t2 = t.replace('\t"sync/atomic"\n', '\tatomic "golang.org/x/telemetry/internal/verifh/shim/vatomic"\n')
        t2 = t2.replace('\t"sync"\n', '\tsync "golang.org/x/telemetry/internal/verifh/shim/vsync"\n')
        if t2 != t:
            p.write_text(t2)


SPEC = {
    "id": "C15",
    "title": "Stack counter names identify call stacks faithfully and within bounds",
    "design_ref": "DESIGN.md section 7, C15",
    "suites": [
        Suite(name="stack", harness="vh_stack", runner="stack",
              model_deps=["theories/Model/Stack.vo"],
              quick_n=1500, thorough_n=30000,
              rule="cases: enc 50% = real EncodeStack/DecodeStack/IsStackCounter on pcs captured by runtime.Callers from "
                   "generated call chains in the harness binary (22 link kinds: functions, value/pointer methods, generics, "
                   "closures, method values, inlinable links, recursion; two helper packages alternating or repeated; "
                   "0..160 links, i.e. up to and beyond the 4096-byte limit; links with multi-byte (Greek/Cyrillic/CJK) identifiers so "
                   "that the truncation cut falls inside a character) and on mutated pc slices (sub-slices, shuffles, "
                   "pcs moved inside functions, function entries, unsymbolisable pcs mixed in, nothing symbolises), with the "
                   "frames read from runtime.CallersFrames for the same pcs sent along; dec 30% = real DecodeStack on "
                   "arbitrary strings (random bytes, quote/dot/newline-rich, mutated valid names); cache 20% = real "
                   "StackCounter.Inc through generated chains with depth 0..64, pcs captured independently in the leaf; the "
                   "StackCounter comes from the public constructor counter.NewStack on the unopened default file (50%), a "
                   "private unmapped file, or a private file opened (mapped) first; pairs of NewStack calls with ONE name and "
                   "two depths on chains sharing their top frames; ReadStack (= countertest.ReadStackCounter) observed in "
                   "that state and checked to be keyed by the expanded names with the counters' values; call stacks of EQUAL "
                   "length that agree on their innermost frames and differ in one link further out (depth 33..256); long "
                   "runs of frames of one package in a mapped file (encoded name short, expanded name on either side of 4096 "
                   "bytes) with the real Parse of that file (stack counters under their expanded names + an ordinary "
                   "counter); every case runs under a 20 s watchdog (a call that does not return is reported as PROP "
                   "terminates with its input); "
                   "cache read through an injected exporter. distinct = distinct case lines; every case compares "
                   "implementation output with the model and evaluates the property oracles on the implementation output"),
        Suite(name="stackconc", harness="vh_stackconc", runner="stackconc",
              model_deps=["theories/Model/StackConc.vo"],
              quick_n=300, thorough_n=6000, rewrite=rewrite_counter_imports, tags="verif,verifconc",
              rule="each case is one scenario: 2-4 goroutines calling the real StackCounter.Inc 1-3 times each, goroutines "
                   "with the same stack id from the SAME call stack (same function, call site and goroutine entry), in a "
                   "copy whose internal/counter imports sync and sync/atomic through the yielding shims, under the "
                   "deterministic scheduler (a mutex acquisition and every atomic operation outside a critical section "
                   "is a scheduling point): every schedule with <= 2 (thorough: 3) forced context switches of four fixed "
                   "configurations (2 and 3 goroutines on one stack, 2+1 Incs, two stacks) plus random schedules; after "
                   "quiescence Counters()/values/ReadStack are compared with Model/StackConc and checked: one counter "
                   "per call stack, holding all its Incs. distinct = distinct scenario+schedule+observation lines"),
    ],
    "technique": "Coq proof (structural induction over frame lists, lines and Inc histories; integer rendering proved "
                 "injective for all N/Z) + translator-generated constants + differential correspondence of the extracted "
                 "model against the real EncodeStack/DecodeStack/StackCounter.Inc",
    "level_text": "Machine-checked theorems over the Gallina model of EncodeStack (ditto compression, %+d/%d/%x rendering, "
                  "truncation), DecodeStack, IsStackCounter and the per-pc-slice cache of StackCounter.Inc, for all prefixes, "
                  "all frame lists, all byte strings and all Inc histories (no size bound): same pcs -> same counter "
                  "(sequentially, and concurrently: every interleaving of any number of goroutines' Incs - atomic under "
                  "c.mu - leaves exactly one counter per call stack holding all its Incs), "
                  "different pcs -> different counter and (untruncated, symboliser injective) different name; rendering "
                  "injective on frame lists; length <= 4096 always and exactly 4096 with the marker when truncated; "
                  "decode(encode) = uncompressed rendering for all frames whose function name has no newline and whose "
                  "package path is not a lone ditto mark (empty paths included since /repo fix a2e6094), for every counter "
                  "name none of whose lines looks like a ditto; each remaining hypothesis proved necessary by a "
                  "counterexample theorem; line-wise for the surviving complete lines of a truncated name; decode identity "
                  "on names without newline; line count preserved; is_stack iff newline. 'different stacks -> different names' holds "
                  "only under the premise that the symboliser is injective, which is REFUTED on the real runtime for "
                  "instantiations of one generic function (known finding symboliser-not-injective, theorem "
                  "C15_different_stack_same_name_refuted). The model is tied to the code by differential "
                  "execution on real program counters.",
    "level_note": "Trusted: Coq kernel+VM, extraction (ExtrOcamlBasic), OCaml glue, Go harness and generators. "
                  "The runtime symboliser (runtime.CallersFrames, Func.FileLine) is a parameter: the frame-level theorems "
                  "quantify over all frame lists; the pc-level name-injectivity theorem has the premises 'symboliser "
                  "injective on pc lists' and 'function names have no newline, no leading dot, package path not a lone "
                  "ditto mark' (both exclusions proved necessary by collision theorems). fmt's %d/%+d/%x are modelled by "
                  "Lib/Digits and validated by the correspondence suite only. runtime.Callers returning equal pcs for equal "
                  "call stacks is an assumption on the runtime (tested by the cache cases). Totality of DecodeStack is by "
                  "construction in the model; for the Go code it is tested (recover) on arbitrary strings.",
    "assumptions": [
        "concurrency: one Inc is one atomic step because c.mu is held from lookup to the increment (checked by the "
        "stackconc suite under the deterministic scheduler: scheduling points at mutex acquisition and at atomic "
        "operations outside critical sections); the mutex/atomic shims and the import rewrite are trusted",
        "runtime.CallersFrames / Func.FileLine (the symboliser) is a Section variable: frames are taken as given; "
        "name injectivity on pcs assumes it is injective and yields well-formed function names",
        "runtime.Callers returns equal pc slices for equal call stacks and different ones for different stacks",
        "fmt.Sprintf %s/%+d/%d/%x behave as Lib/Digits models them (sampled by the suite)",
        "64-bit uintptr (PC-Entry is sent as computed by Go); strings are byte sequences",
    ],
    "trusted_base": [],
    "own_objects": ["theories/Props/C15.vo", "theories/Proofs/StackFacts.vo", "theories/Model/Stack.vo", "theories/Lib/Digits.vo",
                    "theories/Proofs/StackConcFacts.vo", "theories/Model/StackConc.vo"],
}
