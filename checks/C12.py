from vcommon import Suite

SPEC = {
    "id": "C12",
    "title": "The upload endpoint stores exactly the valid reports it is sent",
    "design_ref": "DESIGN.md section 7, C12",
    "suites": [
        Suite(name="endpoint", harness="vh_endpoint", runner="endpoint", godev=True,
              model_deps=["theories/Model/Endpoint.vo"],
              quick_n=1200, thorough_n=12000,
              rule="10% batches: 2..4 rounds of 4..16 valid uploads of ONE week that has no directory yet (different X), posted by goroutines released at the same moment through the real handler; every answer must be 2xx and every object stored. 85% sessions of 1..4 requests on a fresh storage directory through the REAL handler built by "
                   "telemetrygodev's newHandler (mux + Log, Timeout, RequestSize, Recover + handleUpload + validate; file "
                   "system buckets), called via httptest (60% with an honest Content-Length; 36% with http.Request.ContentLength set by hand: -1, 0, one less / one more / 1000 more than the body, the limit, limit+1, 10x limit, 2^26, 2^50, 2^55, 2^62, max int64; 3% with a body reader that fails with a transport error after k bytes; 6% from a raw TCP client over a real listener: honest length, chunked coding in 1..3 chunks, an absurd declared length with limit+1 bytes sent, ILL-FRAMED chunked messages (non-hex / negative / empty / over-wide chunk size, data not followed by CRLF, bare LF, malformed trailer, control bytes) with the connection kept open): 85% POST, 15% GET/PUT/DELETE/HEAD/PATCH/OPTIONS/'post'; bodies: "
                   "23% valid reports (0..3 approved programs, counters, stacks with frames, X over denormal..1.8e308 and "
                   "negative), 7% kind confusion (one added item of an otherwise valid report: a stack name used as counter, a counter "
                   "used as stack, a counter/stack of the other program, an expansion prefix without bucket, a bucket of another "
                   "counter, the configuration's collapsed spelling ('single:{only}', 'go/build/flag:{buildmode}') or a piece of it, an approved counter name + newline + free text as a plain counter, a whole stack record filed under "
                   "Counters, stack names that contain an approved name only after the first newline or before CR/tab/space), "
                   "invalid week (28 hostile strings: '../x', '2024-1-01', '2024-01-01/..', 11 characters, NUL, "
                   "non-UTF-8, paths into the neighbouring bucket), config not semver, X zero in 8 spellings (0, -0, 0e5, "
                   "1e-400..), X not a finite number (1e400, strings, null, NaN), one program field not approved (9 kinds), "
                   "null program entries, wrong member types, truncated JSON, trailing data, arbitrary bytes, unusual but "
                   "decodable (key case, unknown and duplicate members), bodies of exactly the limit, one byte over, far "
                   "over with a valid first value followed by white space or garbage, over without a valid prefix, a "
                   "report that starts after the limit; the URL path names a different week/X than the report; 2 "
                   "(week, X) pairs per session so that objects are overwritten; 8% of sessions start with foreign content "
                   "in the bucket (a file where the week directory should be, a directory where the object should be). "
                   "Observed per request: status class, the complete tree of the upload bucket with contents, a snapshot "
                   "of everything else below the storage parent (other buckets, config, sentinel), whether each changed "
                   "object decodes to the request's report. The body's decoding (encoding/json), semver.IsValid, "
                   "json.Marshal and the %g rendering are taken from the real libraries by the harness (oracles). 5% cases "
                   "check the %g alphabet on 64 random finite floats each. distinct = distinct case lines; every case "
                   "compares model and implementation and evaluates the property on the real observations"),
    ],
    "technique": "Coq proof (case analysis of the handler over the C18 bucket model, invariant 'every object is "
                 "<dir>/<file>' by induction over request lists) + differential correspondence of the extracted model "
                 "against the real handler chain + the property's expected function evaluated on the real observations",
    "level_text": "Machine-checked, for all oracles (JSON decoding result, semver predicate, marshalling, %g rendering over "
                  "[0-9eE+-.]), all configurations, methods, and all request sequences on a bucket that starts empty: the "
                  "model of RequestSize+Recover+handleUpload+validate answers 2xx exactly for a POST within the size limit "
                  "whose body decodes to a report with a week accepted by the strict date parser, a semver config, X != 0 "
                  "and only approved programs/counters/stack prefixes; then it has written exactly the object "
                  "<week>/<%g of X>.json (C18: ordinary components, resolves inside the bucket directory, every other "
                  "object untouched) whose content is the marshalled report + newline and decodes to the same report under "
                  "the JSON round-trip premise; every other request is answered 4xx with the bucket tree unchanged; a "
                  "body over the limit is refused whatever it contains; a 4xx answer never changes the tree and a 2xx "
                  "answer is only given after a successful write (for ANY tree); no request is answered 5xx (writes of "
                  "two-component names into a two-level tree cannot collide; a null program entry is refused like any "
                  "other unapproved content, fix b5cf921).",
    "level_note": "No known finding left (null-program-5xx is fixed in /repo by b5cf921 and is an ordinary violation "
                  "class of the oracle again). Not modelled: JSON parsing itself, "
                  "semver, float formatting (oracles; the real answers are supplied per case by the harness), the "
                  "Timeout middleware (503 after 10 minutes; wall clock; it also answers 503 when the CLIENT ABORTS: an HTTP message that "
                  "ends before its declared Content-Length / in the middle of a chunk cancels the request context and "
                  "http.TimeoutHandler then writes 503 - such a message is not a request with a body and is outside the "
                  "quantifier, see seeded/builder-notes/C12.md; the suite never sends one), the Log middleware, HTTP transport beyond the sampled real-listener cases (no Expect: 100-continue, no pipelining, no aborted "
                  "connections), the ServeMux path cleaning (URL paths are kept canonical; a non-canonical path is "
                  "answered 3xx by the mux before the handler), I/O errors of the bucket other than name collisions, "
                  "concurrent uploads of the SAME object (os.Create truncates in place; concurrent uploads of different objects are covered: C12_batch_any_order + batch cases), the GCS backend. The request "
                  "size limit is the server's configured MaxRequestBytes (default 100 KiB, read from the real config by "
                  "the harness); the model only sees size_ok. X in (0,1] is not enforced by the server: negative and "
                  "huge X are accepted (the property only asks X != 0). Trusted: Coq kernel+VM, extraction, OCaml glue, "
                  "Go harness and its generators.",
    "assumptions": [
        "encoding/json: the harness decodes the same body with json.Unmarshal into telemetry.Report and supplies the "
        "result (error or report) to the model; 'is a JSON report' means exactly that (DESIGN.md section 9)",
        "JSON round trip (premise of C12_stored_decodes_same): Unmarshal(Marshal(r)+newline) = r for reports obtained by "
        "Unmarshal; the suite checks it on every stored object with reflect.DeepEqual",
        "semver.IsValid: answer of the real library, supplied per case; the approved counter set is computed by the MODEL "
        "(Model/Endpoint.expand, theorems C12_expand_plain / C12_expand_buckets) from the raw configuration the harness wrote - "
        "not taken from internal/config",
        "the %g rendering of a finite non-zero float is a non-empty string over [0-9eE+-.] (checked on every decoded X "
        "and on 64 random floats per render case)",
        "time.Parse(DateOnly) = Lib/Calendar.parse_date (compared through the status on 28 hostile and 6 valid weeks)",
        "the handler finishes within RequestTimeout (TimeoutHandler not modelled)",
    ],
    "trusted_base": [],
    "own_objects": ["theories/Props/C12.vo", "theories/Proofs/EndpointFacts.vo", "theories/Model/Endpoint.vo"],
}
