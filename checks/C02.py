from vcommon import Suite

SPEC = {
    "id": "C02",
    "title": "Nothing is uploaded or recorded beyond what the consent mode allows",
    "design_ref": "DESIGN.md section 7, C02",
    "suites": [
        Suite(name="mode", harness="vh_mode", runner="c02",
              model_deps=["theories/Model/Gating.vo"],
              quick_n=3000, thorough_n=60000,
              rule="TODO"),
        Suite(name="gating", harness="vh_gating", runner="c02",
              model_deps=["theories/Model/Gating.vo"],
              quick_n=700, thorough_n=12000,
              rule="TODO"),
    ],
    "technique": "TODO",
    "level_text": "TODO",
    "level_note": "TODO",
    "assumptions": [],
    "trusted_base": [],
    "own_objects": ["theories/Props/C02.vo", "theories/Proofs/ModeFacts.vo", "theories/Proofs/GatingFacts.vo",
                    "theories/Model/Mode.vo", "theories/Model/Gating.vo"],
}
