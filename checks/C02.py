from vcommon import Suite

SPEC = {
    "id": "C02",
    "title": "Nothing is uploaded or recorded beyond what the consent mode allows",
    "design_ref": "DESIGN.md section 7, C02",
    "suites": [
        Suite(name="mode", harness="vh_mode", runner="c02",
              model_deps=["theories/Model/Gating.vo"],
              quick_n=3000, thorough_n=30000,
              rule="cases: real Dir.Mode() and public telemetry.Mode() on a generated mode file (60%: the three modes / "
                   "upper case / other words / random bytes x no date, valid, zero, impossible, mis-shaped, mutated date x "
                   "one or two spaces or another separator x trailing newline, CRLF, NBSP, U+0085, lone continuation "
                   "bytes, NUL, extra field; empty, white space only, 4 KiB random; file absent or a directory), real "
                   "SetModeAsOf on a previous state with valid / upper-case / padded / invalid modes and instants in "
                   "years -300..12000 incl. the 0/9999 boundaries and non-UTC zones, then Mode() read back (30%), public "
                   "SetMode + Mode (10%), the zero Dir (1%). distinct = distinct case lines; every case compares the "
                   "implementation's result with the model, none is trivial"),
        Suite(name="gating", harness="vh_gating", runner="c02",
              model_deps=["theories/Model/Gating.vo"],
              quick_n=700, thorough_n=12000,
              rule="n scenarios, each 1-3 real uploader runs on one telemetry dir (one case line per run): 0-3 count files "
                   "written by the real counter library at chosen CounterTimes (years 200..9700, month/year/leap "
                   "boundaries) for one to three PROGRAMS (build info set per file) so that local/ lists a week's files in "
                   "forward, reversed or random order relative to their begin days, two thirds of the multi-file scenarios "
                   "inside one week, opt-in date placed between the begin days, a third of the files of multi-program scenarios "
                   "with damaged metadata (TimeBegin or TimeEnd key misspelt / value unparsable, same length), for a quarter "
                   "of the scenarios the week's report already in upload/ or waiting in local/ (crossed with every mode), mode file with the opt-in date at begin-1d / begin / begin+1d / end-1d / end / end+1d / far, "
                   "written raw or by the real SetModeAsOf, modes on/local/off/other/absent/directory, a fifth of the raw files "
                   "with a white-space separator other than one space after the word (TAB, LF, VT, FF, CR, CRLF, NBSP, U+0085, "
                   "U+2003, U+2028, U+3000, U+1680) followed by a date / comment / nothing, start instant at "
                   "end, end+-1ns, end+-1s, age 21d exactly, 21d+1ns, 21d+-1s, 28d, 293+ years, before end; X chosen by "
                   "replacing crypto/rand.Reader, sample rate 0, X, X+-ulp, 1, negative, tiny, random; left-over reports "
                   "(dated today+-1, asof+-1, the week, next year, no date, impossible date, local. prefix, short name); "
                   "upload/ absent / with the week already uploaded / stale lock; server status 200/400/404/500/503; "
                   "between runs SetModeAsOf and new count files; a fifth of the mode-on runs go through the real upload.Run "
                   "with the upload config (its SampleRate) PUBLISHED on a file module proxy and fetched by "
                   "configstore.Download; a third of the non-on runs go through the real "
                   "upload.Run; every 8th case is one long-running process (one file object of the real library): rotate1, "
                   "increments, mode file rewritten (raw or by SetModeAsOf; off / local / on / near-miss words, white-space "
                   "variants), optional increments, rotate1 again with CounterTime at the end / +1 s / days past it / before "
                   "it / same day, increments, count-file snapshots after each stage; "
                   "every 40th case runs counter.Open/Inc/Add/NewStack in a child process against a dir with "
                   "a generated mode; 3 fixed year-1 cases (zero-time sentinel). observables: requests received, names in "
                   "local/ and upload/ after, recursive sha256 snapshot before/after, mode file. distinct = distinct case "
                   "lines; every case is compared with the model run and checked by the oracle; each case runs under a 60 s "
                   "watchdog (a call that does not return becomes a PROP hang case)"),
    ],
    "technique": "Coq proof (decision functions and the uploader run as a Gallina function from an abstract file-system "
                 "state to an effect list; induction over the loops; calendar/string-order facts by one-era vm_compute "
                 "sweeps lifted by periodicity) + translator-generated constants + differential correspondence of the "
                 "extracted model against the real Mode/SetModeAsOf, uploader, upload.Run and counter API",
    "level_text": "Machine-checked theorems over the Gallina model, for all mode-file contents (byte lists), all instants "
                  "(Z nanoseconds), all directory contents and all X / sample rates (abstract ordered type): a request "
                  "occurs only if the mode file reads exactly on; uploadOK <-> on /\\ age <= 21 d /\\ (no date \\/ date < "
                  "earliest begin) /\\ not(0 < rate < X); every request of a run is justified (ready report found with the "
                  "date rule, or a week built with uploadOK) and not future-dated (string order = day order proved for "
                  "well-formed dates); every request is allowed by the executable statement of the property used as "
                  "oracle (outside the zero-time sentinel class, which is refuted by three witnesses); mode off: any "
                  "sequence of Open/Add/Run has only read effects + MkdirAll(upload/) and leaves local/, upload/ content "
                  "and the mode file unchanged; every mode other than on/off and an unreadable file give the same run as "
                  "local; SetModeAsOf accepts exactly on/off/local (after TrimSpace) with year 0..9999, reads back the "
                  "same mode and date, and leaves the file unchanged on every error. The model is tied to the code by "
                  "differential execution on generated inputs.",
    "level_note": "Trusted: Coq kernel+VM, extraction (ExtrOcamlBasic), OCaml glue, Go harness and generators. Modelled, "
                  "validated only by the correspondence suites: strings.TrimSpace (Lib/Bytes.trim_space), time.Parse / "
                  "Format of DateOnly (Lib/Calendar), the regexp dateRE (hand-written matcher), os.ReadDir order, "
                  "counter.Parse + RFC3339 decoding of count-file metadata (the harness sends the decoded span), HTTP "
                  "transport (the status is an input). Not modelled: report contents (JSON), the config download of "
                  "newUploader is exercised (file proxy) but go mod download itself is not modelled, the debug log, concurrency between "
                  "uploaders, a mode change DURING a run or during the life of a process that already opened its count "
                  "file is modelled at rotations only (every rotate1 re-reads the mode; Add never does: known finding "
                  "recording-until-rotation), "
                  "non-UTC offsets in count-file metadata, MkdirAll/WriteFile failures of SetModeAsOf. The order of the "
                  "weeks in reports() (Go map order) is fixed to first appearance in the model; decisions for different "
                  "weeks are independent and the suite compares sorted observables. posts_allowed assumes start and end "
                  "years 0..9999 (RFC3339 cannot express others). Known finding zero-time-sentinel: dates equal to "
                  "0001-01-01 are treated as absent (refuted theorem + three real-code witnesses). Known finding "
                  "recording-until-rotation: a process with a mapped count file keeps recording after the mode is set to "
                  "off until its next rotate1 (refuted theorem + real-code witnesses).",
    "assumptions": [
        "strings.TrimSpace, time.Parse/Format(DateOnly), regexp dateRE behave as Lib/Bytes, Lib/Calendar and "
        "Model/Gating.re_date model them (sampled by the suites incl. malformed UTF-8 and years -300..12000)",
        "the mode file does not change during one uploader run (changes between a process's Open / Add / rotate1 steps are modelled: OpSetMode)",
        "count-file metadata carries UTC (Z) instants with years 0..9999, as the counter library writes and RFC3339 allows",
        "X and the sample rate are not NaN (computeRandom never returns NaN; JSON cannot encode it); the runner orders "
        "float64 values by an order-preserving integer key computed in the Go harness",
        "entries of local/ named *.json are regular files; one uploader at a time (locks are modelled only as stale files)",
    ],
    "trusted_base": [],
    "own_objects": ["theories/Props/C02.vo", "theories/Proofs/ModeFacts.vo", "theories/Proofs/GatingFacts.vo",
                    "theories/Proofs/RunFacts.vo", "theories/Proofs/SpecFacts.vo", "theories/Proofs/DateOrder.vo",
                    "theories/Proofs/DateMono.vo",
                    "theories/Model/Mode.vo", "theories/Model/Gating.vo"],
}
