from vcommon import Suite

SPEC = {
    "id": "C16",
    "title": "The telemetry sidecar starts only when permitted and never recursively",
    "design_ref": "DESIGN.md section 7, C16",
    "suites": [
        Suite(name="start", harness="vh_start", runner="start",
              model_deps=["theories/Model/Start.vo"],
              quick_n=2300, thorough_n=20000, timeout=1500,
              rule="the harness binary re-executes itself as an instrumented application main (start_test.go's technique) that "
                   "logs the marker variables it finds and calls the REAL telemetry.Start with the telemetry directory "
                   "redirected; the sidecar Start launches is the same binary and logs too; a symlink `go` first on PATH "
                   "makes the uploader's `go mod download` land in the same binary, which logs the marker it inherited and "
                   "calls Start with Upload+ReportCrashes like the go command; a depth counter bounds a (mutated) recursion; "
                   "all descendants hold a pipe so a case ends when every process it caused has exited. The application "
                   "enters telemetry by Start alone or by MaybeChild first and Start later (the cmd/go pattern; the sidecar "
                   "is the same program, the fake go command always uses the MaybeChild pattern). Cases: the full "
                   "table entry {Start, MaybeChild-then-Start} x marker {unset, \"\", 1, 2, x} x ReportCrashes x Upload x mode FILE {on/local/off with a date as SetMode writes them, "
                   "garbage, `off` + LF and `on` + LF as a user's echo writes them} x token {absent, 1h, 25h} (720); the mode "
                   "file's BYTES are the model's input (the model reads the mode itself: trimmed, first word), further "
                   "hand-written contents (CRLF, blanks, tabs, NBSP, no date, date on the next line, near-off words) are "
                   "generated; 40 cases with NO telemetry directory (no Config.TelemetryDir and HOME/XDG_CONFIG_HOME "
                   "unset, so os.UserConfigDir fails and telemetry.Default is the zero Dir) and 64 "
                   "with the default directory below XDG_CONFIG_HOME; every process runs in an empty working directory whose "
                   "contents are part of the watched snapshot; then generated cases adding more markers (0, 11, \" 1\", true, 3), 14 mode-file "
                   "contents incl. absent/near-off, token ages (0, 1min, 23h50, future, 24h10, 25h, 1y), upload variable "
                   "pre-set, local/ and debug/ pre-existing, telemetry directory unreachable; observed per case: exit "
                   "status, whether Start returned, every process record (kind, marker, upload variable), token "
                   "existence/(re)creation, whether anything in the directory changed. Then 12 (thorough 80) races of 8 "
                   "real starter processes released together by a barrier, 400 (thorough 6000) rounds of 4..16 "
                   "goroutines of the driver calling telemetry.Start at once (no exporter: only the public entry points "
                   "Start/MaybeChild are called), token absent/fresh/stale, and 40 (thorough 600) histories of 3..6 starts one "
                   "after the other on one directory with the token aged in between (its mtime moved back by 0..72h, which is "
                   "what real time passing does). Config.UploadStartTime is a dimension everywhere (zero, now, 1h, 25h, 8d, "
                   "400d ahead, 25h/8d back). distinct = distinct case lines; every line is compared with the model"),
    ],
    "technique": "Coq proof: decision table as a function over arbitrary byte strings (marker, mode) and booleans, proved by case "
                 "analysis on the code's own tests; process tree by a fuel-indexed recursive function whose shape is proved "
                 "for every depth; token race as a transition system (Lib/Sched: arbitrary schedules over any number of "
                 "threads, one atomic step per file-system call, explicit time) with an inductive invariant; translator-"
                 "generated constants (24h period, variable names); differential correspondence with real processes",
    "level_text": "Machine-checked theorems over the Gallina model of Start/parent/child/acquireUploadToken: a sidecar is "
                  "exec'ed only if marker empty, mode not off, local dir reachable, and crash reporting or (upload flag and "
                  "token acquired) - and exactly then (C16_launch_only_if, _launch_iff), for ALL marker/mode strings, flags, "
                  "times, token states; marker 1 or 2 execs nothing and the sidecar's first effect sets marker 2 "
                  "(C16_no_exec_in_child, _child_sets_marker_first), by either entry point - Start or MaybeChild-then-Start - "
                  "(C16_entry_points_agree, _child_marks_environment, _marker2_inert, _*_any_entry); every process caused to any depth is the one sidecar or "
                  "a delegated program that finds marker 2, at most one sidecar per application, none below a sidecar "
                  "(C16_process_tree_shape, _sidecars_bounded, _no_recursion); mode off: nothing launched by anybody, the "
                  "application's Start only reads the mode file (C16_off_inert_*); without a telemetry directory (no TelemetryDir, "
                  "no user configuration directory) the same holds whatever files exist (C16_no_directory_*); off means a mode FILE "
                  "whose trimmed first word is off, however written - with LF/CRLF, blanks, with or without date "
                  "(C16_off_file_inert, _off_spelling_is_off); for EVERY schedule of ANY number of "
                  "starters with time passing, within less than the 24h period and the token absent or young through the "
                  "window, at most one acquires the token, and none if it was present (C16_token_at_most_once, "
                  "_token_fresh_no_winner); the stale-token race is exhibited (C16_token_stale_refuted); Config.UploadStartTime has "
                  "no part in the decision (C16_upload_start_time_irrelevant); in every history of sequential starts two "
                  "acquisitions are at least 24h of real time apart, a refused start leaves the token untouched and a start 24h "
                  "after the last acquisition acquires (C16_history_is_spaced, _refused_start_keeps_token, "
                  "_history_acquires_after_period, _history_refused_then_same).",
    "level_note": "C16_token_stale_refuted is not a finding: the property's hypothesis (no stale token present) excludes it and "
                  "the source comment concedes it. Trusted: Coq kernel+VM, extraction, OCaml glue, Go harness. The model is tied "
                  "to the code by the correspondence suite only. Not modelled: os.Executable / cmd.Start / StdinPipe / debug "
                  "directory failures in startChild (they only prevent a launch), Stat or OpenFile errors other than "
                  "not-exist / exists in acquireUploadToken (they return false), the Windows daemonize variant, what the "
                  "sidecar's crash monitor and uploader do (C02, C07, C08, C14), and a process that already is a sidecar while "
                  "the mode is off (governed by the mode tests inside counter.Open and the uploader, not by start.go; the "
                  "oracle exempts marker 1 from the no-write clause, not from the no-launch clause). The two goroutines of "
                  "the sidecar are listed in program order; with crash reporting on, the crash monitor may exit the sidecar "
                  "before the uploader has run the go command, so the delegated process record is optional in that case. "
                  "One mutation of DESIGN.md's list (mode test moved after counter.Open) is equivalent with respect to the "
                  "property because counter.Open has its own mode gate; removing the test is caught.",
    "assumptions": [
        "each file-system call of acquireUploadToken (Stat, Remove, OpenFile O_CREATE|O_EXCL) is atomic and O_EXCL create "
        "succeeds for exactly one of several concurrent creators (POSIX; exercised by the real-process and goroutine races)",
        "the token file's modification time is the creating process's current time and the clock is monotone (model: Tick d, d >= 0)",
        "the environment of a started process is the parent's at the time of exec (os.Environ) plus the variables start.go adds",
        "Dir.Mode's reading of the mode file is modelled here as TrimSpace + first word (mode_of_bytes, same as C02/C19); "
        "the harness sends the file's bytes, not the implementation's Mode() value",
    ],
    "trusted_base": [],
    "own_objects": ["theories/Props/C16.vo", "theories/Proofs/StartFacts.vo", "theories/Model/Start.vo", "theories/Lib/Sched.vo"],
}
