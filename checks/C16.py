from vcommon import Suite

SPEC = {
    "id": "C16",
    "title": "The telemetry sidecar starts only when permitted and never recursively",
    "design_ref": "DESIGN.md section 7, C16",
    "suites": [
        Suite(name="start", harness="vh_start", runner="start",
              model_deps=["theories/Model/Start.vo"],
              quick_n=330, thorough_n=3000, timeout=1500,
              rule="placeholder"),
    ],
    "technique": "placeholder",
    "level_text": "placeholder",
    "level_note": "placeholder",
    "assumptions": [],
    "trusted_base": [],
    "own_objects": ["theories/Props/C16.vo", "theories/Proofs/StartFacts.vo", "theories/Model/Start.vo", "theories/Lib/Sched.vo"],
}
