from vcommon import Suite
from upload_common import rewrite_upload_imports, rewrite_upload_fault

SPEC = {
    "id": "C07",
    "title": "Each expired counter file is folded into exactly one weekly report",
    "design_ref": "DESIGN.md section 7, C07",
    "suites": [
        Suite(name="upload", harness="vh_upload", runner="upload",
              model_deps=["theories/Model/Uploader.vo"],
              quick_n=700, thorough_n=12000, rewrite=rewrite_upload_imports, tags="verif",
              extra_args=["c07"],
              rule="each case is one scenario: a telemetry directory with count files written by the real counter "
                   "library (1-3 program builds - one of the five programs is named local.agent, so that its count files carry "
                   "the prefix of local reports - x 1-3 weeks; active and expired; without counters; truncated, "
                   "damaged, random and empty files; in 22 % of the scenarios an expired file with a VALID header and metadata "
                   "whose hash chains leave the file (260 long-named counters so that it grows beyond its first page, then "
                   "truncated to 16 KiB; or the last record of a chain linked past the end) - unparseable by an independent "
                   "structural check of the v1 layout in the harness, whatever the parser under test says; "
                   "same-week files with different begins; a fifth counter name that is not valid UTF-8 (in 12 % of the files); in 25 % "
                   "of the scenarios a count file written by an independent encoder of the v1 layout whose TimeEnd is the "
                   "same instant as a library-written file's but spelled on a clock east of UTC (+01:00 .. +12:00, same "
                   "date): same week, and with the same identity the same program entry; in 55 % of the scenarios an "
                   "IDENTITY GROUP: 2-4 files of one report week whose program identities differ from a base identity "
                   "in exactly ONE of the five fields Program (another last path element, or the same one under another "
                   "directory: count-file names that differ in the date only) / Version / GoVersion (set through the library's build "
                   "info) / GOOS / GOARCH (same-length rewrite of the metadata header of the library-written file, "
                   "approved in the upload config) or are equal to it (to be summed), with distinct counter values "
                   "(10 j + r) and stack counters (names with a newline, 100 j + r; approved by their first line); "
                   "optional leftover "
                   "local/ready/uploaded reports, stale lock, stray and future-dated *.json; in 10 % of the scenarios the telemetry directory's path has characters that mean something "
                   "to glob patterns / regular expressions / shells / URLs ('proj [wip]', 'a*b', 'what?', a backslash, "
                   "'[a-z]', '{1,2}', '%', space, '$', '#', '+(', '^|'); in 35 % the start times are given on a clock that "
                   "is not UTC (fixed zones -11 h .. +13 h: only 'today' may be read off that clock, a file's week is the "
                   "UTC date of its end); start times at "
                   "end-1s, end, end+1ns, end+1s, days and >21 days later; mode on/local with and without an as-of "
                   "date) and 1-3 real uploader.Run calls executed as threads of the deterministic scheduler, one "
                   "os/http call per step ('os' and 'net/http' of internal/upload rewritten to yielding shims in the "
                   "scratch copy): sequential runs (Run; Run), random and bounded-context-switch interleavings, and "
                   "the scripted three-uploader race, the scripted scenario 'grow' (two runs of one process: the first "
                   "finds the week's files still active and only parses them for their end date, then the programs go on "
                   "counting - same files, larger values, a new counter -, the second run after the week's end must fold "
                   "the values the files have THEN); thorough tier adds the sweeps: uploader A runs i = 0..35 calls, then B to "
                   "completion, then A, and A i calls / B j calls / rest, over a 9x9 grid. After every step local/ and upload/ (names, content classes, "
                   "report JSON parsed and sent per program entry: id of the full five-field identity, then (id, value) "
                   "of every entry of Counters and of Stacks - a stack name in Counters or a counter name in Stacks gets "
                   "the id 777777, an identity that no count file has the id 999999, two entries of one identity stay "
                   "two entries) and the server log are compared with the "
                   "model run on the same schedule; the C07 oracles are evaluated on the implementation's "
                   "observations; oracle week_reports_ok (Model/Uploader.v, extracted): the program entries of a "
                   "local report written by a run = the grouping of the week's folded count files by the FULL "
                   "five-field identity, each value the sum over exactly that group's files (class wrong_report). "
                   "distinct = distinct case lines, all non-trivial"),
        # the deletion clause under failed report writes: the fault suite of C05 (uploader half), same harness
        # mode, runner and oracles; PROP classes deleted-without-report, counts-lost, counts-duplicated,
        # active-file-touched are C07's clauses observed on a run with injected faults
        Suite(name="fault-upload", harness="vh_upload", runner="uploadf",
              model_deps=["theories/Model/Uploader.vo", "theories/Model/UploaderFault.vo"],
              quick_n=1000, thorough_n=6000, rewrite=rewrite_upload_fault, tags="verif", extra_args=["c05"],
              rule="the suite fault-upload of C05 (see checks/C05.py for the generation rule): one real upload.Run per "
                   "case on a generated directory under a fault plan (every single call index x error kind, short "
                   "writes, Post failures); for C07 its oracles check the deletion clause when a report write FAILS: "
                   "a count file is gone only if a report for its week exists (deleted-without-report), its counts are "
                   "in a completely written local report (counts-lost), once (counts-duplicated), and active / "
                   "unparseable files are untouched (active-file-touched). distinct = distinct case lines"),
    ],
    "technique": "Coq inductive invariants over all interleavings of any number of uploader runs (transition system at "
                 "file-system/HTTP-call granularity, run histories for the deletion clause, a phase invariant for the "
                 "sequential post-condition) + lock-step differential execution of the extracted model against the "
                 "import-rewritten real uploader",
    "level_text": "Machine-checked theorems (Coq, closed under the global context) over the Gallina model of uploader.Run as a "
                  "transition system with one step per os/http call. Sequential clause: for every directory, start time, mode "
                  "on/local and every order in which the weeks are visited, every complete run ends with local.W.json = the "
                  "unfiltered report folding in exactly W's count files, for each week W with no report before whose files "
                  "all ended before the start and one of which has a counter. For EVERY interleaving of ANY number of "
                  "uploader runs (concurrent or repeated), kills and server answers: a count file is removed only in a run "
                  "in which a report for its week existed at that or an earlier state; unparseable count files and files not "
                  "expired for any run keep inode and content; a local.* file is never removed, never re-created, and its "
                  "body never changes once written; every report body written folds in each count file at most once and "
                  "only expired files of its own week; once local.W.json exists and earlier runs have returned no later run "
                  "creates W.json or local.W.json again; with all uploaders in mode local the one local.W.json folds in ALL "
                  "of the week's files expired for its author. Program entries (C07_report_entries_by_identity, "
                  "C07_report_values_local / _upload, C07_week_reports_ok_spec, C07_one_report_groups): the canonical body of a "
                  "report has exactly one program entry per identity (id of the five fields Program, Version, GoVersion, "
                  "GOOS, GOARCH) occurring among the files folded in, and every counter / stack value in it is the sum "
                  "over exactly the files of that identity (upload version: over the approved names); after a complete "
                  "sequential run local.W.json lists each of W's files once, so its entries group exactly W's files. "
                  "The model is tied to the code by lock-step differential execution of "
                  "the extracted model against the real uploader whose 'os'/'net/http' imports are rewritten to yielding shims.",
    "level_note": "REFUTED clause (kept as C07_concurrent_whole_week_refuted + known finding subset_report): with three "
                  "concurrent uploaders in mode on, local.W.json can fold in a strict subset of the week's files; the positive "
                  "'none missed' statement is proved for the sequential case (any mode) and, for any number of concurrent "
                  "uploaders, when all run in mode local (C07_concurrent_whole_week_mode_local); uniqueness/immutability "
                  "(C07_concurrent_single_report_partial) and no-file-twice hold for any N in any mode; two concurrent "
                  "uploaders in mode on are covered by the suite's sweeps only. one_report_per_week has the premise that the ready-file names of the directory's OTHER weeks do not "
                  "contain W as a substring; C07_one_report_per_week_dates discharges it when the week strings are ten bytes long (years 0..9999, "
                  "proved in C09's date_roundtrip, not re-imported here). Count-file "
                  "contents are abstract (result of counter.Parse + span extraction: begin, end, program identity, counters); "
                  "report bodies are abstract (week, lastWeek, filtered?, list of count files folded, author); the program "
                  "identity of a count file is an id of its five-field tuple (assigned by the harness from the parsed "
                  "metadata: findProgReport's field-by-field comparison is checked by the suite, not modelled); the "
                  "canonical per-identity sums are proved to group by that id (Proofs/UploaderSums.v); the upload filter's "
                  "program / version / platform tests are C01's subject and appear only in the correspondence (every "
                  "build approved, a random subset of counters and stacks approved, sample rate 0). TimeEnd is assumed UTC (library "
                  "written files). Trusted: Coq kernel+VM, extraction, OCaml glue, Go harness, shims vos/vhttp/vsched.",
    "assumptions": [
        "the start time's zone enters the model as u_zone (seconds east of UTC): today = date of the start instant on that clock; weeks never depend on it",
        "os calls of internal/upload are atomic at the granularity of one call (the model's step); a directory listing is a snapshot",
        "counter.Parse and the RFC3339 span extraction are functions of the file content (their result is data of the model's count files; C06 covers Parse)",
        "count files carry UTC end times (the week string is the UTC date of the end instant)",
        "upload config: sample rate 0 and rate 1 per counter in the suite (the random X never gates); the X of a report stands for its author",
        "time.Time.Format/Parse behave as Lib/Calendar models them (C09)",
        "no file-system faults other than not-exist / exists in the theorems of Props/C07.v; the deletion clause under "
        "injected faults is C05's (C05_fault_delete_only_after_report, C05_fault_keeps_or_drops) and is sampled here by the "
        "second suite",
    ],
    "trusted_base": [],
    "own_objects": ["theories/Props/C07.vo", "theories/Proofs/UploaderSeq.vo", "theories/Proofs/UploaderEver.vo",
                    "theories/Proofs/UploaderData.vo", "theories/Proofs/UploaderFiles.vo", "theories/Proofs/UploaderIdem.vo", "theories/Proofs/UploaderNoDup.vo", "theories/Proofs/UploaderLocal.vo", "theories/Proofs/UploaderDates.vo",
                    "theories/Proofs/UploaderSums.vo", "theories/Proofs/UploaderGroups.vo"],
}
