from vcommon import Suite
from upload_common import rewrite_upload_imports

SPEC = {
    "id": "C07",
    "title": "Each expired counter file is folded into exactly one weekly report",
    "design_ref": "DESIGN.md section 7, C07",
    "suites": [
        Suite(name="upload", harness="vh_upload", runner="upload",
              model_deps=["theories/Model/Uploader.vo"],
              quick_n=700, thorough_n=12000, rewrite=rewrite_upload_imports, tags="verif",
              extra_args=["c07"],
              rule="each case is one scenario: a telemetry directory with count files written by the real counter "
                   "library (1-3 program builds x 1-3 weeks; active and expired; without counters; truncated, "
                   "damaged, random and empty files; same-week files with different begins; optional leftover "
                   "local/ready/uploaded reports, stale lock, stray and future-dated *.json; start times at "
                   "end-1s, end, end+1ns, end+1s, days and >21 days later; mode on/local with and without an as-of "
                   "date) and 1-3 real uploader.Run calls executed as threads of the deterministic scheduler, one "
                   "os/http call per step ('os' and 'net/http' of internal/upload rewritten to yielding shims in the "
                   "scratch copy): sequential runs (Run; Run), random and bounded-context-switch interleavings, and "
                   "the scripted three-uploader race. After every step local/ and upload/ (names, content classes, "
                   "report JSON canonicalised to per-program counter sums) and the server log are compared with the "
                   "model run on the same schedule; the C07 oracles are evaluated on the implementation's "
                   "observations. distinct = distinct case lines, all non-trivial"),
    ],
    "technique": "Coq inductive invariants over all interleavings of any number of uploader runs (transition system at "
                 "file-system/HTTP-call granularity, run histories for the deletion clause, a phase invariant for the "
                 "sequential post-condition) + lock-step differential execution of the extracted model against the "
                 "import-rewritten real uploader",
    "level_text": "TO BE FILLED",
    "level_note": "TO BE FILLED",
    "assumptions": [],
    "trusted_base": [],
    "own_objects": ["theories/Props/C07.vo", "theories/Proofs/UploaderSeq.vo", "theories/Proofs/UploaderEver.vo",
                    "theories/Proofs/UploaderData.vo", "theories/Proofs/UploaderFiles.vo", "theories/Proofs/UploaderIdem.vo"],
}
