from vcommon import Suite

SPEC = {
    "id": "C13",
    "title": "Merging and charting count every stored report exactly once",
    "design_ref": "DESIGN.md section 7, C13",
    "suites": [
        Suite(name="worker", harness="vh_worker", runner="worker", godev=True,
              model_deps=["theories/Model/Worker.vo"],
              quick_n=400, thorough_n=2400,
              rule="TODO"),
    ],
    "technique": "TODO",
    "level_text": "TODO",
    "level_note": "TODO",
    "assumptions": [],
    "trusted_base": [],
    "own_objects": ["theories/Props/C13.vo", "theories/Proofs/WorkerFacts.vo", "theories/Model/Worker.vo", "theories/Lib/Sort.vo"],
}
