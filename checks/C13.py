from vcommon import Suite

SPEC = {
    "id": "C13",
    "title": "Merging and charting count every stored report exactly once",
    "design_ref": "DESIGN.md section 7, C13",
    "suites": [
        Suite(name="worker", harness="vh_worker", runner="worker", godev=True,
              model_deps=["theories/Model/Worker.vo", "theories/Model/WorkerStore.vo"],
              quick_n=400, thorough_n=6000,
              rule="the harness is injected into package main of godev/cmd/worker (tag verif) and runs the REAL "
                   "handleMerge / readMergedReports / handleChart (parseDateRange, group, charts, partition, fileName) over "
                   "storage.FSBucket in a temp dir. Start dates: Jan-Mar 2024 month ends and leap day (60%), 25-31 December of "
                   "2023/2024/1999/2099/2100/2020 so that ranges cross New Year (30%), 1 January (10%); 3% of chart ranges and 8% "
                   "of copy ranges span 300-800 days. 20-30% of merge/chart/copy cases and half the seq cases put unlistable "
                   "stray directories (names that are not valid UTF-8, sorting before and after the dates) into the bucket. Request context: 30% of the /chart/ requests of the chart and seq cases run "
                   "under a request context that is cancelled, or past its deadline, before the request or once k objects have been "
                   "opened for reading (what middleware.Timeout and a client disconnect do). 18% of the live-context /chart/ requests are hit by a READ FAULT: the reader "
                   "of one merged object of the range (through the counting bucket wrapper) delivers k records, one short read per "
                   "record, and then fails with `connection reset by peer`. Bucket layout: each bucket directory (upload, merged, "
                   "chart, the copy source) is in 22% of the environments a symbolic link (absolute or relative target) to a real "
                   "directory elsewhere, the local storage directory itself in 10%; in 30% of the later seq rounds a bucket "
                   "directory is moved away and replaced by a link to it between two requests. What "
                   "is stored for a day is the harness's own record of what it wrote; the real listing only orders it. Per 20 slots: 5 merge cases (one day of 0-40 uploads, shuffled creation "
                   "order, pretty-printed / padded / trailing-garbage objects, 8% with one undecodable object, 6% of reports "
                   "64KiB..98KiB i.e. one merged line over bufio's 64KiB token, duplicate X incl. 0/-0/1e-320; observed: "
                   "status, count in the response, the merged object line by line decoded, the real read-back), 1 fd case (a day of 8-57 reports merged through buckets that count open readers/writers, with either a budget "
                   "of 1-6 simultaneously open upload readers (open fails with EMFILE beyond it) or the process's real "
                   "RLIMIT_NOFILE lowered to 6 descriptors above the highest one in use for the duration of the request; observed: "
                   "status, count, merged records, peak readers open at once, readers/writers and /proc/self/fd entries left open "
                   "after /merge/ and after a /chart/ of the day), 1 hand-made "
                   "merged object (blank lines, no final newline, junk, truncation), 10 chart cases (generated UploadConfig: "
                   "0-4 programs incl. cmd/ ones and duplicates, semver/go versions, counters a:{b,c} incl. names colliding "
                   "with GOOS/Version, 8% with a GoVersion goMajorMinor used to panic on (go1, g, empty: fixed by 48ba0d4); 1-8 days crossing month ends, 0-40 reports "
                   "a day via the real merge, 18% with one day missing; observed: status, object name, the chart JSON in the "
                   "order written, and whether re-running and re-shuffling the same set of reports over the days gives the "
                   "byte-identical object; 8 of the 10 slots), 2 seq cases (SEQUENCES on one set of buckets: 1-6 small reports "
                   "per day stored, each day merged, the range charted, then in 1-2 further rounds stored reports withdrawn / "
                   "re-stored under the same name with a shorter or arbitrary body / added, each day merged AGAIN and the "
                   "range charted AGAIN with nothing removed in between, so merged and chart objects are rewritten in place, "
                   "mostly with shorter content; observed after every merge: status, count, listing, the merged object's "
                   "bytes and its decoding as a stream of reports, the real read-back; after every chart: status and the "
                   "chart object parsed), 1 end<start range + 1 copy case (real handleCopy from an FS source bucket into the upload bucket, objects in, "
                   "just before and just after the range, destination objects already present, the whole destination observed),  3 goMajorMinor strings, 2 splitCounterName/Expand/"
                   "IsToolchainProgram strings. semver.Compare/version.Compare enter the model as rank tables of the case's "
                   "keys computed with the real comparators. distinct = distinct case lines; a merge case of an empty day is "
                   "the only kind counted trivial"),
    ],
    "technique": "Coq proof (loop invariant of partition over arbitrary permutation-valued iteration orders; set-based "
                 "specification; uniqueness of the sorted permutation) + translator-generated constants + differential "
                 "correspondence of the extracted model against the real handlers, with the specification evaluated as "
                 "oracle on the implementation's chart object",
    "level_text": "Machine-checked theorems over the Gallina model of godev/cmd/worker, for all inputs with no size bound: "
                  "merge writes one line per stored object and read_merged returns all of them for every JSON codec meeting "
                  "three stated premises; NumReports = number of reports merged in the range; every datum's value = number of "
                  "distinct X among the reports having a program report of that program that carries a configured bucket "
                  "normalising to the key (independent membership-only specification, proved equivalent to the executable "
                  "oracle chart_ok); which data/charts are present, their week and order; the chart object is the same for all "
                  "after any history of uploads, withdrawals, re-uploads, merges and charts a re-merge leaves exactly the "
                  "currently stored reports in the day's merged object (writing an object replaces it) and the chart made "
                  "from it counts exactly those; permutation-valued map iteration orders, all sort.Slice implementations meeting its contract, all orders "
                  "of the stored reports within and across the days of the range; a missing day gives no chart (not found). "
                  "charts()/handleChart never panic, for ALL configurations, reports, orders and comparators (no premise; "
                  "finding 16 fixed by 48ba0d4, the former refuted theorem is now this totality theorem). The other chart "
                  "theorems hold for every configuration, under the premises on the two library comparators only (cfg_ok). "
                  "The model is tied to the code by differential execution of the extracted model against the real handlers.",
    "level_note": "Trusted: Coq kernel+VM, extraction (ExtrOcamlBasic), OCaml glue, the injected Go harness and generators. "
                  "NOT modelled, premises of the theorems instead: encoding/json (enc/dec with: no raw newline in an encoding, "
                  "never empty, dec(enc r)=Some r), semver.Compare (total preorder => compareSemver strict total, proved), "
                  "go/version.Compare (assumed a strict total order on the normalised goN.M keys of the configuration; the "
                  "runner checks on every case that the real comparators rank the case's distinct keys strictly), sort.Slice "
                  "(assumed: returns a permutation, sorted when less is a strict total order on the distinct keys), Go map "
                  "iteration (assumed: some permutation). Dates are day numbers (Lib/Calendar formats them); parseDateRange's "
                  "parsing of the URL is only exercised (end<start is modelled). Report fields not used by charts (LastWeek, "
                  "Config, Stacks, counter values) are outside the model; the merge oracle compares them by reflect.DeepEqual "
                  "in the harness. Large days (over 6000 bytes) are compared structurally (line count, line lengths, decoded "
                  "projections), small days byte for byte against frame/unframe/merge/read_merged. A partial merged object "
                  "left by a failing merge, and nil *ProgramReport entries, are modelled/exercised only as far as stated.",
    "assumptions": [
        "encoding/json: an encoded report holds no raw newline, is not empty, and decodes to the same report (premises of C13_merge_one_line_per_object / C13_read_all; sampled by the merge cases)",
        "semver.Compare is a total preorder (then compareSemver is a strict total order: C13_compare_semver_order); version.Compare is a strict total order on the normalised go versions of the configuration (checked per case on the rank tables)",
        "sort.Slice returns a permutation of its input which is sorted whenever less is a strict total order on the distinct keys; ranging over a Go map visits every key exactly once in some order",
        "read faults: injected through the bucket wrapper on a merged object (handle_chart_fault: the day reads as an error, fix 0ab09db); faults on upload objects during /merge/ and on writes are not injected",
        "request context: the file-system store ignores it (handle_chart_ctx = handle_chart); the GCS store, whose readers fail once the context is done, is not exercised",
        "descriptors: an open upload reader costs one descriptor; merge_fd models NewReader failing when none is free (EMFILE); the budget of the counting bucket applies to upload readers only",
        "storage: an object write (NewWriter, Write, Close) replaces the object (b_put); FSBucket is exercised against that model incl. rewrites with shorter content; the GCS bucket is not; the listing order of Objects(prefix) is a parameter (observed per merge)",
    ],
    "trusted_base": [],
    "own_objects": ["theories/Props/C13.vo", "theories/Proofs/WorkerStoreFacts.vo", "theories/Model/WorkerStore.vo",
                    "theories/Proofs/WorkerProps.vo", "theories/Proofs/WorkerOracle.vo",
                    "theories/Proofs/WorkerChart.vo", "theories/Proofs/WorkerSpec.vo", "theories/Proofs/WorkerFacts.vo",
                    "theories/Model/Worker.vo", "theories/Lib/Sort.vo"],
}
