from vcommon import Suite

SPEC = {
    "id": "C18",
    "title": "Storage buckets confine, round-trip and list objects correctly",
    "design_ref": "DESIGN.md section 7, C18",
    "suites": [
        Suite(name="bucket", harness="vh_bucket", runner="bucket", godev=True,
              model_deps=["theories/Model/Bucket.vo"],
              quick_n=600, thorough_n=12000,
              rule="stub"),
    ],
    "technique": "stub",
    "level_text": "stub",
    "level_note": "stub",
    "assumptions": [],
    "trusted_base": [],
    "own_objects": ["theories/Props/C18.vo", "theories/Proofs/BucketFacts.vo", "theories/Model/Bucket.vo"],
}
