from vcommon import Suite

SPEC = {
    "id": "C18",
    "title": "Storage buckets confine, round-trip and list objects correctly",
    "design_ref": "DESIGN.md section 7, C18",
    "suites": [
        Suite(name="bucket", harness="vh_bucket", runner="bucket", godev=True,
              model_deps=["theories/Model/Bucket.vo"],
              quick_n=600, thorough_n=12000,
              rule="cases: buckets are opened through the public constructors (storage.NewBucket / NewAPI with cfg.LocalStorage); in 5/7 of the operation sequences the storage root is spelled RELATIVE to the working directory (store, ./store, ../<base>/store, store/, store/../store; the services' default is the relative .localstorage). 50% random sequences of 4..35 operations (write, read, list, storage.Copy inside the bucket followed by a "
                   "read of the destination and, 75%, by overwrites and reads of BOTH names; writers as handles: NewWriter / Write.. / Close with "
                   "a double Close (as every service handler does), writes after Close, then TWO writers open at the same time on "
                   "different objects with interleaved writes, then reads of all of them; copies onto an existing object, onto "
                   "itself, from absent or colliding names; bursts that put a sibling d-x / d.json / 'd x' next to a directory d and "
                   "list the prefixes selecting only the sibling) on the REAL "
                   "storage.FSBucket in a fresh temporary directory: names of 1..4 ordinary components from a small pool "
                   "(shared prefixes, 'a/b' vs 'a-b' vs 'a.b', dots, spaces, backslash, non-UTF-8 bytes), 45% derived from an "
                   "earlier name (overwrite, child of an object, ancestor directory of an object, sibling, string-prefix only), "
                   "contents empty / JSON / random, listing prefixes cut anywhere (also inside a component); observed: every "
                   "result, the whole directory tree below the bucket directory with contents, and a before/after snapshot of "
                   "the parent directories (sentinel files, a neighbouring bucket). Listings use a live context (3/7) or one that is "
                   "already cancelled, past its deadline, cancelled after k consultations of Err() (mid-walk), or cancelled by the "
                   "consumer after the first name; observed: names and whether the iterator surfaced an error. 10% multi-bucket "
                   "cases: the three bucket names of NewAPI under TWO storage roots in one process, 8..37 interleaved "
                   "operations on shared object names, handles re-opened through NewBucket, all six trees and the rest of the "
                   "parent directory observed. 20% path construction of ordinary and "
                   "hostile names ('..', '.', empty components) through the real FSObject.Filename. 20% service names "
                   "(upload Week/%g.json with hostile and valid weeks and boundary X values, merge, chart) with the real "
                   "fmt %g, time.Parse and time.Format. distinct = distinct case lines; every case compares implementation "
                   "observables with the model and evaluates the strict map specification on them, none is trivial"),
    ],
    "technique": "Coq proof (simulation between a model of the directory tree and a sorted association list, by "
                 "induction over operation lists with four tree invariants) + differential correspondence of the "
                 "extracted model against the real FSBucket + the strict map specification evaluated on the real results",
    "level_text": "Machine-checked: for ALL sequences of writes, overwrites, reads and prefix listings the tree model of "
                  "FSBucket (MkdirAll/Create/Open/WalkDir over a path->file|dir map) returns exactly the results of an "
                  "association list path->bytes, its regular files ARE that list, a refused write leaves the whole tree "
                  "unchanged, a write is refused exactly on a file/directory collision, write-then-read returns the bytes, "
                  "other objects are unaffected, every absent object reports not-exist (also names that are ancestors or "
                  "descendants of stored names, fix 8c1d2a3), the listing is "
                  "the stored names with the STRING prefix in component-wise lexicographic (walk) order without duplicates, "
                  "storage.Copy between different names is write(dst, read(src)) and leaves two independent objects, "
                  "histories with writer handles (several open at once, closed twice, written after Close) refine the list in "
                  "which an open writer appends to its own object only (discipline: nothing else stores to an object while a "
                  "writer is open on it), "
                  "a listing is complete and error-free whatever the state of the caller's context (complete-or-error oracle), "
                  "buckets identified by (storage root, name) do not interfere in any interleaving (each answers as if its own "
                  "operations ran alone), "
                  "names of ordinary components resolve to exactly their components below the bucket directory, and the "
                  "upload (Week/X.json), merge (date.json) and chart (date.json, start_end.json) names are such names for "
                  "every week accepted by the strict date parser and every %g rendering over [0-9eE+-.]. One deviation of "
                  "the real code from the property is proved as C18_list_exact_refuted, reproduced on the real code by the "
                  "suite and listed as a known finding.",
    "level_note": "Known finding (real code, see KNOWN_FINDINGS.txt): "
                  "list-below-non-utf8-dir (objects below a directory whose name is not valid UTF-8 are never listed; the "
                  "walk error is dropped). The positive listing theorems exclude exactly this class (executable predicates "
                  "`deviating` / `walkable`). The former finding read-absent-colliding is fixed in /repo (8c1d2a3): the "
                  "oracle class is an ordinary violation again. Not modelled: names with empty, '.' or '..' components (outside "
                  "the property; the model only says where they resolve: C18_name_resolves_inside / example Escapes), "
                  "permissions, disk errors, concurrent writers, partial writes (os.Create truncates before the new content "
                  "is written: a reader can observe an empty or partial object; no temp-file+rename), the GCS backend, "
                  "names longer than the file system allows, NUL bytes. FromSlash/ToSlash are the identity on Linux "
                  "(separator '/'), which is the only platform exercised. Trusted: Coq kernel+VM, extraction, OCaml glue, "
                  "Go harness.",
    "assumptions": [
        "the %g rendering of a finite float is a non-empty string over [0-9eE+-.] (hypothesis g_string of "
        "C18_service_names_inside_upload; checked by the suite on real renderings incl. denormals, 1e21, MaxFloat64)",
        "time.Parse(DateOnly) accepts exactly what Lib/Calendar.parse_date accepts (compared by the suite on valid, "
        "damaged and hostile week strings)",
        "file-system semantics of MkdirAll/Create/Open/ReadDir as modelled (compared by the suite on the real file "
        "system: results and the complete resulting tree)",
        "single writer, no I/O errors, Linux path separator",
    ],
    "trusted_base": [],
    "own_objects": ["theories/Props/C18.vo", "theories/Proofs/BucketFacts.vo", "theories/Proofs/SortedMapFacts.vo",
                    "theories/Model/Bucket.vo", "theories/Lib/SortedMap.vo"],
}
