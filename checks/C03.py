from vcommon import Suite
import coqreplay


def rewrite_counter_imports(dst):
    """In the scratch copy only: route sync/atomic and sync of internal/counter
    through the yielding shims (import lines only; no other line changes)."""
    d = dst / "internal" / "counter"
    for p in d.glob("*.go"):
        if p.name.endswith("_test.go"):
            continue
        t = p.read_text()
        t2 = t.replace('\t"sync/atomic"\n', '\tatomic "golang.org/x/telemetry/internal/verifh/shim/vatomic"\n')
        t2 = t2.replace('\t"sync"\n', '\tsync "golang.org/x/telemetry/internal/verifh/shim/vsync"\n')
        if t2 != t:
            p.write_text(t2)


SPEC = {
    "id": "C03",
    "title": "Concurrent increments are counted exactly once and never crash the program",
    "design_ref": "DESIGN.md section 7, C03",
    "suites": [
        Suite(name="conc", harness="vh_conc", runner="conc",
              model_deps=["theories/Model/CounterConc.vo", "theories/Model/CounterMulti.vo"],
              quick_n=400, thorough_n=12000, rewrite=rewrite_counter_imports, tags="verif,verifconc", coq_replay=coqreplay.conc,
              rule="each case is one scenario: 2-4 goroutines calling the real Counter.Add on one counter, plus "
                   "0-2 mapping changers (first open / rotation via the real rotate1, growth via the real "
                   "newCounter1 extension by another counter, or - scenario grow - a first page filled so that the counter's OWN first "
                   "lookup extends the file from inside releaseLock), executed one atomic operation per step under the deterministic "
                   "scheduler on a random schedule biased to switch at CAS points; after every model-visible step "
                   "the state word, pointer, current mapping, persisted total and closed mappings are compared "
                   "with the model run on the same schedule. distinct = distinct scenario+schedule+observation "
                   "lines; all are non-trivial (>= 2 threads). Scenario mix: a rotation and one or two lookups of other (large) counters, "
                   "of which the first one in a tight file extends it. Every 8th case, and every schedule with <= 1 (thorough: 2) forced "
                   "context switches of four small configurations, is a MULTI-counter scenario (kind multi: 2-4 real counters with "
                   "pending values, 0-2 fresh counters whose first Add - registration included - races with the first open of an "
                   "existing counter file whose first page may be full, so that a lookup extends the file and the cleanup walks all "
                   "counters): Model/CounterMulti runs in LOCK STEP, one model step per scheduler step (no step is filtered), and "
                   "after EVERY step every counter's state word, pointer and persisted value, the current mapping and the number of "
                   "closed mappings are compared; a set self-check flag of the model is a DIFF; the oracles hang / panic / instant "
                   "(per counter) / quiescent stay"),
        Suite(name="reg", harness="vh_reg", runner="reg",
              model_deps=["theories/Model/Register.vo"],
              quick_n=300, thorough_n=5000, rewrite=rewrite_counter_imports, tags="verif,verifconc",
              rule="each case: 2-5 goroutines calling the real file.register on 1-3 counters (several may register "
                   "the same counter) under the deterministic scheduler, one atomic operation per step, on a random "
                   "schedule, plus every schedule with <= 2 (thorough: 3) forced context switches of four fixed "
                   "configurations; head and every next pointer compared with Model/Register after every step"),
    ],
    "technique": "Coq inductive invariant over all schedules of any number of threads (transition system at "
                 "atomic-operation granularity) + lock-step differential execution of the extracted model against "
                 "the import-rewritten real code under a deterministic scheduler",
    "level_text": "Machine-checked inductive invariant of the transition system of one counter (state word, pointer, "
                  "current mapping, persisted cells) at the granularity of individual atomic operations, for ANY number "
                  "of goroutines, ANY amounts and ANY schedule: reader/lock counting (the reader field never under- or "
                  "overflows), conservation of amounts (upper bound at every instant, exact total at quiescence), no "
                  "nil-pointer dereference, and 'nothing remains unpersisted once a file is open and all calls returned' (an obligation-passing invariant: stale pointer => a changer is still invalidating; pending extra => a lock holder, a draining reader, or a pending changer exists). The model is tied to the code by running the import-rewritten real "
                  "internal/counter under a deterministic scheduler in lock step with the extracted model.",
    "level_note": "Trusted: Coq kernel+VM, extraction, OCaml glue, the scheduler/atomic/mutex shims (they define what "
                  "one atomic step is; sequential consistency, which sync/atomic guarantees), the import rewrite of "
                  "the scratch copy, the harness. Modelled not verified: in the SINGLE-counter word protocol the counter is pre-registered (the lock-free "
                  "registration list has its own model, theorems and lock-step suite), critical sections under file.mu are one step, the file-level protocol "
                  "inside lookup (C04), timers. SEVERAL counters (property text: 'shared and distinct counters'): Model/CounterMulti is the transition system of N counters of one file object "
                  "- Add including file.register and the registrar's invalidate+refresh (f518e0b), rotate1, invalidateCounters' walk over every registered counter, the nested walk of an inline extension - whose per-counter work IS step_thread of the single-counter model on that counter's view; "
                  "C03_multi_step_projects proves that every multi step is, for every counter, a stutter, one single-counter step, or one of two registration transitions (the claimer takes on its redo; a walk drops a counter that is not on the list it loaded), "
                  "C03_multi_invariant that the single-counter invariant therefore holds of every counter's view along every multi schedule - including the window in which a counter is claimed but not yet linked, where the claimer's pending redo answers for the counter the walk missed - and "
                  "C03_multi_upper_bound / _exact_at_quiescence / _no_nil_deref are its corollaries. These multi theorems carry two hypotheses on the FINAL state of the run: ms_bad = false (envelope: no thread's lookups extend the file twice; no Add extends the file on a counter another goroutine is still registering - there the own invalidate is skipped and the invariant's clause 'the grower holds the lock with havePtr clear' is false) and ms_chk = false (run-time self checks of the multi-level control - embedded threads where the walk expects them). PARTIAL (Proofs/CounterMultiCtl.v): for systems in which no lookup extends the file (`nogrow`: file not full, every rotation a changerM NewFile; they include the f518e0b registration race with any number of goroutines per fresh counter and any number of rotations) the control invariant GI - program points of the embedded threads along the walk, list lengths, focus on a claimed counter, quiet embedded threads on return, ONE linker per claimed counter hence a duplicate-free registration list - is proved inductive (C03_multi_control_invariant_partial), so NO schedule sets ms_chk or ms_bad (C03_multi_flags_clear_partial) and C03_multi_invariant_partial / _upper_bound_partial / _exact_at_quiescence_partial / _no_nil_deref_partial / _step_projects_partial carry no hypothesis on the flags; PARTIAL 2 (Proofs/CounterMultiCtl2.v): with full files and changerM FullFile admitted the same invariant holds, and no flag is set, UP TO THE FIRST INLINE EXTENSION of every run (C03_multi_flags_clear_partial2 / C03_multi_invariant_partial2: hypothesis has_grown = false on the final state; m_grown is monotone); GENERAL (Proofs/CounterMultiCtl3.v): with the second walk level in the invariant - T3 of a thread = CIb of its base view (control popped, own embedded thread replaced by a stand-in at LCas) + wstate over the virtual family of the nested walk (m_nest j, or the own thread with its G program points mapped to IvLoad/IvCas/RfLoad/CClose) - every step of a thread preserves T3 and passes every self check or sets ms_bad (thread_step3), GI3 over the thread list is inductive (C03_multi_control_invariant), hence the self checks NEVER fail along a run that stays inside the envelope (C03_multi_self_check_never_fails: ms_bad = false -> ms_chk = false, for every ctl_init system: full files and changerM FullFile included) and C03_multi_invariant / _upper_bound / _exact_at_quiescence / _no_nil_deref / _step_projects carry ms_bad = false as their ONLY flag hypothesis (the versions with both flags, for arbitrary states, are the *_with_flags theorems); ms_bad is characterised exactly (C03_multi_bad_set_exactly_by: it is set by a step that extends the file although this thread's lookups extended it before, or by the head load of a nested walk that does not find the extending counter on the list - an Add on a counter another goroutine is still registering - and by no other step); C03_multi_example_open_of_full_file: the hypotheses hold of the first open of a full file, and the run with the opener's inline extension ends with both flags clear; the lock-step still reports a set ms_chk as a DIFF. "
                  "The multi scenarios of suite conc run in lock step against the extracted CounterMulti; changers SameFile / NoFile at the multi level and a third nesting level are not modelled. The extension of the file from inside a lock holder's own lookup IS modelled (LLook2 with s_full: "
                  "store of the new mapping, inline invalidate / refresh / close, assignment of the returned pointer; C03_grower_must_look_up_again); "
                  "the same extension by a CHANGER's own refresh-lookup (first open - target FullFile - of an existing file without room, by a process with pending increments) is modelled too (t_prev2: the mapping a thread's own lookup replaced; lock-step scenario openfull); "
                  "a second, nested extension inside the refresh of that cleanup is not (a file that was just extended has room). 'no fault' is refuted "
                  "(known finding use-after-unmap) and characterised exactly (C03_no_entry_through_closed_mapping); 'waits forever' is proved as obstruction freedom (C03_no_call_waits: a call running alone returns within a bounded number of its own steps from every reachable state); starvation under an adversarial scheduler that keeps making other goroutines succeed is not excluded (lock-free, not wait-free).",
    "assumptions": [
        "sequentially consistent atomics (sync/atomic); fewer than 2^30-1 goroutines inside Add at once",
        "file.lookup succeeds when a file is mapped (lookup failures are C05's domain)",
        "in the single-counter model the counter is registered before the concurrent phase; registration racing with the first "
        "open is covered by Model/Register, C03_register_returned_means_listed_or_claimed, and by Model/CounterMulti "
        "(C03_multi_invariant; lock-step of the multi scenarios, which - then oracle-only - found the defect repaired by fix f518e0b); "
        "critical sections under file.mu are atomic steps; the multi theorems assume the final flags ms_bad = ms_chk = false",
    ],
    "trusted_base": [],
    "own_objects": ["theories/Props/C03.vo", "theories/Proofs/CounterThms.vo", "theories/Proofs/CounterInv.vo", "theories/Proofs/CounterWord.vo", "theories/Proofs/CounterFault.vo", "theories/Proofs/CounterProgress.vo", "theories/Proofs/RegisterFacts.vo", "theories/Proofs/GoFnsCounter.vo", "theories/Proofs/CounterMultiFacts.vo", "theories/Proofs/CounterMultiCtl.vo", "theories/Proofs/CounterMultiCtl2.vo", "theories/Proofs/CounterMultiCtl3.vo", "theories/Model/CounterMulti.vo"],
}
