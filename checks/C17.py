from vcommon import Suite

SPEC = {
    "id": "C17",
    "title": "Chart configuration parsing and upload-config generation are faithful",
    "design_ref": "DESIGN.md section 7, C17",
    "suites": [
        Suite(name="chartcfg", harness="vh_chartcfg", runner="chartcfg",
              model_deps=["theories/Model/ChartCfg.vo", "theories/Model/ConfigGen.vo"],
              quick_n=40000, thorough_n=300000,
              rule="cases: sessions (30 + n/400): 2-3 generate() calls in ONE child process through the REAL listProxyVersions path "
                   "(no versionsForTesting hook; a fake `go` first on PATH answers `go list -m --versions` from the session's "
                   "mirror table), 1-2 modules each shared by 2-3 programs with different minimum versions, records of the "
                   "programs in varying order, same records with other paddings as main() does, each call compared with the "
                   "model on the mirror table and checked for duplicates / wanted versions; key table by reflection (1); 25 valid record sets with ONE physical line of 65535, 65536, 65537, "
                   "65538..95537 and one of 4095..65534 bytes, in each of five shapes (long plain value, bucket list on one line, "
                   "long comment after a value, long comment line, one long bucket in a one-per-line list); record sets rendered by the harness's own renderer, compared byte for "
                   "byte with the model's render, parsed by the real chartconfig.Parse (40%: 0-6 records, every field "
                   "optional, repeated issue, bucket lists on one line or one per line, random blanks/comments/filler "
                   "lines/empty records, values / bucket names / comments with a carriage return or another space or control "
                   "character strictly inside (CR, TAB, VT, FF, NEL, NBSP, U+2028, U+3000, NUL, ESC, DEL, BOM, stray UTF-8 lead bytes), "
                   "int64 boundary depths, float bit patterns incl. -0/Inf/NaN, a few deliberately "
                   "invalid values and layouts); structured malformed texts (25%: valid renderings mutated by "
                   "catalogue lines covering every error of Parse, duplicated/deleted/swapped lines, byte edits, CRLF); "
                   "random token soup (10%); real generate via a child process of package main built with -tags verif "
                   "(15%: 1-4 toolchain/module programs, 1-8 records, go1.N and vX.Y.Z minimums, invalid records, "
                   "invalid proxy versions, missing paddings, unparsable toolchain version; plus the fixed record set "
                   "cmd/go with minimums go1.23, go1.21); real padVersions (10%: random version lists, patterns, "
                   "paddings incl. negative, components near and beyond int64). distinct = distinct case lines; every "
                   "case compares implementation observables with the model, none is trivial"),
    ],
    "technique": "Coq proof (structural induction over lines / records / version lists; invariant of the grouping loop) "
                 "+ differential correspondence of the extracted model against the real Parse, generate and padVersions, "
                 "with executable property oracles evaluated on the implementation's outputs",
    "level_text": "Machine-checked theorems over the Gallina model of chartconfig.Parse (the line state machine of "
                  "load.go), of a renderer of the documented syntax, and of configgen's generate/minVersion/padVersions: "
                  "parse is total (structural recursion); parse(render items) = Ok records for EVERY list of valid "
                  "records and every valid layout (blanks, comments, filler lines, empty records, one-line or "
                  "one-bucket-per-line counters, repeated issue, every field optional); generate lists every record's "
                  "counter expression under its program, in Stacks iff depth > 0, and nothing else; versions of a "
                  "toolchain program = exactly the valid known Go versions not older than the least minimum of its "
                  "records, of a module program = the padded list of such proxy versions; padded lists are supersets, "
                  "sorted and duplicate-free. Unbounded sizes; no axioms.",
    "level_note": "FINDING (known: class pad-panic): padVersions is partial - it panics when the latest release has a component above the int range (valid semver v9223372036854775808.0.0; theorem C17_pad_total_refuted, C17_pad_defined_iff names the class); pad_superset/sorted/nodup are about the lists that are produced. Oracles are theorem premises, not axioms: strconv.ParseFloat/FormatFloat (the record must survive "
                  "them, which excludes only NaNs with a non-canonical payload), go/version and semver IsValid/Compare "
                  "(total preorder: transitive, total; antisymmetric for sortedness), semver.Canonical fixes "
                  "vX.Y.Z and vX.Y.Z-<pattern> (for pad_nodup). strconv.ParseInt(s,10,64) and TrimSpace/TrimRightFunc "
                  "are modelled concretely (Lib/Bytes.trim_space) and validated by the suite only. pad_nodup assumes "
                  "padding counts below 2^64; the model of padVersions uses unbounded naturals, so it equals the Go code "
                  "only while version components plus paddings stay below 2^63 (the harness stays in that class; beyond "
                  "int64 the model predicts the observed panic). goVersions() (regexp over toolchain module versions) is "
                  "not modelled: the known Go versions are taken from the produced configuration and only compared as a "
                  "set with what was fed. GOOS/GOARCH/SampleRate of the configuration and main()'s write/contains logic "
                  "are outside the property. Error order when several programs fail is map-order dependent in Go and "
                  "not compared beyond ok/error/panic. The test hook versionsForTesting is filtered in place by "
                  "generate, so in the hook-based gen cases the harness gives every module program its own module path; "
                  "shared modules and repeated calls go through the real `go list` path (sgen cases), where each call gets a "
                  "fresh list. Trusted: Coq kernel+VM, "
                  "extraction, OCaml glue (incl. the oracle tables), Go harness and its generators.",
    "assumptions": [
        "strconv.ParseFloat / FormatFloat: answers supplied per case by the harness (oracle table); theorem premise float_ok",
        "go/version.IsValid/Compare and semver.IsValid/Compare/Canonical/Prerelease: answers supplied per case by the harness "
        "as validity flags and ranks of a total preorder; theorem premises: transitive, total, antisymmetric",
        "strings.TrimSpace / TrimRightFunc(unicode.IsSpace) behave as Lib/Bytes.trim_space / Lib/Text.trim_right_space (sampled); "
        "the model calls the linear-time twins ftrim_space / fhas_suffix, proved equal to the Lib/Bytes functions",
        "Go's map iteration order does not matter for the key match (proved: at most one key matches) nor for the programs (sorted by name afterwards)",
        "no int overflow in padVersions: version components + paddings < 2^63",
    ],
    "trusted_base": [],
    "own_objects": ["theories/Props/C17.vo", "theories/Proofs/ChartCfgFacts.vo", "theories/Proofs/ConfigGenFacts.vo",
                    "theories/Model/ChartCfg.vo", "theories/Model/ConfigGen.vo", "theories/Lib/Text.vo"],
}
