//go:build verif

package upload

// Exporter for the C01/C11 harnesses: the report-building phase of a run
// (findWork + reports, i.e. createReport for every expired week) without the
// HTTP phase.  Adds no behaviour.

func (v *VerifUploader) Reports() ([]string, error) {
	todo := v.u.findWork()
	return v.u.reports(&todo)
}
