//go:build verif

package upload

// Exporters for the verification harnesses: build an uploader directly from
// a given configuration (no config download), and run its phases.

import (
	"io"
	"log"
	"time"

	"golang.org/x/telemetry/internal/telemetry"
)

type VerifUploader struct{ u *uploader }

func VerifNewUploader(dir, url string, start time.Time, cfg *telemetry.UploadConfig, cfgVersion string, logw io.Writer) *VerifUploader {
	if logw == nil {
		logw = io.Discard
	}
	if cfg == nil {
		cfg = &telemetry.UploadConfig{}
	}
	return &VerifUploader{&uploader{
		config:          cfg,
		configVersion:   cfgVersion,
		dir:             telemetry.NewDir(dir),
		uploadServerURL: url,
		startTime:       start,
		logger:          log.New(logw, "", 0),
	}}
}

func (v *VerifUploader) Run() error { return v.u.Run() }
