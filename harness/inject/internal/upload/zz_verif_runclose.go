//go:build verif

package upload

// Exporter for the uploader harness (vh_upload): what the exported Run does
// with an uploader once it has one - Run, then Close (deferred) - so that the
// end of a run is observed too.  Adds no behaviour.

func (v *VerifUploader) RunAndClose() error {
	defer v.u.Close()
	return v.u.Run()
}
