//go:build verif

package crashmonitor

// Exporters for the vh_crash harness (C14): access to the unexported
// functions that turn a crash report into a counter name.  No behaviour added.

import "io"

func VerifTelemetryCounterName(crash []byte) (string, error) { return telemetryCounterName(crash) }
func VerifParseStackPCs(crash string) ([]uintptr, error)      { return parseStackPCs(crash) }
func VerifSentinel() uint64                                   { return sentinel() }
func VerifWriteSentinel(w io.Writer)                          { writeSentinel(w) }

// VerifSetChildHooks replaces what Child does with the name it derived
// (incrementCounter) and its exit hook, as the package's own tests do.
func VerifSetChildHooks(inc func(name string), exit func()) {
	incrementCounter = inc
	childExitHook = exit
}
