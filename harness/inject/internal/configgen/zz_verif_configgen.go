//go:build verif && go1.22

package main

// Verification entry point (copied into a scratch copy of the repository;
// never part of /repo).  Package main cannot be imported, so the
// correspondence harness vh_chartcfg builds this package with -tags verif and
// runs it with VERIF_HARNESS=configgen: init() then answers the requests in
// $VERIF_REQ with the REAL generate and padVersions and exits before main().
// It adds no behaviour otherwise.

import (
	"encoding/json"
	"fmt"
	"os"

	"golang.org/x/telemetry/internal/chartconfig"
)

type verifGenReq struct {
	Records   []chartconfig.ChartConfig
	Toolchain []string            // versions of golang.org/toolchain
	Proxy     map[string][]string // module -> versions
	Paddings  map[string][5]int   // program -> releases, maj, majmin, patch, pre
	// NoHook: leave versionsForTesting unset, so that generate goes through the
	// real listProxyVersions path (`go list -m --versions`, answered by a fake
	// `go` that the harness puts first on PATH). All requests of one process
	// then share whatever state that path keeps, as the two generate calls of
	// main() do.
	NoHook bool
}
type verifPadReq struct {
	Versions []string
	Patterns []string
	Padding  [5]int
}
type verifReq struct {
	Gen []verifGenReq
	Pad []verifPadReq
}
type verifCounter struct {
	Name      string
	RateIsOne bool
	Depth     int
}
type verifProgram struct {
	Name     string
	Versions []string
	Counters []verifCounter
	Stacks   []verifCounter
}
type verifGenResp struct {
	Status    string // ok, err, panic
	Detail    string
	GoVersion []string
	Programs  []verifProgram
}
type verifPadResp struct {
	Status string // ok, panic
	Out    []string
}
type verifResp struct {
	Gen []verifGenResp
	Pad []verifPadResp
}

func verifPadding(a [5]int) padding {
	return padding{releases: a[0], maj: a[1], majmin: a[2], patch: a[3], pre: a[4]}
}

func verifGen(q verifGenReq) (r verifGenResp) {
	defer func() {
		if e := recover(); e != nil {
			r = verifGenResp{Status: "panic", Detail: fmt.Sprint(e)}
		}
	}()
	if q.NoHook {
		versionsForTesting = nil
	} else {
		// fresh slices on every call: generate filters the proxy list in place
		vt := map[string][]string{"golang.org/toolchain": append([]string(nil), q.Toolchain...)}
		for m, vs := range q.Proxy {
			vt[m] = append([]string(nil), vs...)
		}
		versionsForTesting = vt
	}
	pads := map[string]padding{}
	for p, a := range q.Paddings {
		pads[p] = verifPadding(a)
	}
	cfg, err := generate(q.Records, pads)
	if err != nil {
		return verifGenResp{Status: "err", Detail: err.Error()}
	}
	r.Status = "ok"
	r.GoVersion = cfg.GoVersion
	for _, p := range cfg.Programs {
		vp := verifProgram{Name: p.Name, Versions: p.Versions}
		for _, c := range p.Counters {
			vp.Counters = append(vp.Counters, verifCounter{c.Name, c.Rate == 1.0, c.Depth})
		}
		for _, c := range p.Stacks {
			vp.Stacks = append(vp.Stacks, verifCounter{c.Name, c.Rate == 1.0, c.Depth})
		}
		r.Programs = append(r.Programs, vp)
	}
	return r
}

func verifPad(q verifPadReq) (r verifPadResp) {
	defer func() {
		if e := recover(); e != nil {
			r = verifPadResp{Status: "panic"}
		}
	}()
	in := append([]string(nil), q.Versions...)
	out := padVersions(in, q.Patterns, verifPadding(q.Padding))
	return verifPadResp{Status: "ok", Out: out}
}

func init() {
	if os.Getenv("VERIF_HARNESS") != "configgen" {
		return
	}
	data, err := os.ReadFile(os.Getenv("VERIF_REQ"))
	if err != nil {
		fmt.Fprintln(os.Stderr, err)
		os.Exit(2)
	}
	var req verifReq
	if err := json.Unmarshal(data, &req); err != nil {
		fmt.Fprintln(os.Stderr, err)
		os.Exit(2)
	}
	var resp verifResp
	for _, q := range req.Gen {
		resp.Gen = append(resp.Gen, verifGen(q))
	}
	for _, q := range req.Pad {
		resp.Pad = append(resp.Pad, verifPad(q))
	}
	out, _ := json.Marshal(resp)
	if err := os.WriteFile(os.Getenv("VERIF_RESP"), out, 0666); err != nil {
		fmt.Fprintln(os.Stderr, err)
		os.Exit(2)
	}
	os.Exit(0)
}
