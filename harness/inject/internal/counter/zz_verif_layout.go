//go:build verif

package counter

// Exporters for the C10/C06 harnesses (vh_layout, vh_parse): access to the
// unexported mappedFile API. They add no behaviour.

import (
	"encoding/binary"
	"fmt"
	"os"
	"path/filepath"
	"strings"
	"sync/atomic"
	"unsafe"
)

type VerifMapped struct{ m *mappedFile }

func VerifOpenMapped(name, meta string) (*VerifMapped, error) {
	m, err := openMapped(name, meta)
	if err != nil {
		return nil, err
	}
	return &VerifMapped{m}, nil
}

func (v *VerifMapped) HdrLen() uint32 { return v.m.hdrLen }
func (v *VerifMapped) Len() int       { return len(v.m.mapping.Data) }
func (v *VerifMapped) Close()         { v.m.close() }

func (v *VerifMapped) offsetOf(p *atomic.Uint64) int64 {
	return int64(uintptr(unsafe.Pointer(p)) - uintptr(unsafe.Pointer(&v.m.mapping.Data[0])))
}

// NewCounter calls mappedFile.newCounter. The returned VerifMapped is the one
// to continue with (the receiver, or the re-mapped file, in which case the
// receiver has been closed as file.newCounter1 does).
func (v *VerifMapped) NewCounter(name string) (ptr *atomic.Uint64, off int64, cur *VerifMapped, err error) {
	p, m1, err := v.m.newCounter(name)
	if err != nil {
		return nil, -1, v, err
	}
	cur = v
	if m1 != nil {
		cur = &VerifMapped{m1}
		v.m.close()
	}
	return p, cur.offsetOf(p), cur, nil
}

// Lookup calls mappedFile.lookup: off is -1 when the name is not present.
func (v *VerifMapped) Lookup(name string) (off int64, ok bool) {
	p, _, _, ok := v.m.lookup(name)
	if p == nil {
		return -1, ok
	}
	return v.offsetOf(p), ok
}

func (v *VerifMapped) Extend(end uint32) (*VerifMapped, error) {
	m1, err := v.m.extend(end)
	if err != nil {
		return v, err
	}
	v.m.close()
	return &VerifMapped{m1}, nil
}

// VerifFileOn returns a file whose current mapping is v (as rotate1 leaves it).
func VerifFileOn(v *VerifMapped) *VerifFile {
	f := &file{}
	f.current.Store(v.m)
	return &VerifFile{f: f}
}

func VerifPlace(hdrLen, limit uint32, nameLen int) (uint32, uint32) {
	m := &mappedFile{hdrLen: hdrLen}
	return m.place(limit, strings.Repeat("x", nameLen))
}
func VerifHash(name string) uint32 { return hash(name) }

// VerifMappedHeader returns the header the package writes for meta, observed
// through the outermost entry point: openMapped creates a fresh file in a
// scratch directory and the header is what it put on disk (its length is the
// length word at offset 28).  No helper of the package is called directly.
func VerifMappedHeader(meta string) ([]byte, error) {
	dir, err := os.MkdirTemp("", "verif-hdr-")
	if err != nil {
		return nil, err
	}
	defer os.RemoveAll(dir)
	path := filepath.Join(dir, "h.v1.count")
	m, err := openMapped(path, meta)
	if err != nil {
		return nil, err
	}
	m.close()
	data, err := os.ReadFile(path)
	if err != nil {
		return nil, err
	}
	if len(data) < 32 {
		return nil, fmt.Errorf("short file")
	}
	n := int(binary.LittleEndian.Uint32(data[28:]))
	if n > len(data) {
		n = len(data)
	}
	return data[:n], nil
}
func VerifIsCorrupt(err error) bool { return err == errCorrupt }
