//go:build verifconc

package counter

// Exporters for the C04 harness (vh_fileconc): direct access to the
// mappedFile methods (no file / f.mu in between), so that several handles on
// ONE file can play the role of independent processes.  Built only in the
// import-rewritten copy.  They add no behaviour.

import (
	"os"
	"unsafe"

	"golang.org/x/telemetry/internal/mmap"
	"golang.org/x/telemetry/internal/verifh/shim/vatomic"
)

type VerifHandle struct{ m *mappedFile }

func VerifOpenHandle(name, meta string) (*VerifHandle, error) {
	m, err := openMapped(name, meta)
	if err != nil {
		return nil, err
	}
	return &VerifHandle{m}, nil
}

// NewCounter is mappedFile.newCounter.
func (v *VerifHandle) NewCounter(name string) (*vatomic.Uint64, *VerifHandle, error) {
	c, m1, err := v.m.newCounter(name)
	var v1 *VerifHandle
	if m1 != nil {
		v1 = &VerifHandle{m1}
	}
	return c, v1, err
}

// Lookup is mappedFile.lookup.
func (v *VerifHandle) Lookup(name string) (*vatomic.Uint64, bool) {
	c, _, _, ok := v.m.lookup(name)
	return c, ok
}

// a closed / absent mapping is an observation (length 0, base 0), not a panic
func (v *VerifHandle) Len() int {
	if v == nil || v.m == nil || v.m.mapping == nil {
		return 0
	}
	return len(v.m.mapping.Data)
}
func (v *VerifHandle) HdrLen() uint32 { return v.m.hdrLen }
func (v *VerifHandle) Base() uintptr {
	if v == nil || v.m == nil || v.m.mapping == nil || len(v.m.mapping.Data) == 0 {
		return 0
	}
	return uintptr(unsafe.Pointer(&v.m.mapping.Data[0]))
}

// Closed reports whether the handle's mapping has been closed (by anybody).
func (v *VerifHandle) Closed() bool { return v == nil || v.m == nil || v.m.mapping == nil }
func (v *VerifHandle) Close()         { v.m.close() }

// VerifCellAdd is Counter.add on a cell of the mapping.
func VerifCellAdd(v *VerifHandle, cell *vatomic.Uint64, n uint64) uint64 {
	c := &Counter{ptr: counterPtr{v.m, cell}}
	return c.add(n)
}

func VerifNameHash(name string) uint32 { return hash(name) }

// VerifErrClass: small enum for the wire format.
func VerifErrClass(err error) string {
	switch {
	case err == nil:
		return "ok"
	case err == errCorrupt:
		return "corrupt"
	case err.Error() == "counter name too long":
		return "toolong"
	case err.Error() == "counter name empty":
		return "empty"
	}
	return "other"
}

// VerifMemmapHook reports every mapping the package creates.
func VerifMemmapHook(record func(base uintptr, n int)) {
	memmap = func(f *os.File) (*mmap.Data, error) {
		d, err := mmap.Mmap(f)
		if err == nil && len(d.Data) > 0 {
			record(uintptr(unsafe.Pointer(&d.Data[0])), len(d.Data))
		}
		return d, err
	}
}

// VerifForeignHandle opens an independent mapping of the file that v currently
// uses (same name and metadata): another process sharing the counter file.
func VerifForeignHandle(v *VerifFile) (*VerifHandle, error) {
	m := v.f.current.Peek()
	if m == nil {
		return nil, errCorrupt
	}
	return VerifOpenHandle(m.f.Name(), m.meta)
}
