//go:build verif

package counter

// Exporters for the verification harnesses (copied into a scratch copy of the
// repository; never part of /repo).  They only give access to unexported
// functions and types; they add no behaviour.

import (
	"time"
)

type VerifFile struct{ f *file }

func VerifNewFile() *VerifFile { return &VerifFile{f: &file{}} }

func (v *VerifFile) Rotate1() time.Time              { return v.f.rotate1() }
func (v *VerifFile) NewCounter(name string) *Counter { return &Counter{name: name, file: v.f} }
func (v *VerifFile) NewStack(name string, depth int) *StackCounter {
	return &StackCounter{name: name, depth: depth, file: v.f}
}
func (v *VerifFile) Err() error { v.f.mu.Lock(); defer v.f.mu.Unlock(); return v.f.err }
func (v *VerifFile) CurrentName() string {
	m := v.f.current.Load()
	if m == nil || m.f == nil {
		return ""
	}
	return m.f.Name()
}
func (v *VerifFile) Close() {
	if m := v.f.current.Load(); m != nil {
		m.close()
	}
}
func (v *VerifFile) Span() (time.Time, time.Time) { return v.f.timeBegin, v.f.timeEnd }

func VerifCounterSpan() (time.Time, time.Time, error) { return counterSpan() }
func VerifWeekEnd() (int, error) {
	w, err := weekEnd()
	return int(w), err
}
func VerifExtra(c *Counter) uint64 { return c.state.load().extra() }
