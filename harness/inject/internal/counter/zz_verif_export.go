//go:build verif

package counter

// Exporters for the verification harnesses (copied into a scratch copy of the
// repository; never part of /repo).  They only give access to unexported
// functions and types; they add no behaviour.

import (
	"runtime/debug"
	"time"
)

type VerifFile struct{ f *file }

func VerifNewFile() *VerifFile { return &VerifFile{f: &file{}} }

// VerifNewFileProg: the file object of another program (its build info is
// what debug.ReadBuildInfo would have returned in that program).
func VerifNewFileProg(path, version, goVersion string) *VerifFile {
	return &VerifFile{f: &file{buildInfo: &debug.BuildInfo{GoVersion: goVersion, Path: path,
		Main: debug.Module{Path: path, Version: version}}}}
}

func (v *VerifFile) Rotate1() time.Time              { return v.f.rotate1() }
func (v *VerifFile) Rotate()                         { v.f.rotate() }
func (v *VerifFile) NewCounter(name string) *Counter { return &Counter{name: name, file: v.f} }
func (v *VerifFile) NewStack(name string, depth int) *StackCounter {
	return &StackCounter{name: name, depth: depth, file: v.f}
}
func (v *VerifFile) Err() error { v.f.mu.Lock(); defer v.f.mu.Unlock(); return v.f.err }
func (v *VerifFile) CurrentName() string {
	m := v.f.current.Load()
	if m == nil || m.f == nil {
		return ""
	}
	return m.f.Name()
}
func (v *VerifFile) Close() {
	if m := v.f.current.Load(); m != nil {
		m.close()
	}
}
func (v *VerifFile) Span() (time.Time, time.Time) { return v.f.timeBegin, v.f.timeEnd }

// VerifCounterSpan: the span a fresh file object computes when it is opened
// (through rotate1, the only caller of counterSpan, so that the harness does
// not depend on the signatures of the helpers behind it).
func VerifCounterSpan() (time.Time, time.Time, error) {
	f := &file{}
	f.rotate1()
	if m := f.current.Load(); m != nil {
		m.close()
	}
	f.mu.Lock()
	defer f.mu.Unlock()
	if f.err != nil {
		return time.Time{}, time.Time{}, f.err
	}
	return f.timeBegin, f.timeEnd, nil
}
func VerifWeekEnd() (int, error) {
	w, err := weekEnd()
	return int(w), err
}
func VerifExtra(c *Counter) uint64 { return c.state.load().extra() }
