//go:build verif

package counter

// Exporter for the uploader harness (vh_upload): lets the harness write count
// files with the real library for a chosen program identity.  Sets a field
// the library itself fills from debug.ReadBuildInfo; adds no behaviour.

import "runtime/debug"

func (v *VerifFile) SetBuildInfo(bi *debug.BuildInfo) { v.f.buildInfo = bi }
