//go:build verifconc

package counter

// Observation and setup helpers for the concurrency harnesses.  Built only
// in the import-rewritten copy (sync/atomic -> vatomic, sync -> vsync).

import (
	"unsafe"

	"golang.org/x/telemetry/internal/mmap"
	"golang.org/x/telemetry/internal/verifh/shim/vatomic"
)

// VerifConcInit makes "unmap" mark the region closed instead of unmapping,
// so a late access is reported by the shim rather than faulting.
func VerifConcInit() {
	munmap = func(d *mmap.Data) error {
		if len(d.Data) > 0 {
			vatomic.MarkClosed(unsafe.Pointer(&d.Data[0]), len(d.Data))
			verifPending = append(verifPending, d)
		}
		return nil
	}
}

// mappings "unmapped" by the code under test during a scenario; really
// unmapped by VerifConcRelease once the scenario is over (a long run would
// otherwise exhaust the process's mappings)
var verifPending []*mmap.Data

func VerifConcRelease() {
	for _, d := range verifPending {
		mmap.Munmap(d)
	}
	verifPending = nil
}

func (v *VerifFile) Register(c *Counter) { v.f.register(c) }
func (v *VerifFile) Lookup(name string)  { v.f.lookup(name) }
func (v *VerifFile) CurID() uintptr      { return uintptr(unsafe.Pointer(v.f.current.Peek())) }
func (v *VerifFile) CurFileName() string {
	m := v.f.current.Peek()
	if m == nil || m.f == nil {
		return ""
	}
	return m.f.Name()
}
func (v *VerifFile) CurLen() int {
	m := v.f.current.Peek()
	if m == nil || m.mapping == nil {
		return 0
	}
	return len(m.mapping.Data)
}

// CurLimit: the allocation limit of the current mapping (unmanaged setup only).
func (v *VerifFile) CurLimit() uint32 {
	m := v.f.current.Peek()
	if m == nil || m.mapping == nil {
		return 0
	}
	return *(*uint32)(unsafe.Pointer(&m.mapping.Data[m.hdrLen+limitOff]))
}

func VerifWord(c *Counter) uint64    { return c.state.bits.Peek() }
func VerifPtrNil(c *Counter) bool    { return c.ptr.count == nil }
func VerifPtrMap(c *Counter) uintptr { return uintptr(unsafe.Pointer(c.ptr.m)) }
func VerifInvalidate(c *Counter)     { c.invalidate() }
func VerifRefresh(c *Counter)        { c.refresh() }

func VerifStateAddr(c *Counter) uintptr { return uintptr(unsafe.Pointer(&c.state.bits)) }
func (v *VerifFile) CurAddr() uintptr   { return uintptr(unsafe.Pointer(&v.f.current)) }
func (v *VerifFile) MuAddr() uintptr    { return uintptr(unsafe.Pointer(&v.f.mu)) }
func VerifPtrAddr(c *Counter) uintptr   { return uintptr(unsafe.Pointer(c.ptr.count)) }
func (v *VerifFile) CurBase() uintptr {
	m := v.f.current.Peek()
	if m == nil || m.mapping == nil || len(m.mapping.Data) == 0 {
		return 0
	}
	return uintptr(unsafe.Pointer(&m.mapping.Data[0]))
}

// registration list observation
func (v *VerifFile) HeadPtr() uintptr    { return uintptr(unsafe.Pointer(v.f.counters.Peek())) }
func (v *VerifFile) EndPtr() uintptr     { return uintptr(unsafe.Pointer(&v.f.end)) }
func VerifNextPtr(c *Counter) uintptr    { return uintptr(unsafe.Pointer(c.next.Peek())) }
func VerifCounterPtr(c *Counter) uintptr { return uintptr(unsafe.Pointer(c)) }
