//go:build verif

package counter

// Exporter for the vh_stack harness (C15): read-only access to the
// per-pc-slice cache of a StackCounter.  Adds no behaviour.

func VerifStackPCs(c *StackCounter) [][]uintptr {
	c.mu.Lock()
	defer c.mu.Unlock()
	out := make([][]uintptr, len(c.stacks))
	for i, s := range c.stacks {
		out[i] = append([]uintptr(nil), s.pcs...)
	}
	return out
}
