//go:build veriffault

package counter

// Exporters for the C05 harness (vh_fault).  Built only in the scratch copy in
// which the import "os" of internal/counter (file.go, counter.go) and
// internal/mmap is rewritten to the fault-injecting shim vosc.

import (
	"unsafe"

	"golang.org/x/telemetry/internal/mmap"
	os "golang.org/x/telemetry/internal/verifh/shim/vosc"
)

// VerifFaultInit: mmap becomes a fault point of the plan; every mapping is
// reported.  munmap stays the real one (this harness runs one thread at a
// time and a hanging call would otherwise accumulate mappings).
func VerifFaultInit(record func(base uintptr, n int)) {
	memmap = func(f *os.File) (*mmap.Data, error) {
		if err := os.PointErr("mmap", f.Name()); err != nil {
			return nil, err
		}
		d, err := mmap.Mmap(f)
		if err == nil && len(d.Data) > 0 {
			record(uintptr(unsafe.Pointer(&d.Data[0])), len(d.Data))
		}
		return d, err
	}
}

// VerifParked reports whether the file is in the error state (f.err set, no
// current mapping).
func (v *VerifFile) VerifParked() (parked bool, hasCurrent bool) {
	v.f.mu.Lock()
	defer v.f.mu.Unlock()
	return v.f.err != nil, v.f.current.Load() != nil
}

func (v *VerifFile) VerifCurLen() int {
	m := v.f.current.Load()
	if m == nil || m.mapping == nil {
		return 0
	}
	return len(m.mapping.Data)
}

func VerifMeta(v *VerifFile) string {
	m := v.f.current.Load()
	if m == nil {
		return ""
	}
	return m.meta
}

// VerifMunmapMark: with on, unmapping only marks the region closed (several
// threads may still hold pointers into it: a late access is then reported by
// the atomics shim instead of faulting); with off, the real munmap.
func VerifMunmapMark(on bool) {
	if on {
		VerifConcInit()
	} else {
		munmap = mmap.Munmap
	}
}
