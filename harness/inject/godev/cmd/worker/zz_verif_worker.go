//go:build verif

// Correspondence harness for C13, inside package main of godev/cmd/worker
// (its functions are unexported and package main cannot be imported).  It
// runs when the binary is started with VERIF_HARNESS=worker (see
// harness/cmd/vh_worker), never otherwise.  Real code exercised: handleMerge,
// readMergedReports, handleChart (-> parseDateRange, group, charts, partition,
// fileName; goMajorMinor and splitCounterName only through the charts they shape), config.Expand, storage.FSBucket.
// No unexported helper of the worker is referenced: only handleMerge, handleChart, handleCopy,
// readMergedReports and the chart JSON types.
package main

import (
	"bytes"
	"context"
	"encoding/json"
	"errors"
	"fmt"
	"io"
	"log/slog"
	"math"
	"net/http/httptest"
	"os"
	"path/filepath"
	"reflect"
	"regexp"
	"sort"
	"strconv"
	"strings"
	"syscall"
	"time"

	"go/version"

	"golang.org/x/mod/semver"
	"golang.org/x/telemetry/godev/internal/config"
	"golang.org/x/telemetry/godev/internal/content"
	"golang.org/x/telemetry/godev/internal/storage"
	. "golang.org/x/telemetry/godev/internal/verifh/vhlib"
	tconfig "golang.org/x/telemetry/internal/config"
	"golang.org/x/telemetry/internal/telemetry"
)

func init() {
	if os.Getenv("VERIF_HARNESS") != "worker" {
		return
	}
	vhMain()
	os.Exit(0)
}

var (
	vrnd  *Rand
	vout  *Out
	vroot string
	vtier string
)

// ---------------------------------------------------------------- wire helpers

func xbits(x float64) string {
	if x == 0 { // +0 and -0 are the same map key
		return I(0)
	}
	return U(math.Float64bits(x))
}

func projTokens(r *telemetry.Report) []string {
	t := []string{HS(r.Week), xbits(r.X), I(int64(len(r.Programs)))}
	for _, p := range r.Programs {
		t = append(t, HS(p.Program), HS(p.Version), HS(p.GoVersion), HS(p.GOOS), HS(p.GOARCH))
		names := make([]string, 0, len(p.Counters))
		for k := range p.Counters {
			names = append(names, k)
		}
		sort.Strings(names)
		t = append(t, I(int64(len(names))))
		for _, k := range names {
			t = append(t, HS(k), I(p.Counters[k]))
		}
	}
	return t
}

func strList(l []string) []string {
	t := []string{I(int64(len(l)))}
	for _, s := range l {
		t = append(t, HS(s))
	}
	return t
}

// ---------------------------------------------------------------- generators

var progPool = []string{"cmd/go", "cmd/compile", "golang.org/x/tools/gopls", "example.com/tool", "cmd/vet", "x", "cmd", "cmd/"}
var goosPool = []string{"linux", "darwin", "windows", "plan9", "", "linux ", "Linux"}
var goarchPool = []string{"amd64", "arm64", "386", "riscv64", "wasm", ""}
var goverPool = []string{"go1.20", "go1.20.1", "go1.20.14", "go1.21.0", "go1.21rc1", "go1.21", "go1.22.3", "go1.9", "go1.10",
	"go2.0", "go1.21.0-bigcorp", "devel", "go", "goX", "go01.2", "go1.02", "go0.5", "xx1y2", "go1.21.0 X:boring", "go10.1", "go1x", "go1.", "go1.x"}
var goverBad = []string{"go1", "g", "", "go12", "go7", "ab3"}
var semverPool = []string{"v1.0.0", "v1.2.3", "v1.10.0", "v1.2.3-pre", "v1.2.3-pre.1", "v0.0.1", "v2.0.0+incompatible", "devel",
	"v1.2", "v1.02.0", "", "v1.0.0+meta", "v1.0.0+a", "v1", "v1.0", "go1.21.3", "v0.14.2", "v0.15.0-pre.2",
	"v1.2.3+incompatible", "v1.2.0", "v1.2.0+x", "tip"}
// versions of equal semver precedence, and non-semver strings (all of equal precedence)
var semverTies = []string{"v1.2.3", "v1.2.3+incompatible", "v1.2.3+build.7", "v1.2", "v1.2.0", "v1.2.0+x", "devel", "tip", "", "1.2.3", "v1.02.0"}
var weekPool = []string{"2024-01-07", "2024-01-14", "2023-12-31", "2024-01-21", "", "9999", "2024-01-7"}
var counterCfgPool = []string{"editor:{vim,emacs,vscode}", "flag:{a,b}", "plain", "GOOS:{linux,darwin}", "a:a", "a",
	"x:{}", "y:{", "gopls/client:{vscode,vim,other}", "z:{p,p}", "w:{q:r,s}", "GoVersion:{go1.20,go1.21}", "Version:{v1.0.0}",
	"flag:{b,c}", ":{u,v}", "e:", "{m,n}", "k:{a}}", "plain:{plain}"}

func pickSome(pool []string, min, max int) []string {
	n := min + vrnd.Intn(max-min+1)
	var res []string
	for i := 0; i < n; i++ {
		res = append(res, Pick(vrnd, pool))
	}
	return res
}

func genConfig(malformed bool) *telemetry.UploadConfig {
	cfg := &telemetry.UploadConfig{
		GOOS:      pickSome(goosPool, 0, 4),
		GOARCH:    pickSome(goarchPool, 0, 4),
		GoVersion: pickSome(goverPool, 0, 8),
	}
	if malformed {
		pos := vrnd.Intn(len(cfg.GoVersion) + 1)
		gv := append([]string{}, cfg.GoVersion[:pos]...)
		gv = append(gv, Pick(vrnd, goverBad))
		cfg.GoVersion = append(gv, cfg.GoVersion[pos:]...)
	}
	np := vrnd.Intn(5)
	for i := 0; i < np; i++ {
		p := &telemetry.ProgramConfig{Name: Pick(vrnd, progPool)}
		if strings.HasPrefix(p.Name, "cmd/") && vrnd.Chance(70) {
			p.Versions = pickSome(goverPool, 0, 4)
		} else {
			p.Versions = pickSome(semverPool, 0, 7)
			if vrnd.Chance(35) {
				p.Versions = append(p.Versions, pickSome(semverTies, 3, 7)...)
			}
		}
		for _, c := range pickSome(counterCfgPool, 0, 4) {
			p.Counters = append(p.Counters, telemetry.CounterConfig{Name: c, Rate: 1})
		}
		cfg.Programs = append(cfg.Programs, p)
	}
	return cfg
}

// counter names a program report may carry: expansions of configured
// counters, special-counter collisions, strays
func genCounterNames(cfg *telemetry.UploadConfig) []string {
	var names []string
	src := counterCfgPool
	if cfg != nil && vrnd.Chance(70) {
		src = nil
		for _, p := range cfg.Programs {
			for _, c := range p.Counters {
				src = append(src, c.Name)
			}
		}
		if len(src) == 0 {
			src = counterCfgPool
		}
	}
	n := vrnd.Intn(7)
	for i := 0; i < n; i++ {
		ex := tconfig.Expand(Pick(vrnd, src))
		names = append(names, Pick(vrnd, ex))
	}
	if vrnd.Chance(15) {
		names = append(names, Pick(vrnd, []string{"GOOS:linux", "GOARCH:amd64", "Version:v1.0.0", "GoVersion:go1.21", "a:a", "a", "stray:thing", "q", ""}))
	}
	return names
}

func genX(pool []float64) float64 {
	if len(pool) > 0 && vrnd.Chance(35) {
		return Pick(vrnd, pool)
	}
	switch vrnd.Intn(12) {
	case 0:
		return 0
	case 1:
		return math.Copysign(0, -1)
	case 2:
		return 1e-320
	case 3:
		return 0.5
	case 4:
		return float64(vrnd.Intn(4))
	case 5:
		return -0.25
	}
	return float64(vrnd.Uint64()>>11) / (1 << 53)
}

// bulk: pad the report to about `target` bytes of JSON
func genReport(cfg *telemetry.UploadConfig, week string, xpool []float64, target int) *telemetry.Report {
	r := &telemetry.Report{Week: week, LastWeek: Pick(vrnd, weekPool), X: genX(xpool), Config: "v0.0.1-test"}
	if vrnd.Chance(12) {
		r.Week = Pick(vrnd, weekPool)
	}
	np := vrnd.Intn(5)
	if vrnd.Chance(10) {
		np = 0
	}
	for i := 0; i < np; i++ {
		p := &telemetry.ProgramReport{
			Program: Pick(vrnd, progPool), GoVersion: Pick(vrnd, goverPool),
			GOOS: Pick(vrnd, goosPool), GOARCH: Pick(vrnd, goarchPool),
		}
		if cfg != nil && len(cfg.Programs) > 0 && vrnd.Chance(75) {
			pc := Pick(vrnd, cfg.Programs)
			p.Program = pc.Name
			if len(pc.Versions) > 0 && vrnd.Chance(75) {
				p.Version = Pick(vrnd, pc.Versions)
			}
		}
		if p.Version == "" && vrnd.Chance(80) {
			p.Version = Pick(vrnd, semverPool)
		}
		if cfg != nil {
			if len(cfg.GoVersion) > 0 && vrnd.Chance(70) {
				p.GoVersion = Pick(vrnd, cfg.GoVersion)
			}
			if len(cfg.GOOS) > 0 && vrnd.Chance(70) {
				p.GOOS = Pick(vrnd, cfg.GOOS)
			}
			if len(cfg.GOARCH) > 0 && vrnd.Chance(70) {
				p.GOARCH = Pick(vrnd, cfg.GOARCH)
			}
		}
		names := genCounterNames(cfg)
		if len(names) > 0 || vrnd.Chance(50) {
			p.Counters = map[string]int64{}
			for _, n := range names {
				p.Counters[n] = vrnd.Int63n(1000) - 3
			}
		}
		if vrnd.Chance(20) {
			p.Stacks = map[string]int64{"panic\nmain.f:1\nmain.main:2": 1 + vrnd.Int63n(5)}
		}
		r.Programs = append(r.Programs, p)
	}
	if target > 0 {
		if len(r.Programs) == 0 {
			r.Programs = append(r.Programs, &telemetry.ProgramReport{Program: Pick(vrnd, progPool), GoVersion: "go1.21", GOOS: "linux", GOARCH: "amd64"})
		}
		p := r.Programs[vrnd.Intn(len(r.Programs))]
		if vrnd.Chance(25) { // many counters (they are charted)
			if p.Counters == nil {
				p.Counters = map[string]int64{}
			}
			for i := 0; len(mustJSON(r)) < target && i < 4000; i += 40 {
				for j := 0; j < 40; j++ {
					p.Counters[fmt.Sprintf("bulk/%04d:%s", i+j, strings.Repeat("b", 8))] = int64(j)
				}
			}
		} else { // long stacks, as real crash/stack counters
			if p.Stacks == nil {
				p.Stacks = map[string]int64{}
			}
			frame := "\ngolang.org/x/tools/gopls/internal/server.(*server).diagnose:+123"
			for i := 0; len(mustJSON(r)) < target; i++ {
				p.Stacks[fmt.Sprintf("gopls/bug\n%d", i)+strings.Repeat(frame, 16)] = int64(i)
			}
		}
	}
	return r
}

func mustJSON(v any) []byte {
	b, err := json.Marshal(v)
	if err != nil {
		panic(err)
	}
	return b
}

// the stored form of an uploaded report
func genObjectBytes(r *telemetry.Report) []byte {
	switch vrnd.Intn(10) {
	case 0:
		b, _ := json.MarshalIndent(r, "", "  ")
		return b
	case 1:
		return append(mustJSON(r), []byte("\n\n  ")...)
	case 2:
		return append([]byte(" \n\t"), mustJSON(r)...)
	case 3:
		return append(mustJSON(r), []byte(" trailing garbage {")...) // Decode reads the first value only
	default:
		return append(mustJSON(r), '\n') // what the upload server writes
	}
}

func genMalformedObject() []byte {
	good := mustJSON(genReport(nil, "2024-01-07", nil, 0))
	switch vrnd.Intn(6) {
	case 0:
		return good[:len(good)/2]
	case 1:
		return []byte("not json")
	case 2:
		return []byte(`{"Week": 5}`)
	case 3:
		return nil
	case 4:
		return []byte(`{"Week":"2024-01-07","X":"0.5"}`)
	default:
		return []byte(`[1,2]`)
	}
}

// ---------------------------------------------------------------- running the handlers

type env struct {
	dir string
	api *storage.API
}

// linkBucketDir makes <dir>/<bucket> a symbolic link to a real directory that
// lives elsewhere (an operator's `ln -s /mnt/data/uploaded local-telemetry-uploaded`),
// moving what the bucket already holds.  Target absolute or relative.
func linkBucketDir(dir, bucket string) bool {
	path := filepath.Join(dir, bucket)
	if fi, err := os.Lstat(path); err == nil && fi.Mode()&os.ModeSymlink != 0 {
		return false
	}
	realName := fmt.Sprintf(".real-%s-%d", bucket, vrnd.Intn(1000000))
	real := filepath.Join(dir, realName)
	if _, err := os.Lstat(path); err == nil {
		if err := os.Rename(path, real); err != nil {
			return false
		}
	} else if err := os.MkdirAll(real, 0777); err != nil {
		return false
	}
	target := real
	if vrnd.Bool() {
		target = realName
	}
	return os.Symlink(target, path) == nil
}

func newEnv() *env {
	dir, err := os.MkdirTemp(vroot, "e")
	if err != nil {
		panic(err)
	}
	if vrnd.Chance(10) { // the local storage directory itself reached through a link
		link := dir + "-l"
		if os.Symlink(dir, link) == nil {
			dir = link
			vout.Note("layout-local-storage-dir-is-a-symlink")
		}
	}
	for _, b := range []string{"upload", "merged", "chart", "prod-telemetry-uploaded"} {
		if vrnd.Chance(22) && linkBucketDir(dir, b) {
			vout.Note("layout-bucket-dir-is-a-symlink")
		}
	}
	ctx := context.Background()
	up, err1 := storage.NewFSBucket(ctx, dir, "upload")
	mg, err2 := storage.NewFSBucket(ctx, dir, "merged")
	ch, err3 := storage.NewFSBucket(ctx, dir, "chart")
	if err1 != nil || err2 != nil || err3 != nil {
		panic(fmt.Sprint(err1, err2, err3))
	}
	return &env{dir, &storage.API{Upload: up, Merge: mg, Chart: ch}}
}

func (e *env) close() {
	if real, err := filepath.EvalSymlinks(e.dir); err == nil && real != e.dir {
		os.RemoveAll(real)
		os.Remove(e.dir)
		return
	}
	os.RemoveAll(e.dir)
}

// serve runs a handler the way the mux does (error -> status), catching panics
func serve(h content.HandlerFunc, url string) (status string, body string) {
	return serveCtx(context.Background(), h, url)
}

// reqCtx: the state of the REQUEST context while the handler runs.  The worker
// wraps every handler in middleware.Timeout (http.TimeoutHandler cancels the
// request context at the deadline and lets the handler goroutine run on), and
// a client / Cloud Tasks disconnect cancels it too.  kind: live, cancel (done
// after `after` objects have been opened for reading; 0 = before the request),
// deadline (same, by an expired deadline).
type reqCtx struct {
	kind  string // live, cancel, deadline, fault
	after int
	// kind fault: the reader of the merged object of day index faultDay fails after `after` records
	faultDay  int
	faultName string
}

func genReqCtx(maxAfter int) reqCtx {
	switch vrnd.Intn(10) {
	case 0:
		return reqCtx{kind: "cancel", after: 0}
	case 1:
		return reqCtx{kind: "cancel", after: vrnd.Intn(maxAfter + 1)}
	case 2:
		return reqCtx{kind: "deadline", after: vrnd.Intn(maxAfter + 1)}
	}
	return reqCtx{kind: "live", after: -1}
}

func (c reqCtx) tokens() []string { return []string{c.kind, I(int64(c.after)), I(int64(c.faultDay))} }

// withFault turns a live request into one hit by a read fault on one merged object of the range
func withFault(c reqCtx, dates []string, counts []int) reqCtx {
	if c.kind != "live" || len(dates) == 0 || !vrnd.Chance(18) {
		return c
	}
	i := vrnd.Intn(len(dates))
	k := 0
	if counts[i] > 0 {
		k = vrnd.Intn(counts[i] + 1)
		if vrnd.Bool() {
			k = vrnd.Intn(2) // the first record delivered, then the reset
		}
	}
	return reqCtx{kind: "fault", after: k, faultDay: i, faultName: dates[i] + ".json"}
}

// serveWith runs mk(api) under the request context described by c: the buckets
// are wrapped so that the context becomes done when the `after`-th reader is opened.
func serveWith(c reqCtx, api *storage.API, mk func(*storage.API) content.HandlerFunc, url string) (string, string) {
	if c.kind == "live" {
		return serve(mk(api), url)
	}
	if c.kind == "fault" {
		st := &fdState{faultName: c.faultName, faultAfter: c.after}
		wrapped := &storage.API{Upload: &fdBucket{api.Upload, st}, Merge: &fdBucket{api.Merge, st}, Chart: &fdBucket{api.Chart, st}}
		return serve(mk(wrapped), url)
	}
	var ctx context.Context
	var cancel context.CancelFunc
	done := func() {}
	if c.kind == "cancel" {
		ctx, cancel = context.WithCancel(context.Background())
		done = cancel
	} else {
		// a deadline that has passed once `done` has been called
		dl := &deadlineCtx{Context: context.Background(), doneCh: make(chan struct{})}
		ctx = dl
		cancel = func() {}
		done = dl.expire
	}
	defer cancel()
	st := &fdState{}
	opened := 0
	st.onOpen = func() {
		if opened == c.after {
			done()
		}
		opened++
	}
	if c.after == 0 {
		done()
		opened = 1
	}
	wrapped := &storage.API{Upload: &fdBucket{api.Upload, st}, Merge: &fdBucket{api.Merge, st}, Chart: &fdBucket{api.Chart, st}}
	return serveCtx(ctx, mk(wrapped), url)
}

// deadlineCtx: a context whose deadline "passes" when expire is called
type deadlineCtx struct {
	context.Context
	doneCh  chan struct{}
	expired bool
}

func (d *deadlineCtx) expire() {
	if !d.expired {
		d.expired = true
		close(d.doneCh)
	}
}
func (d *deadlineCtx) Done() <-chan struct{} { return d.doneCh }
func (d *deadlineCtx) Err() error {
	if d.expired {
		return context.DeadlineExceeded
	}
	return nil
}
func (d *deadlineCtx) Deadline() (time.Time, bool) { return time.Unix(0, 0), true }

func serveCtx(ctx context.Context, h content.HandlerFunc, url string) (status string, body string) {
	defer func() {
		if r := recover(); r != nil {
			status, body = "panic", fmt.Sprint(r)
		}
	}()
	w := httptest.NewRecorder()
	r := httptest.NewRequest("GET", url, nil).WithContext(ctx)
	h.ServeHTTP(w, r)
	switch w.Code {
	case 200:
		status = "ok"
	case 400:
		status = "bad"
	case 404:
		status = "notfound"
	default:
		status = "err"
	}
	return status, w.Body.String()
}

type stored struct {
	name string
	data []byte
	rep  *telemetry.Report // nil when it does not decode
}

// writes the objects in shuffled creation order; returns them in iterator order
func (e *env) store(date string, objs []stored) []stored {
	perm := make([]int, len(objs))
	for i := range perm {
		perm[i] = i
	}
	for i := len(perm) - 1; i > 0; i-- {
		j := vrnd.Intn(i + 1)
		perm[i], perm[j] = perm[j], perm[i]
	}
	byName := map[string]stored{}
	for _, i := range perm {
		o := objs[i]
		w, err := e.api.Upload.Object(o.name).NewWriter(context.Background())
		if err != nil {
			panic(err)
		}
		w.Write(o.data)
		w.Close()
		byName[o.name] = o
	}
	// what is stored for the day is what was written (the harness's own
	// knowledge); the real listing only gives the ORDER.  A stored object the
	// listing does not show is appended, so that the oracle sees it missing.
	var res []stored
	listed := map[string]bool{}
	it := e.api.Upload.Objects(context.Background(), date)
	for {
		n, err := it.Next()
		if err != nil {
			break
		}
		if o, ok := byName[n]; ok && !listed[n] {
			listed[n] = true
			res = append(res, o)
		}
	}
	var rest []string
	for n := range byName {
		if strings.HasPrefix(n, date) && !listed[n] {
			rest = append(rest, n)
		}
	}
	sort.Strings(rest)
	for _, n := range rest {
		vout.Note("stored-object-not-listed")
		res = append(res, byName[n])
	}
	return res
}

// strayDirs puts directories that cannot be listed into a bucket: their names
// are not valid UTF-8, which os.DirFS refuses to open (EACCES-like faults do
// not work as root).  They hold no report.  Names sorting before and after
// the dates, at top level and inside a readable directory.
func strayDirs(e *env, bucket string) []string {
	var made []string
	n := 1 + vrnd.Intn(2)
	for i := 0; i < n; i++ {
		name := Pick(vrnd, []string{"!snap\xff", ".Trash\xfe", "0000/\xffx", "1\xc3(", "zz\xff", "2024\xff", "!a/b\xff/c"})
		if err := os.MkdirAll(filepath.Join(e.dir, bucket, filepath.FromSlash(name)), 0777); err == nil {
			made = append(made, name)
		}
	}
	return made
}

// genStart: start dates around month ends, the leap day, and 31 December
func genStart() time.Time {
	switch vrnd.Intn(10) {
	case 0, 1, 2:
		y := Pick(vrnd, []int{2023, 2024, 1999, 2099, 2100, 2020})
		return time.Date(y, 12, 25+vrnd.Intn(7), 0, 0, 0, 0, time.UTC) // a week from here crosses New Year
	case 3:
		return time.Date(Pick(vrnd, []int{2023, 2024}), 1, 1, 0, 0, 0, 0, time.UTC)
	default:
		return time.Date(2024, time.Month(1+vrnd.Intn(3)), 20+vrnd.Intn(12), 0, 0, 0, 0, time.UTC)
	}
}

func decodeFirst(data []byte) *telemetry.Report {
	var r telemetry.Report
	if err := json.NewDecoder(bytes.NewReader(data)).Decode(&r); err != nil {
		return nil
	}
	for _, p := range r.Programs {
		if p == nil {
			return nil
		}
	}
	return &r
}

func genDay(cfg *telemetry.UploadConfig, date string, n int, xpool []float64, allowBig bool) []stored {
	var objs []stored
	used := map[string]bool{}
	for i := 0; i < n; i++ {
		target := 0
		if allowBig && vrnd.Chance(6) {
			target = Pick(vrnd, []int{66 * 1024, 70 * 1024, 90 * 1024, 98 * 1024, 64*1024 + 1, 64 * 1024})
		} else if vrnd.Chance(5) {
			target = 3000 + vrnd.Intn(20000)
		}
		week := Pick(vrnd, weekPool[:4])
		r := genReport(cfg, week, xpool, target)
		name := fmt.Sprintf("%s/%g.json", date, r.X)
		if vrnd.Chance(5) {
			name = fmt.Sprintf("%s-%g.json", date, r.X) // prefix match without a directory
		}
		for k := 1; used[name]; k++ {
			name = fmt.Sprintf("%s/%g-%d.json", date, r.X, k)
		}
		used[name] = true
		data := genObjectBytes(r)
		objs = append(objs, stored{name, data, decodeFirst(data)})
	}
	return objs
}

var mergedRE = regexp.MustCompile(`^merged (\d+) reports into `)

const smallLimit = 6000

// merge: one day of uploads -> real handleMerge -> the merged object, line by
// line; then the real readMergedReports on it.
func caseMerge() {
	e := newEnv()
	defer e.close()
	date := time.Date(2024, 1, 1+vrnd.Intn(28), 0, 0, 0, 0, time.UTC).Format(telemetry.DateOnly)
	n := vrnd.Intn(41)
	if vrnd.Chance(50) {
		n = vrnd.Intn(6)
	}
	var xpool []float64
	for i := 0; i < 3; i++ {
		xpool = append(xpool, genX(nil))
	}
	if vrnd.Chance(30) {
		date = genStart().Format(telemetry.DateOnly)
	}
	if vrnd.Chance(30) {
		strayDirs(e, "upload")
		vout.Note("merge-stray-unlistable-dir")
	}
	objs := genDay(nil, date, n, xpool, true)
	if vrnd.Chance(8) && len(objs) > 0 {
		i := vrnd.Intn(len(objs))
		objs[i].data = genMalformedObject()
		objs[i].rep = decodeFirst(objs[i].data)
		vout.Note("merge-malformed-object")
	}
	// an object of another day must not be merged
	other := stored{name: "2023-11-30/0.5.json", data: mustJSON(genReport(nil, "2023-12-03", nil, 0))}
	objs = append(objs, other)
	inOrder := e.store(date, objs)
	status, body := serve(handleMerge(e.api), "/merge/?date="+date)
	count := int64(-1)
	if m := mergedRE.FindStringSubmatch(body); m != nil {
		count, _ = strconv.ParseInt(m[1], 10, 64)
	}
	file, ferr := os.ReadFile(filepath.Join(e.dir, "merged", date+".json"))
	total := len(file)
	for _, o := range inOrder {
		total += len(o.data)
	}
	small := total <= smallLimit
	fields := []string{"merge", B(small), status, I(count), I(int64(len(inOrder)))}
	big := false
	for _, o := range inOrder {
		if o.rep == nil {
			fields = append(fields, "bad")
			if small {
				fields = append(fields, H(o.data))
			}
			continue
		}
		canon := mustJSON(*o.rep) // what Encode writes, without the newline
		if len(canon) > 64*1024 {
			big = true
		}
		fields = append(fields, "good", I(int64(len(canon))))
		if small {
			fields = append(fields, H(o.data), H(canon))
		}
		fields = append(fields, projTokens(o.rep)...)
	}
	if big {
		vout.Note("merge-line-over-64KiB")
	}
	if ferr != nil {
		fields = append(fields, "nofile")
	} else {
		fields = append(fields, "file", I(int64(len(file))))
		if small {
			fields = append(fields, H(file))
		}
		lines := bytes.Split(file, []byte("\n"))
		if len(lines) > 0 && len(lines[len(lines)-1]) == 0 {
			lines = lines[:len(lines)-1]
		}
		fields = append(fields, I(int64(len(lines))))
		for i, l := range lines {
			var r telemetry.Report
			err := json.Unmarshal(l, &r)
			if err != nil {
				fields = append(fields, I(int64(len(l))), "bad")
				continue
			}
			same := i < len(inOrder) && inOrder[i].rep != nil && reflect.DeepEqual(r, *inOrder[i].rep)
			fields = append(fields, I(int64(len(l))), "good", B(same))
			fields = append(fields, projTokens(&r)...)
		}
	}
	// read back with the real reader
	func() {
		defer func() {
			if r := recover(); r != nil {
				fields = append(fields, "read-panic")
			}
		}()
		reps, err := readMergedReports(context.Background(), date+".json", e.api)
		if err != nil {
			fields = append(fields, "read-err")
			return
		}
		fields = append(fields, "read-ok", I(int64(len(reps))))
		for i := range reps {
			fields = append(fields, projTokens(&reps[i])...)
		}
	}()
	if small {
		vout.Note("merge-small")
	} else {
		vout.Note("merge-large")
	}
	vout.Note("merge-status-" + status)
	vout.Case(len(inOrder) > 0, fields...)
}

// hand-made merged objects: blank lines, missing final newline, junk
func caseReadRaw() {
	e := newEnv()
	defer e.close()
	n := vrnd.Intn(5)
	var lines [][]byte
	for i := 0; i < n; i++ {
		lines = append(lines, mustJSON(genReport(nil, Pick(vrnd, weekPool), nil, 0)))
	}
	var buf bytes.Buffer
	shape := vrnd.Intn(5)
	for i, l := range lines {
		buf.Write(l)
		if i < len(lines)-1 || shape != 1 { // shape 1: no final newline
			buf.WriteByte('\n')
		}
		if shape == 2 && vrnd.Bool() {
			buf.WriteByte('\n') // blank lines
		}
	}
	if shape == 3 {
		buf.WriteString("junk\n")
	}
	if shape == 4 && buf.Len() > 0 {
		buf.Truncate(buf.Len() - 1 - vrnd.Intn(buf.Len()/2+1))
	}
	file := buf.Bytes()
	if len(file) > smallLimit {
		return
	}
	os.WriteFile(filepath.Join(e.dir, "merged", "2024-01-01.json"), file, 0666)
	// the oracle for json: which lines decode, and to what
	fields := []string{"readraw", H(file)}
	var tbl []string
	nt := 0
	for _, l := range bytes.Split(file, []byte("\n")) {
		if len(l) == 0 {
			continue
		}
		var r telemetry.Report
		if err := json.Unmarshal(l, &r); err != nil {
			tbl = append(tbl, H(l), "bad")
		} else {
			tbl = append(tbl, H(l), "good")
			tbl = append(tbl, projTokens(&r)...)
		}
		nt++
	}
	fields = append(fields, I(int64(nt)))
	fields = append(fields, tbl...)
	reps, err := readMergedReports(context.Background(), "2024-01-01.json", e.api)
	if err != nil {
		fields = append(fields, "read-err")
	} else {
		fields = append(fields, "read-ok", I(int64(len(reps))))
		for i := range reps {
			fields = append(fields, projTokens(&reps[i])...)
		}
	}
	vout.Note(fmt.Sprintf("readraw-shape-%d", shape))
	vout.Case(true, fields...)
}

func cfgTokens(cfg *telemetry.UploadConfig) []string {
	t := strList(cfg.GOOS)
	t = append(t, strList(cfg.GOARCH)...)
	t = append(t, strList(cfg.GoVersion)...)
	t = append(t, I(int64(len(cfg.Programs))))
	for _, p := range cfg.Programs {
		t = append(t, HS(p.Name))
		t = append(t, strList(p.Versions)...)
		var cs []string
		for _, c := range p.Counters {
			cs = append(cs, c.Name)
		}
		t = append(t, strList(cs)...)
	}
	return t
}

// specMajorMinor: what the GoVersion chart is specified to group by: go<N>.<M>
// for a string that has, after its first two bytes, a decimal number without
// leading zero, one separator byte and another such number; "" otherwise.
// Written here (not the worker's helper) so that the rank table of the keys
// does not depend on how the worker names its functions.
func specMajorMinor(v string) (string, bool) {
	cut := func(x string) (string, string, bool) {
		i := 0
		for i < len(x) && '0' <= x[i] && x[i] <= '9' {
			i++
		}
		if i == 0 || x[0] == '0' && i != 1 {
			return "", "", false
		}
		return x[:i], x[i:], true
	}
	if len(v) < 2 {
		return "", true
	}
	maj, x, ok := cut(v[2:])
	if !ok || x == "" {
		return "", true
	}
	min, _, ok := cut(x[1:])
	if !ok {
		return "", true
	}
	return "go" + maj + "." + min, true
}

// specCompareSemver: the order the Version chart is specified to have:
// semver precedence (golang.org/x/mod/semver), versions of equal precedence
// (v1.2.3 / v1.2.3+incompatible, v1.2 / v1.2.0, all non-semver strings)
// lexically, so that the order is total and the chart deterministic.  Written
// here, not taken from the worker's helper of the same purpose.
func specCompareSemver(x, y string) int {
	if c := semver.Compare(x, y); c != 0 {
		return c
	}
	return strings.Compare(x, y)
}

// rankTable: the keys sorted by the real comparator; keys comparing equal share a rank
func rankTable(keys []string, cmp func(x, y string) int) []string {
	set := map[string]bool{}
	var ks []string
	for _, k := range keys {
		if !set[k] {
			set[k] = true
			ks = append(ks, k)
		}
	}
	sort.Strings(ks)
	sort.SliceStable(ks, func(i, j int) bool { return cmp(ks[i], ks[j]) < 0 })
	t := []string{I(int64(len(ks)))}
	rank := 0
	for i, k := range ks {
		if i > 0 && cmp(ks[i-1], k) != 0 {
			rank++
		}
		t = append(t, HS(k), I(int64(rank)))
	}
	return t
}

func chartTokens(cd *chartdata) []string {
	t := []string{HS(cd.DateRange[0]), HS(cd.DateRange[1]), I(int64(cd.NumReports)), I(int64(len(cd.Programs)))}
	for _, p := range cd.Programs {
		t = append(t, HS(p.ID), HS(p.Name), I(int64(len(p.Charts))))
		for _, c := range p.Charts {
			t = append(t, HS(c.ID), HS(c.Name), HS(c.Type), I(int64(len(c.Data))))
			for _, d := range c.Data {
				v := int64(d.Value)
				if float64(v) != d.Value {
					v = -999
				}
				t = append(t, HS(d.Week), HS(d.Key), I(v))
			}
		}
	}
	return t
}

// dirDigest: names and contents of the objects of a bucket directory
func dirDigest(dir string) string {
	ents, _ := os.ReadDir(dir)
	var sb strings.Builder
	for _, en := range ents {
		b, _ := os.ReadFile(filepath.Join(dir, en.Name()))
		fmt.Fprintf(&sb, "%s:%d:%x;", en.Name(), len(b), b)
	}
	return sb.String()
}

func dayNumber(t time.Time) int64 { return t.Unix() / 86400 }

func writeMergedDirect(e *env, date string, reps []*telemetry.Report) {
	var buf bytes.Buffer
	enc := json.NewEncoder(&buf)
	for _, r := range reps {
		enc.Encode(*r)
	}
	os.WriteFile(filepath.Join(e.dir, "merged", date+".json"), buf.Bytes(), 0666)
}

// chart: uploads for a range of days -> real handleMerge per present day ->
// real handleChart -> the chart object; then the same set of reports
// re-shuffled (order and day) and charted again.
func caseChart() {
	e := newEnv()
	defer e.close()
	malformed := vrnd.Chance(8) // a Go version goMajorMinor used to panic on (fixed by 48ba0d4)
	cfg := genConfig(malformed)
	ucfg := tconfig.NewConfig(cfg)
	start := genStart()
	ndays := 1
	if vrnd.Chance(70) {
		ndays = 1 + vrnd.Intn(8)
	}
	long := vrnd.Chance(3) // a range of about a year or more: the reports of a few days, the other days merged empty
	dataDay := map[int]bool{}
	if long {
		ndays = 300 + vrnd.Intn(500)
		for i := 0; i < 4; i++ {
			dataDay[vrnd.Intn(ndays)] = true
		}
		vout.Note("chart-range-over-300-days")
	}
	if start.Year() != start.AddDate(0, 0, ndays-1).Year() {
		vout.Note("chart-range-crosses-new-year")
	}
	missing := -1
	if vrnd.Chance(18) {
		missing = vrnd.Intn(ndays)
	}
	var xpool []float64
	for i := 0; i < 4; i++ {
		xpool = append(xpool, genX(nil))
	}
	maxPerDay := Pick(vrnd, []int{0, 2, 3, 5, 8, 12, 40})
	if long {
		maxPerDay = 3
	}
	if vrnd.Chance(20) {
		strayDirs(e, "upload")
		vout.Note("chart-stray-unlistable-dir")
	}
	bigBudget := 1
	type dayT struct {
		date    string
		present bool
		objs    []stored
	}
	var days []dayT
	for i := 0; i < ndays; i++ {
		d := start.AddDate(0, 0, i)
		day := dayT{date: d.Format(telemetry.DateOnly), present: i != missing}
		if day.present && long && !dataDay[i] {
			writeMergedDirect(e, day.date, nil)
		} else if day.present {
			n := vrnd.Intn(maxPerDay + 1)
			allowBig := bigBudget > 0 && vrnd.Chance(30)
			objs := genDay(cfg, day.date, n, xpool, allowBig)
			for _, o := range objs {
				if len(o.data) > 60000 {
					bigBudget--
				}
			}
			day.objs = e.store(day.date, objs)
			st, _ := serve(handleMerge(e.api), "/merge/?date="+day.date)
			if st != "ok" {
				panic("merge of a well-formed day failed: " + st)
			}
		}
		days = append(days, day)
	}
	end := start.AddDate(0, 0, ndays-1)
	var url string
	if ndays == 1 && vrnd.Bool() {
		url = "/chart/?date=" + days[0].date
	} else {
		url = "/chart/?start=" + days[0].date + "&end=" + days[ndays-1].date
	}
	h := handleChart(ucfg, e.api)
	rc := genReqCtx(ndays)
	{
		var ds []string
		var cs []int
		for _, d := range days {
			ds = append(ds, d.date)
			cs = append(cs, len(d.objs))
		}
		rc = withFault(rc, ds, cs)
	}
	status, _ := serveWith(rc, e.api, func(a *storage.API) content.HandlerFunc { return handleChart(ucfg, a) }, url)
	if rc.kind != "live" {
		vout.Note("chart-request-context-" + rc.kind)
	}
	chartDir := filepath.Join(e.dir, "chart")
	readChart := func() (string, []byte) {
		ents, _ := os.ReadDir(chartDir)
		if len(ents) != 1 {
			return fmt.Sprintf("<%d objects>", len(ents)), nil
		}
		b, _ := os.ReadFile(filepath.Join(chartDir, ents[0].Name()))
		return ents[0].Name(), b
	}
	objName, first := readChart()

	fields := []string{"chart"}
	fields = append(fields, rc.tokens()...)
	fields = append(fields, cfgTokens(cfg)...)
	var semKeys, goKeys []string
	for _, p := range cfg.Programs {
		semKeys = append(semKeys, p.Versions...)
	}
	for _, v := range cfg.GoVersion {
		if k, ok := specMajorMinor(v); ok {
			goKeys = append(goKeys, k)
		}
	}
	fields = append(fields, rankTable(semKeys, specCompareSemver)...)
	fields = append(fields, rankTable(goKeys, version.Compare)...)
	fields = append(fields, I(dayNumber(start)), I(dayNumber(end)), I(int64(ndays)))
	nrep := 0
	var all []*telemetry.Report
	for _, d := range days {
		fields = append(fields, B(d.present), I(int64(len(d.objs))))
		for _, o := range d.objs {
			fields = append(fields, projTokens(o.rep)...)
			all = append(all, o.rep)
			nrep++
		}
	}
	fields = append(fields, status)
	det := true
	if status == "ok" {
		var cd chartdata
		if err := json.Unmarshal(first, &cd); err != nil {
			fields = append(fields, "unparsable")
		} else {
			fields = append(fields, "chartdata", HS(objName))
			fields = append(fields, chartTokens(&cd)...)
		}
		// same files again (map iteration order differs from run to run)
		for k := 0; k < 2; k++ {
			os.Remove(filepath.Join(chartDir, objName))
			st, _ := serve(h, url)
			_, again := readChart()
			if st != "ok" || !bytes.Equal(first, again) {
				det = false
			}
		}
		// the same set of reports, shuffled in order and redistributed over the days
		for k := 0; k < 2; k++ {
			sh := append([]*telemetry.Report{}, all...)
			for i := len(sh) - 1; i > 0; i-- {
				j := vrnd.Intn(i + 1)
				sh[i], sh[j] = sh[j], sh[i]
			}
			per := make([][]*telemetry.Report, ndays)
			for _, r := range sh {
				i := vrnd.Intn(ndays)
				per[i] = append(per[i], r)
			}
			for i, d := range days {
				writeMergedDirect(e, d.date, per[i])
			}
			os.Remove(filepath.Join(chartDir, objName))
			st, _ := serve(h, url)
			_, again := readChart()
			if st != "ok" || !bytes.Equal(first, again) {
				det = false
			}
		}
	} else {
		fields = append(fields, "nochart")
	}
	fields = append(fields, B(det))
	vout.Note("chart-status-" + status)
	if missing >= 0 {
		vout.Note("chart-missing-day")
	}
	if malformed {
		vout.Note("chart-malformed-goversion-config")
	}
	switch {
	case nrep == 0:
		vout.Note("chart-0-reports")
	case nrep <= 10:
		vout.Note("chart-1..10-reports")
	case nrep <= 50:
		vout.Note("chart-11..50-reports")
	default:
		vout.Note("chart-over-50-reports")
	}
	vout.Case(true, fields...)
}

// bad-range: end before start
func caseChartBadRange() {
	e := newEnv()
	defer e.close()
	cfg := genConfig(false)
	start := time.Date(2024, 2, 10+vrnd.Intn(10), 0, 0, 0, 0, time.UTC)
	end := start.AddDate(0, 0, -1-vrnd.Intn(5))
	st, _ := serve(handleChart(tconfig.NewConfig(cfg), e.api),
		"/chart/?start="+start.Format(telemetry.DateOnly)+"&end="+end.Format(telemetry.DateOnly))
	vout.Case(true, "badrange", I(dayNumber(start)), I(dayNumber(end)), st)
}

func oneReportChart(cfg *telemetry.UploadConfig, r *telemetry.Report) {
	e := newEnv()
	defer e.close()
	start := genStart()
	date := start.Format(telemetry.DateOnly)
	data := append(mustJSON(r), '\n')
	objs := e.store(date, []stored{{fmt.Sprintf("%s/%g.json", date, r.X), data, decodeFirst(data)}})
	if st, _ := serve(handleMerge(e.api), "/merge/?date="+date); st != "ok" {
		panic("merge of a well-formed day failed: " + st)
	}
	status, _ := serve(handleChart(tconfig.NewConfig(cfg), e.api), "/chart/?date="+date)
	rc := reqCtx{kind: "live", after: -1}
	fields := []string{"chart"}
	fields = append(fields, rc.tokens()...)
	fields = append(fields, cfgTokens(cfg)...)
	var semKeys, goKeys []string
	for _, p := range cfg.Programs {
		semKeys = append(semKeys, p.Versions...)
	}
	for _, v := range cfg.GoVersion {
		if k, ok := specMajorMinor(v); ok {
			goKeys = append(goKeys, k)
		}
	}
	fields = append(fields, rankTable(semKeys, specCompareSemver)...)
	fields = append(fields, rankTable(goKeys, version.Compare)...)
	fields = append(fields, I(dayNumber(start)), I(dayNumber(start)), I(1), B(true), I(int64(len(objs))))
	for _, o := range objs {
		fields = append(fields, projTokens(o.rep)...)
	}
	fields = append(fields, status)
	if status == "ok" {
		ents, _ := os.ReadDir(filepath.Join(e.dir, "chart"))
		var cd chartdata
		if len(ents) != 1 {
			fields = append(fields, "unparsable")
		} else if b, _ := os.ReadFile(filepath.Join(e.dir, "chart", ents[0].Name())); json.Unmarshal(b, &cd) != nil {
			fields = append(fields, "unparsable")
		} else {
			fields = append(fields, "chartdata", HS(ents[0].Name()))
			fields = append(fields, chartTokens(&cd)...)
		}
	} else {
		fields = append(fields, "nochart")
	}
	fields = append(fields, B(true))
	vout.Case(true, fields...)
}

func genVersionString() string {
	switch vrnd.Intn(6) {
	case 0:
		return Pick(vrnd, goverBad)
	case 1, 2:
		return Pick(vrnd, goverPool)
	default:
		alphabet := "go0123456789.xrc- "
		n := vrnd.Intn(9)
		b := make([]byte, n)
		for i := range b {
			b[i] = alphabet[vrnd.Intn(len(alphabet))]
		}
		return string(b)
	}
}

// gmm: the normalisation of Go versions observed where it shows: the key of the
// GoVersion chart of a one-report day whose report and configuration carry the
// generated version string (plus a second configured version that may
// normalise to the same key).
func caseGMM() {
	v := genVersionString()
	cfg := &telemetry.UploadConfig{GOOS: []string{"linux"}, GOARCH: []string{"amd64"}, GoVersion: []string{v},
		Programs: []*telemetry.ProgramConfig{{Name: Pick(vrnd, []string{"x", "cmd/go"})}}}
	if vrnd.Bool() {
		cfg.GoVersion = append(cfg.GoVersion, genVersionString())
	}
	r := &telemetry.Report{Week: "2024-01-07", LastWeek: "2023-12-31", X: genX(nil), Config: "v0.0.1-test",
		Programs: []*telemetry.ProgramReport{{Program: cfg.Programs[0].Name, Version: "v1.0.0", GoVersion: v, GOOS: "linux", GOARCH: "amd64"}}}
	vout.Note("gmm-through-the-GoVersion-chart")
	oneReportChart(cfg, r)
}

// split: counter-name splitting observed where it shows: a configured counter s,
// a report carrying every expansion of s: the chart's name and the keys of its data.
func caseSplit() {
	var s string
	switch vrnd.Intn(4) {
	case 0:
		s = Pick(vrnd, counterCfgPool)
	default:
		alphabet := "ab:{},}/ "
		n := vrnd.Intn(10)
		b := make([]byte, n)
		for i := range b {
			b[i] = alphabet[vrnd.Intn(len(alphabet))]
		}
		s = string(b)
	}
	// Expand and IsToolchainProgram are exported functions of other packages: observed directly
	fields := []string{"expand", HS(s)}
	fields = append(fields, strList(tconfig.Expand(s))...)
	fields = append(fields, B(telemetry.IsToolchainProgram(s)))
	vout.Case(true, fields...)
	prog := Pick(vrnd, []string{"x", "cmd/go"})
	cfg := &telemetry.UploadConfig{GOOS: []string{"linux"}, GOARCH: []string{"amd64"}, GoVersion: []string{"go1.21"},
		Programs: []*telemetry.ProgramConfig{{Name: prog, Counters: []telemetry.CounterConfig{{Name: s, Rate: 1}}}}}
	counters := map[string]int64{}
	for _, c := range tconfig.Expand(s) {
		if vrnd.Chance(80) {
			counters[c] = 1 + vrnd.Int63n(9)
		}
	}
	if vrnd.Chance(30) {
		counters[s] = 1 // the collapsed name itself, as a stray counter
	}
	r := &telemetry.Report{Week: "2024-01-07", LastWeek: "2023-12-31", X: genX(nil), Config: "v0.0.1-test",
		Programs: []*telemetry.ProgramReport{{Program: prog, Version: "v1.0.0", GoVersion: "go1.21", GOOS: "linux", GOARCH: "amd64", Counters: counters}}}
	vout.Note("split-through-a-counter-chart")
	oneReportChart(cfg, r)
}

// seq: a SEQUENCE of operations on one set of buckets: reports stored, the day
// merged and charted, then reports withdrawn / re-stored under the same name
// (often shorter) / added, the day merged and charted AGAIN, up to three
// rounds.  Nothing is removed by the harness between rounds: every merged and
// chart object is rewritten in place by the real handlers, as the daily
// re-merge of the previous 7 days does.
func caseSeq() {
	e := newEnv()
	defer e.close()
	cfg := genConfig(vrnd.Chance(8))
	ucfg := tconfig.NewConfig(cfg)
	start := genStart()
	ndays := 1 + vrnd.Intn(2)
	if vrnd.Chance(15) {
		start = time.Date(Pick(vrnd, []int{2023, 2024, 2099}), 12, 31, 0, 0, 0, 0, time.UTC)
		ndays = 2
	}
	var dates []string
	for i := 0; i < ndays; i++ {
		dates = append(dates, start.AddDate(0, 0, i).Format(telemetry.DateOnly))
	}
	end := start.AddDate(0, 0, ndays-1)
	var xpool []float64
	for i := 0; i < 3; i++ {
		xpool = append(xpool, genX(nil))
	}
	// value table: one id per distinct canonical line
	type val struct {
		canon []byte
		rep   *telemetry.Report
	}
	var vals []val
	valID := map[string]int{}
	type objEntry struct {
		data []byte
		id   int // -1: does not decode
	}
	var objTab []objEntry
	objSeen := map[string]bool{}
	register := func(data []byte) {
		if objSeen[string(data)] {
			return
		}
		objSeen[string(data)] = true
		r := decodeFirst(data)
		if r == nil {
			objTab = append(objTab, objEntry{data, -1})
			return
		}
		canon := mustJSON(*r)
		id, ok := valID[string(canon)]
		if !ok {
			id = len(vals)
			valID[string(canon)] = id
			vals = append(vals, val{canon, r})
		}
		objTab = append(objTab, objEntry{data, id})
	}
	var ops []string
	nops := 0
	current := map[string][]byte{} // name -> body, the harness's own view of the upload bucket
	put := func(name string, data []byte) {
		w, err := e.api.Upload.Object(name).NewWriter(context.Background())
		if err != nil {
			panic(err)
		}
		w.Write(data)
		w.Close()
		current[name] = data
		register(data)
		ops = append(ops, "put", HS(name), H(data))
		nops++
	}
	del := func(name string) {
		os.Remove(filepath.Join(e.dir, "upload", filepath.FromSlash(name)))
		delete(current, name)
		ops = append(ops, "del", HS(name))
		nops++
	}
	smallReport := func(date string, shrink bool) *telemetry.Report {
		r := genReport(cfg, Pick(vrnd, weekPool[:4]), xpool, 0)
		if shrink {
			if len(r.Programs) > 1 {
				r.Programs = r.Programs[:1]
			}
			for _, p := range r.Programs {
				p.Stacks = nil
				if len(p.Counters) > 1 {
					for k := range p.Counters {
						delete(p.Counters, k)
						break
					}
				}
			}
			if vrnd.Bool() {
				r.Programs = nil
			}
		}
		return r
	}
	sortedNames := func(date string) []string {
		var ns []string
		for n := range current {
			if strings.HasPrefix(n, date) {
				ns = append(ns, n)
			}
		}
		sort.Strings(ns)
		return ns
	}
	rounds := 2 + vrnd.Intn(2)
	shrunk := false
	strayRound := -1
	if vrnd.Chance(50) {
		strayRound = vrnd.Intn(rounds)
		vout.Note("seq-stray-unlistable-dir")
	}
	if start.Year() != end.Year() {
		vout.Note("seq-range-crosses-new-year")
	}
	for round := 0; round < rounds; round++ {
		if round > 0 && vrnd.Chance(30) { // the bucket directory is moved away and replaced by a link to it
			bi := vrnd.Intn(3)
			if linkBucketDir(e.dir, []string{"upload", "merged", "chart"}[bi]) {
				ops = append(ops, "relocate", I(int64(bi)))
				nops++
				vout.Note("seq-bucket-dir-relocated-behind-a-symlink")
			}
		}
		if round == strayRound {
			for _, n := range strayDirs(e, "upload") {
				ops = append(ops, "stray", HS(n))
				nops++
			}
		}
		for _, date := range dates {
			if round == 0 {
				n := 1 + vrnd.Intn(6)
				for i := 0; i < n; i++ {
					r := smallReport(date, false)
					put(fmt.Sprintf("%s/%g-%d.json", date, r.X, i), genObjectBytes(r))
				}
				continue
			}
			names := sortedNames(date)
			shrinkMode := vrnd.Chance(65)
			changed := false
			for _, n := range names {
				switch k := vrnd.Intn(10); {
				case k < 3 || (shrinkMode && !changed):
					if vrnd.Bool() {
						del(n) // withdrawn
					} else {
						put(n, append(mustJSON(smallReport(date, true)), '\n')) // re-stored shorter under the same name
					}
					changed = true
					shrunk = true
				case k < 4:
					put(n, genObjectBytes(smallReport(date, false))) // re-stored, any length
				}
			}
			if !shrinkMode {
				for i := vrnd.Intn(3); i > 0; i-- {
					r := smallReport(date, false)
					put(fmt.Sprintf("%s/%g-r%d-%d.json", date, r.X, round, i), genObjectBytes(r))
				}
			}
		}
		for _, date := range dates {
			var listing []string
			it := e.api.Upload.Objects(context.Background(), date)
			for {
				n, err := it.Next()
				if err != nil {
					break
				}
				listing = append(listing, n)
			}
			status, body := serve(handleMerge(e.api), "/merge/?date="+date)
			count := int64(-1)
			if m := mergedRE.FindStringSubmatch(body); m != nil {
				count, _ = strconv.ParseInt(m[1], 10, 64)
			}
			ops = append(ops, "merge", HS(date))
			ops = append(ops, strList(listing)...)
			ops = append(ops, status, I(count))
			file, ferr := os.ReadFile(filepath.Join(e.dir, "merged", date+".json"))
			if ferr != nil {
				ops = append(ops, "nofile")
			} else {
				ops = append(ops, "file", H(file))
				// the object as a stream of reports
				dec := json.NewDecoder(bytes.NewReader(file))
				var recs []*telemetry.Report
				torn := false
				for dec.More() {
					var r telemetry.Report
					if err := dec.Decode(&r); err != nil {
						torn = true
						break
					}
					recs = append(recs, &r)
				}
				if torn {
					ops = append(ops, "stream-torn")
				} else {
					ops = append(ops, "stream-ok")
				}
				ops = append(ops, I(int64(len(recs))))
				for _, r := range recs {
					ops = append(ops, projTokens(r)...)
				}
			}
			reps, err := readMergedReports(context.Background(), date+".json", e.api)
			if err != nil {
				ops = append(ops, "read-err")
			} else {
				ops = append(ops, "read-ok", I(int64(len(reps))))
				for i := range reps {
					ops = append(ops, projTokens(&reps[i])...)
				}
			}
			nops++
		}
		if round == rounds-1 || vrnd.Chance(75) {
			url := "/chart/?start=" + dates[0] + "&end=" + dates[ndays-1]
			if ndays == 1 && vrnd.Bool() {
				url = "/chart/?date=" + dates[0]
			}
			rc := genReqCtx(ndays)
			{
				var cs []int
				for _, d := range dates {
					cs = append(cs, len(sortedNames(d)))
				}
				rc = withFault(rc, dates, cs)
			}
			chartBefore := dirDigest(filepath.Join(e.dir, "chart"))
			status, _ := serveWith(rc, e.api, func(a *storage.API) content.HandlerFunc { return handleChart(ucfg, a) }, url)
			if rc.kind != "live" {
				vout.Note("seq-chart-request-context-" + rc.kind)
			}
			chartUnchanged := chartBefore == dirDigest(filepath.Join(e.dir, "chart"))
			ops = append(ops, "chart")
			ops = append(ops, rc.tokens()...)
			ops = append(ops, I(dayNumber(start)), I(dayNumber(end)), status, B(chartUnchanged))
			if status == "ok" {
				ents, _ := os.ReadDir(filepath.Join(e.dir, "chart"))
				if len(ents) != 1 {
					ops = append(ops, "unparsable")
				} else {
					b, _ := os.ReadFile(filepath.Join(e.dir, "chart", ents[0].Name()))
					var cd chartdata
					if err := json.Unmarshal(b, &cd); err != nil {
						ops = append(ops, "unparsable")
					} else {
						ops = append(ops, "chartdata", HS(ents[0].Name()))
						ops = append(ops, chartTokens(&cd)...)
					}
				}
			} else {
				ops = append(ops, "nochart")
			}
			nops++
		}
	}
	fields := []string{"seq"}
	fields = append(fields, cfgTokens(cfg)...)
	var semKeys, goKeys []string
	for _, p := range cfg.Programs {
		semKeys = append(semKeys, p.Versions...)
	}
	for _, v := range cfg.GoVersion {
		if k, ok := specMajorMinor(v); ok {
			goKeys = append(goKeys, k)
		}
	}
	fields = append(fields, rankTable(semKeys, specCompareSemver)...)
	fields = append(fields, rankTable(goKeys, version.Compare)...)
	fields = append(fields, I(int64(len(vals))))
	for _, v := range vals {
		fields = append(fields, H(v.canon))
		fields = append(fields, projTokens(v.rep)...)
	}
	fields = append(fields, I(int64(len(objTab))))
	for _, o := range objTab {
		fields = append(fields, H(o.data), I(int64(o.id)))
	}
	fields = append(fields, I(int64(nops)))
	fields = append(fields, ops...)
	if shrunk {
		vout.Note("seq-stored-set-shrinks-before-a-re-merge")
	} else {
		vout.Note("seq-stored-set-only-grows")
	}
	vout.Note(fmt.Sprintf("seq-%d-rounds", rounds))
	vout.Case(true, fields...)
}

// copy: the real handleCopy from a source bucket ("prod-telemetry-uploaded",
// an FS bucket under the same local storage) into the upload bucket, over a
// generated range; observed: every object of the destination afterwards.
func caseCopy() {
	e := newEnv()
	defer e.close()
	ctx := context.Background()
	src, err := storage.NewFSBucket(ctx, e.dir, "prod-telemetry-uploaded")
	if err != nil {
		panic(err)
	}
	wcfg := &config.Config{LocalStorage: e.dir, UploadBucket: "upload"}
	start := genStart()
	ndays := 1 + vrnd.Intn(9)
	if vrnd.Chance(8) {
		ndays = 300 + vrnd.Intn(500)
	}
	end := start.AddDate(0, 0, ndays-1)
	write := func(b storage.BucketHandle, name string, data []byte) {
		w, err := b.Object(name).NewWriter(ctx)
		if err != nil {
			panic(err)
		}
		w.Write(data)
		w.Close()
	}
	fields := []string{"copy", I(dayNumber(start)), I(dayNumber(end))}
	// source objects: in, just before and just after the range
	srcObjs := map[string][]byte{}
	nsrc := vrnd.Intn(12)
	for i := 0; i < nsrc; i++ {
		off := vrnd.Intn(ndays+4) - 2
		if vrnd.Chance(40) {
			off = Pick(vrnd, []int{0, ndays - 1, ndays / 2, -1, ndays})
		}
		date := start.AddDate(0, 0, off).Format(telemetry.DateOnly)
		name := fmt.Sprintf("%s/%d.json", date, vrnd.Intn(5))
		srcObjs[name] = vrnd.Bytes(1 + vrnd.Intn(40))
	}
	var names []string
	for n := range srcObjs {
		names = append(names, n)
	}
	sort.Strings(names)
	fields = append(fields, I(int64(len(names))))
	for _, n := range names {
		write(src, n, srcObjs[n])
		fields = append(fields, HS(n), H(srcObjs[n]))
	}
	if vrnd.Chance(30) {
		strayDirs(e, "prod-telemetry-uploaded")
		vout.Note("copy-stray-unlistable-dir")
	}
	// destination objects already there, some under a source name with longer content
	var dnames []string
	dstObjs := map[string][]byte{}
	for i := vrnd.Intn(3); i > 0; i-- {
		n := fmt.Sprintf("%s/d%d.json", start.Format(telemetry.DateOnly), i)
		if len(names) > 0 && vrnd.Bool() {
			n = Pick(vrnd, names)
		}
		if _, ok := dstObjs[n]; !ok {
			dstObjs[n] = vrnd.Bytes(30 + vrnd.Intn(40))
			dnames = append(dnames, n)
		}
	}
	sort.Strings(dnames)
	fields = append(fields, I(int64(len(dnames))))
	for _, n := range dnames {
		write(e.api.Upload, n, dstObjs[n])
		fields = append(fields, HS(n), H(dstObjs[n]))
	}
	status, _ := serve(handleCopy(wcfg, e.api), "/copy/?start="+start.Format(telemetry.DateOnly)+"&end="+end.Format(telemetry.DateOnly))
	// the destination afterwards, by the harness's own walk
	after := map[string][]byte{}
	root := filepath.Join(e.dir, "upload")
	if r, err := filepath.EvalSymlinks(root); err == nil {
		root = r // filepath.WalkDir does not follow a link at its root
	}
	filepath.WalkDir(root, func(path string, d os.DirEntry, err error) error {
		if err != nil || d.IsDir() {
			return nil
		}
		rel, _ := filepath.Rel(root, path)
		b, _ := os.ReadFile(path)
		after[filepath.ToSlash(rel)] = b
		return nil
	})
	var anames []string
	for n := range after {
		anames = append(anames, n)
	}
	sort.Strings(anames)
	fields = append(fields, status, I(int64(len(anames))))
	for _, n := range anames {
		fields = append(fields, HS(n), H(after[n]))
	}
	if start.Year() != end.Year() {
		vout.Note("copy-range-crosses-new-year")
	}
	vout.Case(true, fields...)
}

// ---------------------------------------------------------------- descriptors

// fdBucket wraps a bucket and counts the readers and writers that are open.
// With budget > 0, NewReader fails like open(2) does at RLIMIT_NOFILE (EMFILE)
// when `budget` readers are already open.
type fdState struct {
	openR, peakR, openW, budget int
	refused                      int
	onOpen                       func() // called before each NewReader
	faultName                    string // object whose reader fails ...
	faultAfter                   int    // ... after delivering this many records (lines)
}

// faultReader delivers the first `after` lines of the object, one line per
// Read (a short read ending at the newline), and then fails like a broken
// network stream.
type faultReader struct {
	lines [][]byte
	cur   []byte
	after int
	given int
}

func (r *faultReader) Read(p []byte) (int, error) {
	if len(r.cur) == 0 {
		if r.given >= r.after || r.given >= len(r.lines) {
			return 0, errors.New("read tcp 10.0.0.1:443: connection reset by peer")
		}
		r.cur = r.lines[r.given]
		r.given++
	}
	n := copy(p, r.cur)
	r.cur = r.cur[n:]
	return n, nil
}
func (r *faultReader) Close() error { return nil }
type fdBucket struct {
	storage.BucketHandle
	st *fdState
}
type fdObject struct {
	storage.ObjectHandle
	st   *fdState
	name string
}
type fdReader struct {
	io.ReadCloser
	st     *fdState
	closed bool
}
type fdWriter struct {
	io.WriteCloser
	st     *fdState
	closed bool
}

func (b *fdBucket) Object(name string) storage.ObjectHandle {
	return &fdObject{b.BucketHandle.Object(name), b.st, name}
}
func (o *fdObject) NewReader(ctx context.Context) (io.ReadCloser, error) {
	if o.st.onOpen != nil {
		o.st.onOpen()
	}
	if o.st.budget > 0 && o.st.openR >= o.st.budget {
		o.st.refused++
		return nil, &os.PathError{Op: "open", Path: "object", Err: syscall.EMFILE}
	}
	r, err := o.ObjectHandle.NewReader(ctx)
	if err != nil {
		return nil, err
	}
	if o.st.faultName != "" && o.name == o.st.faultName {
		data, _ := io.ReadAll(r)
		r.Close()
		fr := &faultReader{after: o.st.faultAfter}
		for _, l := range bytes.SplitAfter(data, []byte("\n")) {
			if len(l) > 0 {
				fr.lines = append(fr.lines, l)
			}
		}
		o.st.openR++
		if o.st.openR > o.st.peakR {
			o.st.peakR = o.st.openR
		}
		return &fdReader{fr, o.st, false}, nil
	}
	o.st.openR++
	if o.st.openR > o.st.peakR {
		o.st.peakR = o.st.openR
	}
	return &fdReader{r, o.st, false}, nil
}
func (r *fdReader) Close() error {
	if !r.closed {
		r.closed = true
		r.st.openR--
	}
	return r.ReadCloser.Close()
}
func (o *fdObject) NewWriter(ctx context.Context) (io.WriteCloser, error) {
	w, err := o.ObjectHandle.NewWriter(ctx)
	if err != nil {
		return nil, err
	}
	o.st.openW++
	return &fdWriter{w, o.st, false}, nil
}
func (w *fdWriter) Close() error {
	if !w.closed {
		w.closed = true
		w.st.openW--
	}
	return w.WriteCloser.Close()
}

func openFDs() (count, maxfd int) {
	ents, _ := os.ReadDir("/proc/self/fd")
	for _, en := range ents {
		if n, err := strconv.Atoi(en.Name()); err == nil {
			count++
			if n > maxfd {
				maxfd = n
			}
		}
	}
	return count - 1, maxfd // minus the descriptor of the ReadDir itself
}

// fd: a day with MORE stored reports than descriptors available for readers:
// either the counting bucket with a budget, or the real RLIMIT_NOFILE lowered
// for the duration of the request.  Observed: status, count, the merged
// records, the peak number of readers open at once, what is still open after
// the request (counting bucket and /proc/self/fd), then a chart of the day.
func caseFD() {
	e := newEnv()
	defer e.close()
	date := genStart().Format(telemetry.DateOnly)
	n := 8 + vrnd.Intn(50)
	if vrnd.Chance(10) {
		n = vrnd.Intn(4)
	}
	useRlimit := vrnd.Chance(35)
	budget := 1 + vrnd.Intn(6)
	var objs []stored
	for i := 0; i < n; i++ {
		r := genReport(nil, Pick(vrnd, weekPool[:4]), nil, 0)
		data := append(mustJSON(r), '\n')
		objs = append(objs, stored{fmt.Sprintf("%s/%g-%d.json", date, r.X, i), data, decodeFirst(data)})
	}
	if vrnd.Chance(10) && n > 0 {
		i := vrnd.Intn(n)
		objs[i].data = genMalformedObject()
		objs[i].rep = decodeFirst(objs[i].data)
	}
	inOrder := e.store(date, objs)
	st := &fdState{}
	api := &storage.API{Upload: &fdBucket{e.api.Upload, st}, Merge: &fdBucket{e.api.Merge, st}, Chart: &fdBucket{e.api.Chart, st}}
	fdBefore, maxfd := openFDs()
	var old syscall.Rlimit
	if useRlimit {
		syscall.Getrlimit(syscall.RLIMIT_NOFILE, &old)
		budget = 6 // descriptors above the highest one in use: the writer, the directory walk, and room for a few readers
		lim := old
		lim.Cur = uint64(maxfd + 1 + budget)
		if err := syscall.Setrlimit(syscall.RLIMIT_NOFILE, &lim); err != nil {
			useRlimit = false
		}
	}
	if !useRlimit {
		st.budget = budget
	}
	status, body := serve(handleMerge(api), "/merge/?date="+date)
	if useRlimit {
		syscall.Setrlimit(syscall.RLIMIT_NOFILE, &old)
	}
	fdAfter, _ := openFDs()
	count := int64(-1)
	if m := mergedRE.FindStringSubmatch(body); m != nil {
		count, _ = strconv.ParseInt(m[1], 10, 64)
	}
	fields := []string{"fd", B(useRlimit), I(int64(budget)), I(int64(len(inOrder)))}
	for _, o := range inOrder {
		if o.rep == nil {
			fields = append(fields, "bad")
		} else {
			fields = append(fields, "good")
			fields = append(fields, projTokens(o.rep)...)
		}
	}
	fields = append(fields, status, I(count))
	var recs []*telemetry.Report
	torn := false
	if file, err := os.ReadFile(filepath.Join(e.dir, "merged", date+".json")); err == nil {
		dec := json.NewDecoder(bytes.NewReader(file))
		for dec.More() {
			var r telemetry.Report
			if err := dec.Decode(&r); err != nil {
				torn = true
				break
			}
			recs = append(recs, &r)
		}
	}
	fields = append(fields, B(torn), I(int64(len(recs))))
	for _, r := range recs {
		fields = append(fields, projTokens(r)...)
	}
	fields = append(fields, I(int64(st.peakR)), I(int64(st.openR)), I(int64(st.openW)), I(int64(fdAfter-fdBefore)))
	// the chart of the day through the same counting buckets (no budget)
	st.budget = 0
	st.peakR = 0
	cst, _ := serve(handleChart(tconfig.NewConfig(genConfig(false)), api), "/chart/?date="+date)
	fdAfter2, _ := openFDs()
	fields = append(fields, cst, I(int64(st.peakR)), I(int64(st.openR)), I(int64(st.openW)), I(int64(fdAfter2-fdBefore)))
	if useRlimit {
		vout.Note("fd-real-RLIMIT_NOFILE-lowered")
	} else {
		vout.Note("fd-reader-budget")
	}
	if n > budget {
		vout.Note("fd-more-reports-than-descriptors")
	}
	vout.Case(true, fields...)
}

// watchdog: a case that does not finish is reported with its number, and the
// harness ends cleanly so that the check can name it.
func runCase(i int, name string, f func()) {
	done := make(chan struct{})
	go func() {
		defer close(done)
		f()
	}()
	select {
	case <-done:
	case <-time.After(120 * time.Second):
		vout.Case(true, "hang", name, I(int64(i)))
		vout.Close()
		os.RemoveAll(vroot)
		os.Exit(0)
	}
}

func vhMain() {
	slog.SetDefault(slog.New(slog.NewTextHandler(io.Discard, nil)))
	outPath := os.Args[1]
	n, _ := strconv.Atoi(os.Args[2])
	vtier = os.Getenv("VERIF_TIER")
	vrnd = NewRand(Seed())
	vout = NewOut(outPath)
	var err error
	vroot, err = os.MkdirTemp("", "vh_worker")
	if err != nil {
		panic(err)
	}
	defer os.RemoveAll(vroot)
	// warm up the runtime's poller so that descriptor counts taken later compare like with like
	if f, err := os.CreateTemp(vroot, "warm"); err == nil {
		f.Close()
	}
	openFDs()
	for i := 0; i < n; i++ {
		k := i % 20
		runCase(i, fmt.Sprintf("slot-%d", k), func() {
			switch {
			case k < 5:
				caseMerge()
			case k == 5:
				caseReadRaw()
				caseFD()
			case k < 14:
				caseChart()
			case k < 16:
				caseSeq()
			case k == 16:
				caseChartBadRange()
				caseCopy()
			case k == 17:
				caseGMM()
				caseGMM()
				caseGMM()
			default:
				caseSplit()
				caseSplit()
			}
		})
	}
	vout.Close()
}
