//go:build verif

package main

// Correspondence harness for C12 (upload endpoint), injected into a scratch
// copy of the repository (never into /repo).  It runs when the binary is
// started with VERIF_HARNESS=endpoint (see harness/cmd/vh_endpoint) and
// drives the REAL handler built by newHandler (mux + Log, Timeout,
// RequestSize, Recover middlewares + handleUpload + validate) over file
// system buckets in a temporary directory.
//
// One case line = one session on a fresh storage directory:
//
//	sess <foreign> <cfg> <tree> <k> {req}
//	cfg  = <n>{h goos} <n>{h goarch} <n>{h goversion} <n>{h name <n>{h version} <n>{h counter} <n>{h stack}}
//	tree = <n> {h<path relative to the upload bucket dir> <d|f> h<content>}
//	req  = h<method> h<url path> <transport> <declared Content-Length> <framing ok> h<bytes sent after the header when ill-framed> h<body prefix> <pad byte> <pad count> h<body suffix> <size_ok>
//	       <dec> <2xx|3xx|4xx|5xx> <outside_ok> <na|same|differs> <tree>
//	dec  = err | ok h<week> h<lastweek> <xzero> h<%g of X> h<config> <semver ok> <n>{prog} h<json.Marshal(report)>
//	prog = nil | p h<program> h<version> h<goversion> h<goos> h<goarch> <n>{h<counter> <value>} <n>{h<stack> <value>}

import (
	"bufio"
	"bytes"
	"context"
	"encoding/json"
	"errors"
	"fmt"
	"io"
	"io/fs"
	"math"
	"net"
	"net/http"
	"net/http/httptest"
	"os"
	"path/filepath"
	"reflect"
	"sort"
	"strconv"
	"strings"
	"sync"
	"time"

	"golang.org/x/exp/slog"
	"golang.org/x/mod/semver"
	"golang.org/x/telemetry/godev/internal/config"
	. "golang.org/x/telemetry/godev/internal/verifh/vhlib"
	"golang.org/x/telemetry/internal/telemetry"
)

func init() {
	if os.Getenv("VERIF_HARNESS") == "endpoint" {
		verifEndpointMain()
		os.Exit(0)
	}
}

var vrnd *Rand
var vout *Out
var vroot string

var verifUploadConfig = telemetry.UploadConfig{
	GOOS:       []string{"linux", "darwin"},
	GOARCH:     []string{"amd64", "arm64"},
	GoVersion:  []string{"go1.20", "go1.20.1", "go1.21.0", "go1.22.3"}, // go1.22.3: a Go version no program lists as ITS version
	SampleRate: 1,
	Programs: []*telemetry.ProgramConfig{
		{Name: "golang.org/x/tools/gopls", Versions: []string{"v0.10.1", "v0.11.0"},
			Counters: []telemetry.CounterConfig{{Name: "editor:{emacs,vim,vscode,other}", Rate: 0.01}, {Name: "plain", Rate: 1},
				{Name: "single:{only}", Rate: 1}, {Name: "trail:{a,}", Rate: 1}},
			Stacks: []telemetry.CounterConfig{{Name: "gopls/bug", Rate: 1, Depth: 16}}},
		{Name: "cmd/go", Versions: []string{"go1.20", "go1.20.1"},
			Counters: []telemetry.CounterConfig{{Name: "go/invocations", Rate: 1}, {Name: "flag:{a,b}", Rate: 1},
				{Name: "go/build/flag:{buildmode}", Rate: 1}, {Name: "empty:{}", Rate: 1}}},
		// a second entry for the same program: the index is the union
		{Name: "cmd/go", Versions: []string{"go1.21.0"},
			Counters: []telemetry.CounterConfig{{Name: "go/extra", Rate: 1}, {Name: "open:{x,y", Rate: 1}},
			Stacks:   []telemetry.CounterConfig{{Name: "go/crash", Rate: 1, Depth: 8}}},
	},
}

func cfgTokens() []string {
	list := func(xs []string) []string {
		t := []string{I(int64(len(xs)))}
		for _, x := range xs {
			t = append(t, HS(x))
		}
		return t
	}
	c := &verifUploadConfig
	var t []string
	t = append(t, list(c.GOOS)...)
	t = append(t, list(c.GOARCH)...)
	t = append(t, list(c.GoVersion)...)
	t = append(t, I(int64(len(c.Programs))))
	for _, p := range c.Programs {
		t = append(t, HS(p.Name))
		t = append(t, list(p.Versions)...)
		var cs []string
		for _, cc := range p.Counters {
			cs = append(cs, cc.Name) // the configured (collapsed) name; the model expands it by the documented rule
		}
		t = append(t, list(cs)...)
		var ss []string
		for _, sc := range p.Stacks {
			ss = append(ss, sc.Name)
		}
		t = append(t, list(ss)...)
	}
	return t
}

func vsnapshot(dir string, skip string) map[string]string {
	m := map[string]string{}
	filepath.WalkDir(dir, func(p string, d fs.DirEntry, err error) error {
		if err != nil {
			m[p] = "err:" + err.Error()
			return nil
		}
		if skip != "" && (p == skip || strings.HasPrefix(p, skip+string(filepath.Separator))) {
			if d.IsDir() {
				return filepath.SkipDir
			}
			return nil
		}
		rel, _ := filepath.Rel(dir, p)
		if d.IsDir() {
			m[rel] = "d"
		} else {
			b, _ := os.ReadFile(p)
			m[rel] = "f" + string(b)
		}
		return nil
	})
	return m
}

func vtree(dir string) ([]string, map[string][]byte) {
	var fields []string
	files := map[string][]byte{}
	n := 0
	filepath.WalkDir(dir, func(p string, d fs.DirEntry, err error) error {
		if err != nil || p == dir {
			return nil
		}
		rel, _ := filepath.Rel(dir, p)
		rel = filepath.ToSlash(rel)
		n++
		if d.IsDir() {
			fields = append(fields, HS(rel), "d", H(nil))
		} else {
			b, _ := os.ReadFile(p)
			files[rel] = b
			fields = append(fields, HS(rel), "f", H(b))
		}
		return nil
	})
	return append([]string{I(int64(n))}, fields...), files
}

// ---- report and body generation ----

var vhostileWeeks = []string{"../x", "2024-1-01", "2024-01-01/..", "2024-01-011", "2024-01-0", "", "2024/01/01", "..", ".",
	"2024-13-01", "2024-02-30", "2023-02-29", "2024-01-01 ", " 2024-01-01", "+024-01-01", "2024-00-10", "2024-01-00",
	"2024-01-32", "20240101", "/024-01-01", "2024-0/-01", "2024-01-/1", "2024.01.01", "2024-01-01/../../x", "2024-01-01\x00",
	"../../../../outside", "2024-01-01/../../../local-telemetry-merged/x", "a/b", "\xff\xfe24-01-01"}

var vweeks = []string{"2024-01-01", "2024-02-29", "2023-12-31", "0000-01-01", "9999-12-31", "2024-01-08"}

// X as a JSON literal
var vxGood = []string{"0.5", "0.1", "0.123", "1e-320", "5e-324", "1e300", "-0.5", "1", "123456789", "1e21", "1e20", "0.000001",
	"1e-5", "0.30000000000000004", "1.7976931348623157e308", "-1e-320", "2.5e-8", "7", "0.5000", "5E-1", "0.00001"}
var vxZero = []string{"0", "-0", "0.0", "-0.0", "0e5", "0E-3", "1e-400", "-1e-999"}
var vxBad = []string{"1e400", "-1e400", "\"0.5\"", "null", "true", "[0.5]", "{}", "NaN", "Infinity", "0x1p-2", ".5", "5.", "+0.5", "1e", "--1"}

type vreportSpec struct {
	week, lastWeek, x, config string // x, config: raw JSON literals are built from these
	xLiteral                  string
	programs                  []*telemetry.ProgramReport
	programsRaw               string // overrides programs when non-empty
	extra                     string // extra members
	keyCase                   int
}

func jstr(s string) string {
	b, _ := json.Marshal(s)
	return string(b)
}

func (s *vreportSpec) body() []byte {
	progs := s.programsRaw
	if progs == "" {
		b, _ := json.Marshal(s.programs)
		progs = string(b)
	}
	k := func(name string) string {
		switch s.keyCase {
		case 1:
			return strings.ToLower(name)
		case 2:
			return strings.ToUpper(name)
		}
		return name
	}
	return []byte(fmt.Sprintf(`{%q:%s,%q:%s,%q:%s,%q:%s,%q:%s%s}`, k("Week"), jstr(s.week), k("LastWeek"), jstr(s.lastWeek),
		k("X"), s.xLiteral, k("Programs"), progs, k("Config"), s.config, s.extra))
}

func goodProgram() *telemetry.ProgramReport {
	if vrnd.Bool() {
		p := &telemetry.ProgramReport{Program: "golang.org/x/tools/gopls", Version: Pick(vrnd, []string{"v0.10.1", "v0.11.0"}),
			GoVersion: Pick(vrnd, verifUploadConfig.GoVersion), GOOS: Pick(vrnd, verifUploadConfig.GOOS), GOARCH: Pick(vrnd, verifUploadConfig.GOARCH)}
		if vrnd.Chance(70) {
			p.Counters = map[string]int64{}
			for i := vrnd.Intn(3); i >= 0; i-- {
				p.Counters[Pick(vrnd, []string{"editor:emacs", "editor:vim", "editor:vscode", "editor:other", "plain", "single:only", "single:only", "trail:a", "trail:"})] = vrnd.Int63n(1000)
			}
		}
		if vrnd.Chance(40) {
			p.Stacks = map[string]int64{Pick(vrnd, []string{"gopls/bug", "gopls/bug\nruntime.main:1\nmain.f:+2", "gopls/bug\n"}): 1 + vrnd.Int63n(5)}
		}
		return p
	}
	p := &telemetry.ProgramReport{Program: "cmd/go", Version: Pick(vrnd, []string{"go1.20", "go1.20.1", "go1.21.0"}),
		GoVersion: Pick(vrnd, verifUploadConfig.GoVersion), GOOS: Pick(vrnd, verifUploadConfig.GOOS), GOARCH: Pick(vrnd, verifUploadConfig.GOARCH)}
	if vrnd.Chance(70) {
		p.Counters = map[string]int64{Pick(vrnd, []string{"go/invocations", "flag:a", "flag:b", "go/extra", "go/build/flag:buildmode", "go/build/flag:buildmode", "empty:", "open:x", "open:y"}): vrnd.Int63n(1 << 40)}
	}
	if vrnd.Chance(30) {
		p.Stacks = map[string]int64{"go/crash\nmain.main:3": 2}
	}
	return p
}

// one field of one program made invalid
func badProgram() *telemetry.ProgramReport {
	p := goodProgram()
	switch vrnd.Intn(9) {
	case 0:
		p.GOOS = Pick(vrnd, []string{"beos", "", "Linux", "linux "})
	case 1:
		p.GOARCH = Pick(vrnd, []string{"386", "", "amd64\x00"})
	case 2:
		p.GoVersion = Pick(vrnd, []string{"go1.19", "", "devel", "go1.20.2"})
	case 3:
		p.Program = Pick(vrnd, []string{"example.com/evil", "", "cmd/go ", "gopls"})
	case 4:
		p.Version = Pick(vrnd, []string{"v9.9.9", "", "v0.10.1 "})
	case 5:
		if p.Counters == nil {
			p.Counters = map[string]int64{}
		}
		p.Counters[Pick(vrnd, []string{"editor:{emacs,vim,vscode,other}", "editor:", "editor:nano", "unknown", "", "editor", "flag:{a,b}", "gopls/bug"})] = 1
	case 6:
		if p.Stacks == nil {
			p.Stacks = map[string]int64{}
		}
		p.Stacks[Pick(vrnd, []string{"unknown/stack", "unknown\ngopls/bug", "\ngopls/bug", "gopls/bug ", "", "plain"})] = 1
	case 7: // a counter of the other program
		if p.Program == "cmd/go" {
			p.Counters = map[string]int64{"editor:vim": 1}
		} else {
			p.Counters = map[string]int64{"go/invocations": 1}
		}
	default: // a version of the other program
		if p.Program == "cmd/go" {
			p.Version = "v0.10.1"
		} else {
			p.Version = "go1.20"
		}
	}
	return p
}

// confusedProgram: a fully approved program report with exactly ONE item added
// that the configuration knows, but under another kind, another program or
// another counter ("kind confusion").  Counters and stacks are separate
// tables per program: every such report must be refused.
func confusedProgram() (*telemetry.ProgramReport, string) {
	p := goodProgram()
	gopls := p.Program == "golang.org/x/tools/gopls"
	if p.Counters == nil {
		p.Counters = map[string]int64{}
	}
	if p.Stacks == nil {
		p.Stacks = map[string]int64{}
	}
	pick := func(forGopls, forGo []string) string {
		if gopls {
			return Pick(vrnd, forGopls)
		}
		return Pick(vrnd, forGo)
	}
	switch vrnd.Intn(11) {
	case 10: // (k) a program Version taken from another table: the global GoVersion list, or the other program's versions
		if gopls {
			p.Version = Pick(vrnd, []string{"go1.22.3", "go1.20", "go1.21.0"})
		} else {
			p.Version = Pick(vrnd, []string{"go1.22.3", "go1.22.3", "v0.10.1"}) // cmd/go: a configured Go version, not a configured version of cmd/go
		}
		return p, "version-from-another-table"
	case 9: // (j) the configuration's own (collapsed) spelling of a counter, or a piece of it, used as the counter name
		p.Counters[pick([]string{"single:{only}", "single:", "single", "single:{only", "trail:{a,}", "trail:a,", "editor:{emacs,vim,vscode,other}", "editor:{vim}"},
			[]string{"go/build/flag:{buildmode}", "go/build/flag:", "go/build/flag", "empty:{}", "empty", "open:{x,y", "open:x,y", "flag:{a,b}", "flag:{a}"})] = 1
		return p, "collapsed-config-spelling-as-counter"
	case 6: // (g) an approved counter name followed by a newline and free text: plain counters are judged by their WHOLE name
		base := pick([]string{"editor:vim", "editor:emacs", "plain"}, []string{"go/invocations", "flag:a", "go/extra"})
		p.Counters[base+Pick(vrnd, []string{"\n", "\n/home/alice/secret-project/main.go:12", "\nmain.main:3\nruntime.main:1", "\n\n", "\nx"})] = 1 + vrnd.Int63n(9)
		return p, "counter-name-plus-newline-text"
	case 7: // (h) a whole stack record (approved stack name + frames) filed under Counters
		p.Counters[pick([]string{"gopls/bug\nruntime.main:1", "gopls/bug\n"}, []string{"go/crash\nmain.main:3", "go/crash\n"})] = 1
		return p, "stack-record-as-counter"
	case 8: // (i) stack names that only CONTAIN an approved name after the first newline, or before a different separator
		p.Stacks[pick([]string{"unknown\ngopls/bug", "\ngopls/bug\nf:1", "gopls/bug \nf:1", "gopls/bug\tf:1", "gopls/bug\r\nf:1"},
			[]string{"unknown\ngo/crash", "\ngo/crash", "go/crash \nmain.main:3", "go/crash\r\nmain.main:3"})] = 1
		return p, "stack-name-not-before-first-newline"
	case 0: // (a) a configured STACK name of the same program used as a plain counter
		p.Counters[pick([]string{"gopls/bug"}, []string{"go/crash"})] = 1 + vrnd.Int63n(9)
		return p, "stack-name-as-counter"
	case 1: // (b) a configured counter of ANOTHER program
		p.Counters[pick([]string{"go/invocations", "flag:a", "go/extra"}, []string{"editor:vim", "plain", "editor:other"})] = 1
		return p, "counter-of-other-program"
	case 2: // (c) an expansion prefix without its bucket
		p.Counters[pick([]string{"editor", "editor:"}, []string{"flag", "flag:"})] = 1
		return p, "counter-prefix-without-bucket"
	case 3: // (d) a bucket of another counter
		p.Counters[pick([]string{"editor:a", "editor:b", "plain:vim", "editor:plain"}, []string{"flag:vim", "flag:emacs", "go/invocations:a", "go/extra:b"})] = 1
		return p, "bucket-of-other-counter"
	case 4: // (e) a configured COUNTER name used as a stack
		p.Stacks[pick([]string{"plain", "editor:vim", "plain\nmain.f:1", "editor:emacs\nruntime.main:2"},
			[]string{"go/invocations", "flag:a", "go/extra\nmain.main:1", "flag:b\nx:3"})] = 1
		return p, "counter-name-as-stack"
	default: // (f) a stack name of another program
		p.Stacks[pick([]string{"go/crash", "go/crash\nmain.main:3"}, []string{"gopls/bug", "gopls/bug\nruntime.main:1"})] = 1
		return p, "stack-of-other-program"
	}
}

func goodSpec(pool [][2]string) *vreportSpec {
	wx := Pick(vrnd, pool)
	s := &vreportSpec{week: wx[0], xLiteral: wx[1], lastWeek: Pick(vrnd, []string{"", "2023-12-25", "x"}),
		config: jstr(Pick(vrnd, []string{"v1.2.3", "v0.0.1-test", "v0.0.0-20230822160736-17171dbf1d76", "v1", "v1.2"}))}
	switch vrnd.Intn(5) {
	case 0:
		s.programsRaw = "null"
	case 1:
		s.programs = []*telemetry.ProgramReport{}
	default:
		for i := vrnd.Intn(3); i >= 0; i-- {
			s.programs = append(s.programs, goodProgram())
		}
	}
	return s
}

type vbody struct {
	prefix   []byte
	pad      byte
	padCount int
	suffix   []byte
}

func (b *vbody) bytes() []byte {
	out := make([]byte, 0, len(b.prefix)+b.padCount+len(b.suffix))
	out = append(out, b.prefix...)
	out = append(out, bytes.Repeat([]byte{b.pad}, b.padCount)...)
	return append(out, b.suffix...)
}

func plain(b []byte) *vbody { return &vbody{prefix: b, pad: ' '} }

// genBody returns the body and a label for the input distribution
func genBody(pool [][2]string, limit int) (*vbody, string) {
	switch k := vrnd.Intn(100); {
	case k < 23:
		return plain(goodSpec(pool).body()), "valid"
	case k < 30: // one item of an otherwise fully valid report is of the wrong kind / program / counter
		s := goodSpec(pool)
		s.programsRaw = ""
		s.programs = nil
		for i := vrnd.Intn(2); i > 0; i-- {
			s.programs = append(s.programs, goodProgram())
		}
		cp, label := confusedProgram()
		s.programs = append(s.programs, cp)
		if vrnd.Bool() {
			s.programs[0], s.programs[len(s.programs)-1] = s.programs[len(s.programs)-1], s.programs[0]
		}
		return plain(s.body()), "confusion-" + label
	case k < 38: // invalid week
		s := goodSpec(pool)
		s.week = Pick(vrnd, vhostileWeeks)
		return plain(s.body()), "week-invalid"
	case k < 43: // config not a semantic version
		s := goodSpec(pool)
		s.config = jstr(Pick(vrnd, []string{"", "1.2.3", "v1.2.3.4", "vx", "v01.2.3", "latest", "v1.2.3+", "V1.2.3", "v1.2.3-", " v1.2.3"}))
		return plain(s.body()), "config-invalid"
	case k < 49: // X zero in its spellings
		s := goodSpec(pool)
		s.xLiteral = Pick(vrnd, vxZero)
		return plain(s.body()), "x-zero"
	case k < 53: // X not a finite JSON number
		s := goodSpec(pool)
		s.xLiteral = Pick(vrnd, vxBad)
		return plain(s.body()), "x-not-a-number"
	case k < 63: // one program field not approved
		s := goodSpec(pool)
		s.programsRaw = ""
		s.programs = nil
		for i := vrnd.Intn(2); i >= 0; i-- {
			s.programs = append(s.programs, goodProgram())
		}
		s.programs = append(s.programs, badProgram())
		if vrnd.Bool() {
			s.programs[0], s.programs[len(s.programs)-1] = s.programs[len(s.programs)-1], s.programs[0]
		}
		return plain(s.body()), "program-not-approved"
	case k < 67: // null program entries
		s := goodSpec(pool)
		s.programsRaw = Pick(vrnd, []string{"[null]", "[null,null]"})
		if vrnd.Bool() {
			g, _ := json.Marshal(goodProgram())
			bp, _ := json.Marshal(badProgram())
			s.programsRaw = Pick(vrnd, []string{"[" + string(g) + ",null]", "[" + string(bp) + ",null]", "[null," + string(bp) + "]"})
		}
		return plain(s.body()), "null-program"
	case k < 72: // wrong member types
		s := goodSpec(pool)
		switch vrnd.Intn(6) {
		case 0:
			b := s.body()
			return plain(bytes.Replace(b, []byte(jstr(s.week)), []byte("20240101"), 1)), "wrong-type"
		case 1:
			s.programsRaw = Pick(vrnd, []string{"{}", "\"x\"", "[1]", "[[]]", "7"})
		case 2:
			s.programsRaw = `[{"Program":"cmd/go","Version":"go1.20","GoVersion":"go1.20","GOOS":"linux","GOARCH":"amd64","Counters":{"go/invocations":1.5}}]`
		case 3:
			s.programsRaw = `[{"Program":"cmd/go","Version":"go1.20","GoVersion":"go1.20","GOOS":"linux","GOARCH":"amd64","Counters":["go/invocations"]}]`
		case 4:
			s.programsRaw = `[{"Program":"cmd/go","Version":"go1.20","GoVersion":"go1.20","GOOS":"linux","GOARCH":"amd64","Counters":{"go/invocations":9223372036854775808}}]`
		default:
			s.config = Pick(vrnd, []string{"1", "null", "[\"v1.2.3\"]"})
		}
		return plain(s.body()), "wrong-type"
	case k < 77: // truncated
		b := goodSpec(pool).body()
		return plain(b[:vrnd.Intn(len(b))]), "truncated"
	case k < 82: // trailing data
		b := goodSpec(pool).body()
		t := Pick(vrnd, []string{"x", "{}", " ", "\n", "\n\n \t", "}", "\x00", string(b), "null", ","})
		return &vbody{prefix: b, pad: ' ', suffix: []byte(t)}, "trailing-data"
	case k < 85: // arbitrary bytes
		return plain(vrnd.Bytes(vrnd.Intn(64))), "arbitrary-bytes"
	case k < 89: // unusual but decodable: key case, unknown members, duplicates
		s := goodSpec(pool)
		s.keyCase = vrnd.Intn(3)
		s.extra = Pick(vrnd, []string{"", `,"Unknown":1`, `,"Week":"2024-01-08"`, `,"X":0`, `,"week":"../x"`, `,"Programs":null`})
		return plain(s.body()), "unusual-decodable"
	case k < 90:
		return plain(Pick(vrnd, [][]byte{[]byte("null"), []byte("{}"), []byte("[]"), []byte(""), []byte("\"x\""), []byte("1")})), "degenerate"
	default: // at and over the size limit
		b := goodSpec(pool).body()
		switch vrnd.Intn(6) {
		case 0: // valid report + white space: exactly the limit (accepted)
			return &vbody{prefix: b, pad: ' ', padCount: limit - len(b)}, "size-exactly-limit"
		case 1: // one byte over
			return &vbody{prefix: b, pad: ' ', padCount: limit - len(b) + 1}, "oversize-valid-prefix"
		case 2: // far over, valid first value then white space
			return &vbody{prefix: b, pad: Pick(vrnd, []byte{' ', '\n'}), padCount: 3*limit - len(b)}, "oversize-valid-prefix"
		case 3: // far over, valid first value then garbage
			return &vbody{prefix: b, pad: 'x', padCount: 2 * limit}, "oversize-valid-prefix"
		case 4: // oversize without a valid prefix
			return &vbody{prefix: []byte("{\"Week\":\""), pad: 'A', padCount: limit + vrnd.Intn(limit)}, "oversize-garbage"
		default: // white space first, then the report beyond the limit
			return &vbody{prefix: nil, pad: ' ', padCount: limit, suffix: b}, "oversize-late-value"
		}
	}
}

func decTokens(body []byte) ([]string, *telemetry.Report) {
	var report telemetry.Report
	if err := json.Unmarshal(body, &report); err != nil {
		return []string{"err"}, nil
	}
	t := []string{"ok", HS(report.Week), HS(report.LastWeek), B(report.X == 0), HS(strconv.FormatFloat(report.X, 'g', -1, 64)),
		HS(report.Config), B(semver.IsValid(report.Config)), I(int64(len(report.Programs)))}
	kv := func(m map[string]int64) []string {
		keys := make([]string, 0, len(m))
		for k := range m {
			keys = append(keys, k)
		}
		sort.Strings(keys)
		r := []string{I(int64(len(keys)))}
		for _, k := range keys {
			r = append(r, HS(k), I(m[k]))
		}
		return r
	}
	for _, p := range report.Programs {
		if p == nil {
			t = append(t, "nil")
			continue
		}
		t = append(t, "p", HS(p.Program), HS(p.Version), HS(p.GoVersion), HS(p.GOOS), HS(p.GOARCH))
		t = append(t, kv(p.Counters)...)
		t = append(t, kv(p.Stacks)...)
	}
	m, err := json.Marshal(report)
	if err != nil {
		m = []byte("!marshal-error:" + err.Error())
	}
	t = append(t, H(m))
	return t, &report
}

// rawRequest sends one request over a raw TCP connection (so that the framing
// headers are exactly the given ones) and returns the status code, 0 when no
// response could be read.  The message is always complete at the HTTP level
// or longer than the server is willing to read; a message that ENDS before
// its declared length is a client abort, not a request (see builder notes).
func rawRequest(addr, method, urlPath, framing string, payload []byte) int {
	conn, err := net.Dial("tcp", addr)
	if err != nil {
		return 0
	}
	defer conn.Close()
	conn.SetDeadline(time.Now().Add(60 * time.Second))
	head := method + " " + urlPath + " HTTP/1.1\r\nHost: telemetry.test\r\nContent-Type: application/json\r\n" + framing + "Connection: close\r\n\r\n"
	go func() {
		// the server may answer and close before it has taken the whole body
		io.WriteString(conn, head)
		conn.Write(payload)
	}()
	resp, err := http.ReadResponse(bufio.NewReader(conn), nil)
	if err != nil {
		fmt.Fprintln(os.Stderr, "vh_endpoint: raw request got no response:", err)
		return 0
	}
	return resp.StatusCode
}

// failingReader is a request body whose transport breaks: Read fails with an
// error that is not the size limit's.
type failingReader struct{}

func (failingReader) Read([]byte) (int, error) {
	return 0, errors.New("transport: connection reset while reading the body")
}

// badChunked renders b in chunked transfer coding with ONE framing error that
// no decoder can get past (net/http's client API cannot produce any of them).
func badChunked(b []byte) []byte {
	var out bytes.Buffer
	good := func(data []byte) {
		if len(data) > 0 {
			fmt.Fprintf(&out, "%x\r\n", len(data))
			out.Write(data)
			out.WriteString("\r\n")
		}
	}
	cut := 0
	if len(b) > 0 {
		cut = vrnd.Intn(len(b) + 1)
	}
	switch vrnd.Intn(8) {
	case 0: // chunk size that is not hexadecimal
		good(b[:cut])
		out.WriteString(Pick(vrnd, []string{"ZZ", "0x10", "g", "1 0", "5 junk"}) + "\r\n")
	case 1: // chunk data not followed by CRLF
		fmt.Fprintf(&out, "%x\r\n", len(b))
		out.Write(b)
		out.WriteString("XX\r\n0\r\n\r\n")
	case 2: // chunk length wider than 64 bits
		good(b[:cut])
		out.WriteString("FFFFFFFFFFFFFFFFF\r\n")
	case 3: // malformed trailer after a complete body
		good(b)
		out.WriteString("0\r\nBadTrailerWithoutColon\r\n\r\n")
	case 4: // empty chunk-size line
		good(b[:cut])
		out.WriteString("\r\n")
	case 5: // negative chunk size
		good(b[:cut])
		out.WriteString("-5\r\nhello\r\n")
	case 6: // bare LF line ends
		fmt.Fprintf(&out, "%x\n", len(b))
		out.Write(b)
		out.WriteString("\n0\n\n")
	default: // a chunk size line of NUL and control bytes
		good(b[:cut])
		out.WriteString("\x00\x01\x7f\r\n")
	}
	return out.Bytes()
}

// chunked transfer coding of b in one to three chunks
func chunked(b []byte) []byte {
	var out bytes.Buffer
	for len(b) > 0 {
		n := len(b)
		if n > 1 && vrnd.Chance(60) {
			n = 1 + vrnd.Intn(n)
		}
		fmt.Fprintf(&out, "%x\r\n", n)
		out.Write(b[:n])
		out.WriteString("\r\n")
		b = b[n:]
	}
	out.WriteString("0\r\n\r\n")
	return out.Bytes()
}

func caseSession() {
	base, err := os.MkdirTemp(vroot, "s")
	if err != nil {
		panic(err)
	}
	defer os.RemoveAll(base)
	os.WriteFile(filepath.Join(base, "outside.txt"), []byte("outside"), 0666)
	cfgJSON, _ := json.Marshal(verifUploadConfig)
	cfgPath := filepath.Join(base, "config.json")
	os.WriteFile(cfgPath, cfgJSON, 0666)

	cfg := config.NewConfig() // the real defaults: MaxRequestBytes, RequestTimeout, bucket names
	cfg.LocalStorage = filepath.Join(base, "store")
	cfg.UploadConfig = cfgPath
	cfg.ProjectID = ""
	cfg.UseGCS = false
	cfg.DevMode = false
	limit := int(cfg.MaxRequestBytes)
	handler := newHandler(context.Background(), cfg)
	uploadDir := filepath.Join(cfg.LocalStorage, cfg.UploadBucket)

	// the (week, X) pairs this session uses: few, so that objects are overwritten
	var pool [][2]string
	for i := 0; i < 2; i++ {
		pool = append(pool, [2]string{Pick(vrnd, vweeks), Pick(vrnd, vxGood)})
	}
	foreign := vrnd.Chance(8)
	if foreign { // something that is not an upload is in the way of the first pair
		var x float64
		json.Unmarshal([]byte(pool[0][1]), &x)
		switch vrnd.Intn(3) {
		case 0: // a regular file where the week directory should be
			os.WriteFile(filepath.Join(uploadDir, pool[0][0]), []byte("in the way"), 0666)
		case 1: // a directory where the object should be
			os.MkdirAll(filepath.Join(uploadDir, pool[0][0], fmt.Sprintf("%g.json", x), "sub"), 0777)
			os.WriteFile(filepath.Join(uploadDir, pool[0][0], fmt.Sprintf("%g.json", x), "sub", "f"), []byte("below"), 0666)
		default: // harmless foreign content
			os.MkdirAll(filepath.Join(uploadDir, "zz"), 0777)
			os.WriteFile(filepath.Join(uploadDir, "zz", "other.json"), []byte("{}"), 0666)
		}
		vout.Note("session:foreign-content-in-bucket")
	}
	fields := []string{"sess", B(foreign)}
	fields = append(fields, cfgTokens()...)
	t0, files := vtree(uploadDir)
	fields = append(fields, t0...)
	k := 1 + vrnd.Intn(4)
	fields = append(fields, I(int64(k)))
	outside := vsnapshot(base, uploadDir)
	var srv *httptest.Server
	defer func() {
		if srv != nil {
			srv.Close()
		}
	}()
	for i := 0; i < k; i++ {
		method := "POST"
		if vrnd.Chance(15) {
			method = Pick(vrnd, []string{"GET", "PUT", "DELETE", "HEAD", "PATCH", "post", "OPTIONS"})
			vout.Note("method:other")
		} else {
			vout.Note("method:POST")
		}
		body, label := genBody(pool, limit)
		vout.Note("body:" + label)
		raw := body.bytes()
		// the URL path never decides anything: often a different week/X than the report's
		urlPath := "/upload/" + Pick(vrnd, []string{"", "2000-01-01/9.json", "2024-01-01/0.5.json", "zz/1.json", "x", "2024-01-08/0.25.json"})
		// How the body travels and which length the client DECLARES.  The answer must depend on the bytes
		// of the body only (and on whether they exceed the limit), never on the declared length.
		transport, declared := "direct", int64(len(raw))
		framingOK := true
		var wire []byte // for ill-framed messages: the bytes sent after the header
		var code int
		switch tr := vrnd.Intn(100); {
		case tr < 57: // handler called directly, honest Content-Length
		case tr < 60: // the body reader fails with a transport error that is not the size limit, after k bytes
			transport, framingOK = "direct-read-error", false
		case tr < 94: // handler called directly, http.Request.ContentLength set by hand
			n := int64(len(raw))
			declared = Pick(vrnd, []int64{-1, -1, 0, n - 1, n + 1, n + 1000, int64(limit), int64(limit) + 1, 10 * int64(limit), 1 << 26,
				1 << 50, 1 << 62, math.MaxInt64, math.MaxInt64 - 1, 1 << 55})
			if declared < -1 {
				declared = -1
			}
			transport = "direct-declared"
		default: // a raw client over a real listener
			if srv == nil {
				srv = httptest.NewServer(handler)
			}
			switch vrnd.Intn(7) {
			case 5, 6:
				// Transfer-Encoding: chunked with framing that cannot be decoded; the client keeps the
				// connection open and waits for the answer.  Small messages only: everything sent is
				// consumed by the server before it answers.
				if len(raw) > 1500 {
					body = plain(goodSpec(pool).body())
					raw = body.bytes()
				}
				transport, declared, framingOK = "listener-bad-chunking", -1, false
				wire = badChunked(raw)
				code = rawRequest(srv.Listener.Addr().String(), method, urlPath, "Transfer-Encoding: chunked\r\n", wire)
			case 0, 1:
				transport = "listener-honest"
				code = rawRequest(srv.Listener.Addr().String(), method, urlPath, fmt.Sprintf("Content-Length: %d\r\n", len(raw)), raw)
			case 2, 3:
				transport, declared = "listener-chunked", -1
				code = rawRequest(srv.Listener.Addr().String(), method, urlPath, "Transfer-Encoding: chunked\r\n", chunked(raw))
			default:
				// an absurd declared length; the client sends one byte more than the limit (white space
				// after the first value) and keeps the connection open: the body the server can see is over
				// the limit whatever the declaration says
				if len(raw) <= limit {
					body = &vbody{prefix: raw, pad: ' ', padCount: limit + 1 - len(raw)}
					raw = body.bytes()
				}
				declared = Pick(vrnd, []int64{1 << 50, 1 << 62, math.MaxInt64, 10 * int64(limit)})
				if declared < int64(len(raw)) {
					declared = int64(len(raw))
				}
				transport = "listener-declared-huge"
				code = rawRequest(srv.Listener.Addr().String(), method, urlPath, fmt.Sprintf("Content-Length: %d\r\n", declared), raw)
			}
		}
		vout.Note("transport:" + transport)
		if strings.HasPrefix(transport, "direct") {
			var rd io.Reader = bytes.NewReader(raw)
			if transport == "direct-read-error" {
				k := 0
				if len(raw) > 0 {
					k = vrnd.Intn(len(raw) + 1)
				}
				rd = io.MultiReader(bytes.NewReader(raw[:k]), failingReader{})
			}
			req := httptest.NewRequest(method, urlPath, rd)
			req.ContentLength = declared
			rec := httptest.NewRecorder()
			handler.ServeHTTP(rec, req)
			code = rec.Result().StatusCode
		}
		if declared != int64(len(raw)) {
			vout.Note("declared-length:differs-from-body")
		}
		dec, report := decTokens(raw)
		if !framingOK { // no body reaches the handler
			dec, report = []string{"err"}, nil
		}

		tree, after := vtree(uploadDir)
		redecode := "na"
		for name, content := range after {
			if old, ok := files[name]; ok && bytes.Equal(old, content) {
				continue
			}
			var stored telemetry.Report
			if report != nil && json.Unmarshal(content, &stored) == nil && reflect.DeepEqual(&stored, report) {
				if redecode == "na" {
					redecode = "same"
				}
			} else {
				redecode = "differs"
			}
		}
		files = after
		nowOutside := vsnapshot(base, uploadDir)
		outsideOK := reflect.DeepEqual(outside, nowOutside)
		outside = nowOutside

		fields = append(fields, HS(method), HS(urlPath), transport, I(declared), B(framingOK), H(wire), H(body.prefix), I(int64(body.pad)), I(int64(body.padCount)), H(body.suffix),
			B(len(raw) <= limit))
		fields = append(fields, dec...)
		fields = append(fields, fmt.Sprintf("%dxx", code/100), B(outsideOK), redecode)
		fields = append(fields, tree...)
		if code/100 == 2 {
			vout.Note("status:2xx")
		} else {
			vout.Note(fmt.Sprintf("status:%dxx", code/100))
		}
	}
	vout.Case(true, fields...)
}

// the %g rendering of finite non-zero floats over the whole range (hypothesis
// g_string of the theorems): one case line per batch
// Uploads in flight together: several rounds; in each round 4..16 valid
// reports of ONE week whose directory does not exist yet (different X, so
// different objects) are posted by goroutines released at the same moment.
// Every one of them is a valid request: each must be answered 2xx and stored.
//
//	batch <cfg> <k> { <dec> <2xx|...> } <outside_ok> <tree>
func caseBatch() {
	base, err := os.MkdirTemp(vroot, "b")
	if err != nil {
		panic(err)
	}
	defer os.RemoveAll(base)
	os.WriteFile(filepath.Join(base, "outside.txt"), []byte("outside"), 0666)
	cfgJSON, _ := json.Marshal(verifUploadConfig)
	cfgPath := filepath.Join(base, "config.json")
	os.WriteFile(cfgPath, cfgJSON, 0666)
	cfg := config.NewConfig()
	cfg.LocalStorage = filepath.Join(base, "store")
	cfg.UploadConfig = cfgPath
	cfg.ProjectID = ""
	cfg.UseGCS = false
	cfg.DevMode = false
	handler := newHandler(context.Background(), cfg)
	uploadDir := filepath.Join(cfg.LocalStorage, cfg.UploadBucket)
	outside := vsnapshot(base, uploadDir)

	type shot struct {
		raw  []byte
		code int
	}
	var all []*shot
	rounds := 2 + vrnd.Intn(3)
	for r := 0; r < rounds; r++ {
		week := fmt.Sprintf("%04d-%02d-%02d", 2000+vrnd.Intn(60), 1+vrnd.Intn(12), 1+vrnd.Intn(28)+0)
		if _, err := os.Stat(filepath.Join(uploadDir, week)); err == nil {
			continue // the point is a week that has no directory yet
		}
		k := 4 + vrnd.Intn(13)
		var round []*shot
		for i := 0; i < k; i++ {
			sp := goodSpec([][2]string{{week, fmt.Sprintf("0.%d%03d", 1+r, i*7+1)}})
			round = append(round, &shot{raw: sp.body()})
		}
		start := make(chan struct{})
		var wg sync.WaitGroup
		for _, sh := range round {
			wg.Add(1)
			go func(sh *shot) {
				defer wg.Done()
				req := httptest.NewRequest("POST", "/upload/", bytes.NewReader(sh.raw))
				rec := httptest.NewRecorder()
				<-start
				handler.ServeHTTP(rec, req)
				sh.code = rec.Result().StatusCode
			}(sh)
		}
		close(start)
		wg.Wait()
		all = append(all, round...)
	}
	fields := []string{"batch"}
	fields = append(fields, cfgTokens()...)
	fields = append(fields, I(int64(len(all))))
	for _, sh := range all {
		dec, _ := decTokens(sh.raw)
		fields = append(fields, dec...)
		fields = append(fields, fmt.Sprintf("%dxx", sh.code/100))
		vout.Note(fmt.Sprintf("batch-status:%dxx", sh.code/100))
	}
	fields = append(fields, B(reflect.DeepEqual(outside, vsnapshot(base, uploadDir))))
	tree, _ := vtree(uploadDir)
	fields = append(fields, tree...)
	vout.Note("batch:concurrent-first-uploads-of-new-weeks")
	vout.Case(true, fields...)
}

func caseRender() {
	fields := []string{"render", I(64)}
	for i := 0; i < 64; i++ {
		var f float64
		switch vrnd.Intn(4) {
		case 0:
			for {
				f = math.Float64frombits(vrnd.Uint64())
				if !math.IsNaN(f) && !math.IsInf(f, 0) && f != 0 {
					break
				}
			}
		case 1:
			f = Pick(vrnd, []float64{5e-324, 1e-320, 2.2250738585072014e-308, math.MaxFloat64, -math.MaxFloat64, 1e21, 1e20, 99999999999999999999.0,
				0.0001, 0.00001, 123456789, 1e-5, 1e100, -1})
		default:
			f = float64(vrnd.Uint64()>>11) / (1 << 53) * math.Pow(10, float64(vrnd.Intn(40)-20))
		}
		fields = append(fields, HS(fmt.Sprintf("%g", f)))
	}
	vout.Case(true, fields...)
}

func verifEndpointMain() {
	outPath := os.Args[1]
	n, _ := strconv.Atoi(os.Args[2])
	slog.SetDefault(slog.New(slog.NewTextHandler(io.Discard, nil)))
	vrnd = NewRand(Seed())
	vout = NewOut(outPath)
	var err error
	vroot, err = os.MkdirTemp("", "vh_endpoint")
	if err != nil {
		panic(err)
	}
	defer os.RemoveAll(vroot)
	for i := 0; i < n; i++ {
		if i%20 == 19 {
			caseRender()
		} else if i%20 == 7 || i%20 == 13 {
			caseBatch()
		} else {
			caseSession()
		}
	}
	os.RemoveAll(vroot)
	vout.Close()
}
