//go:build verif

package main

// Helper process of harness vh_approval (C11).  `validate` and
// `handleUpload` are unexported members of this package main, so the helper
// is this very binary started with VERIF_HARNESS=approval-server: it then
// answers requests on stdin/stdout instead of serving the site.  One JSON
// request per line: a configuration and a report body; the answer carries
// the class of validate's error, the HTTP status of the real upload handler
// (FS bucket in a temp dir) and semver.IsValid of the report's Config.

import (
	"bufio"
	"bytes"
	"context"
	"encoding/json"
	"fmt"
	"io"
	"net/http/httptest"
	"os"
	"strings"
	"sync"

	"golang.org/x/mod/semver"
	"golang.org/x/telemetry/godev/internal/storage"
	tconfig "golang.org/x/telemetry/internal/config"
	"golang.org/x/telemetry/internal/telemetry"
)

func init() {
	if os.Getenv("VERIF_HARNESS") != "approval-server" {
		return
	}
	verifApprovalServe()
	os.Exit(0)
}

type verifApprovalReq struct {
	Cfg    telemetry.UploadConfig
	Report string
	// Burst > 0: ONE configuration object and ONE handler are created (as the
	// server does when it starts) and Burst goroutines POST Report at the
	// same moment; the answer carries every status
	Burst int
}

type verifApprovalRes struct {
	Verdict    string
	Status     int
	Semver     bool
	Stored     bool
	StoredBody string // the object the handler wrote into the bucket, read back
	Statuses   []int
}

func verifClassify(err error) string {
	if err == nil {
		return "ok"
	}
	m := err.Error()
	for _, p := range [][2]string{{"invalid week", "week"}, {"invalid config", "config"}, {"invalid X", "x"},
		{"unknown program build", "build"}, {"unknown counter", "counter"}, {"unknown stack", "stack"}} {
		if strings.HasPrefix(m, p[0]) {
			return p[1]
		}
	}
	return "other"
}

func verifApprovalServe() {
	dir, err := os.MkdirTemp("", "vh_server")
	if err != nil {
		fmt.Fprintln(os.Stderr, err)
		os.Exit(2)
	}
	defer os.RemoveAll(dir)
	ctx := context.Background()
	dec := json.NewDecoder(bufio.NewReaderSize(os.Stdin, 1<<20))
	out := bufio.NewWriter(os.Stdout)
	n := 0
	for {
		var req verifApprovalReq
		if err := dec.Decode(&req); err != nil {
			return
		}
		n++
		ucfg := req.Cfg
		cfg := tconfig.NewConfig(&ucfg)
		var res verifApprovalRes
		if req.Burst > 0 {
			bucket, err := storage.NewFSBucket(ctx, dir, fmt.Sprintf("b%d", n))
			if err != nil {
				fmt.Fprintln(os.Stderr, err)
				os.Exit(2)
			}
			h := handleUpload(cfg, bucket)
			res.Statuses = make([]int, req.Burst)
			start := make(chan struct{})
			var wg sync.WaitGroup
			for i := 0; i < req.Burst; i++ {
				wg.Add(1)
				go func(i int) {
					defer wg.Done()
					rec := httptest.NewRecorder()
					r := httptest.NewRequest("POST", "/upload/week", bytes.NewReader([]byte(req.Report)))
					<-start
					h.ServeHTTP(rec, r)
					res.Statuses[i] = rec.Code
				}(i)
			}
			close(start)
			wg.Wait()
			os.RemoveAll(dir + fmt.Sprintf("/b%d", n))
			b, _ := json.Marshal(res)
			out.Write(b)
			out.WriteByte('\n')
			out.Flush()
			continue
		}
		var rep telemetry.Report
		if err := json.Unmarshal([]byte(req.Report), &rep); err != nil {
			res.Verdict = "undecodable"
		} else {
			res.Verdict = verifClassify(validate(&rep, cfg))
			res.Semver = semver.IsValid(rep.Config)
		}
		bucket, err := storage.NewFSBucket(ctx, dir, fmt.Sprintf("b%d", n))
		if err != nil {
			fmt.Fprintln(os.Stderr, err)
			os.Exit(2)
		}
		rec := httptest.NewRecorder()
		r := httptest.NewRequest("POST", "/upload/week", bytes.NewReader([]byte(req.Report)))
		handleUpload(cfg, bucket).ServeHTTP(rec, r)
		res.Status = rec.Code
		it := bucket.Objects(ctx, "")
		if name, err := it.Next(); err == nil {
			res.Stored = true
			if rd, err := bucket.Object(name).NewReader(ctx); err == nil {
				b, _ := io.ReadAll(rd)
				rd.Close()
				res.StoredBody = string(b)
			}
		}
		os.RemoveAll(dir + fmt.Sprintf("/b%d", n))
		b, _ := json.Marshal(res)
		out.Write(b)
		out.WriteByte('\n')
		out.Flush()
	}
}
