//go:build verif

package telemetry

import "reflect"

// VerifAcquireUploadToken calls acquireUploadToken (suite starts of C08: the
// 24-hour upload token over a history of program starts).  Through reflection,
// with zero values for whatever parameters the function has, so that a change
// of its signature does not stop the harness from building.
func VerifAcquireUploadToken() bool {
	v := reflect.ValueOf(acquireUploadToken)
	args := make([]reflect.Value, v.Type().NumIn())
	for i := range args {
		args[i] = reflect.Zero(v.Type().In(i))
	}
	out := v.Call(args)
	return len(out) > 0 && out[0].Kind() == reflect.Bool && out[0].Bool()
}
