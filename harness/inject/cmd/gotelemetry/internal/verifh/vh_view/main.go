//go:build verif

// vh_view: helper process of harness vh_approval (C11).  It lives under
// cmd/gotelemetry/ because the viewer package is internal to that command.
// Protocol: one JSON request per line on stdin, one JSON answer per line on
// stdout.
package main

import (
	"bufio"
	"encoding/json"
	"fmt"
	"os"

	"golang.org/x/telemetry/cmd/gotelemetry/internal/view"
	"golang.org/x/telemetry/internal/config"
	"golang.org/x/telemetry/internal/telemetry"
)

type request struct {
	Cfg   telemetry.UploadConfig
	Meta  map[string]string
	Count []struct {
		K string
		V uint64
	}
}

func main() {
	in := bufio.NewReaderSize(os.Stdin, 1<<20)
	out := bufio.NewWriter(os.Stdout)
	dec := json.NewDecoder(in)
	for {
		var req request
		if err := dec.Decode(&req); err != nil {
			return
		}
		count := map[string]uint64{}
		for _, kv := range req.Count {
			count[kv.K] = kv.V
		}
		cfg := req.Cfg
		res := view.VerifView(config.NewConfig(&cfg), req.Meta, count)
		b, err := json.Marshal(res)
		if err != nil {
			fmt.Fprintln(os.Stderr, err)
			os.Exit(2)
		}
		out.Write(b)
		out.WriteByte('\n')
		out.Flush()
	}
}
