//go:build verif

// vh_view: helper process of harness vh_approval (C11).  It lives under
// cmd/gotelemetry/ because the viewer package is internal to that command.
// Protocol: one JSON request per line on stdin ({Cfg, Dir, What: files|reports}),
// one JSON answer per line on stdout.
package main

import (
	"bufio"
	"encoding/json"
	"fmt"
	"os"

	"golang.org/x/telemetry/cmd/gotelemetry/internal/view"
	"golang.org/x/telemetry/internal/config"
	"golang.org/x/telemetry/internal/telemetry"
)

type request struct {
	Cfg  telemetry.UploadConfig
	Dir  string
	What string
}

type answer struct {
	Files   []view.VerifFileView
	Reports []view.VerifReportView
	Err     string
}

func main() {
	in := bufio.NewReaderSize(os.Stdin, 1<<20)
	out := bufio.NewWriter(os.Stdout)
	dec := json.NewDecoder(in)
	for {
		var req request
		if err := dec.Decode(&req); err != nil {
			return
		}
		ucfg := req.Cfg
		cfg := config.NewConfig(&ucfg)
		var ans answer
		var err error
		switch req.What {
		case "files":
			ans.Files, err = view.VerifFiles(req.Dir, cfg)
		case "reports":
			ans.Reports, err = view.VerifReports(req.Dir, cfg)
		default:
			err = fmt.Errorf("unknown request %q", req.What)
		}
		if err != nil {
			fmt.Fprintln(os.Stderr, err)
			os.Exit(2)
		}
		b, err := json.Marshal(ans)
		if err != nil {
			fmt.Fprintln(os.Stderr, err)
			os.Exit(2)
		}
		out.Write(b)
		out.WriteByte('\n')
		out.Flush()
	}
}
