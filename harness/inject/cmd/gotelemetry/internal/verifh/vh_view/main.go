//go:build verif

// vh_view: helper process of harness vh_approval (C11).  It lives under
// cmd/gotelemetry/ because the viewer package is internal to that command.
// Protocol: one JSON request per line on stdin ({Cfg, Dir, What: files|reports}),
// one JSON answer per line on stdout.
package main

import (
	"bufio"
	"encoding/json"
	"fmt"
	"log"
	"os"
	"path/filepath"

	"golang.org/x/telemetry/cmd/gotelemetry/internal/view"
	"golang.org/x/telemetry/internal/config"
	"golang.org/x/telemetry/internal/configstore"
	"golang.org/x/telemetry/internal/proxy"
	"golang.org/x/telemetry/internal/telemetry"
)

type request struct {
	Cfg  telemetry.UploadConfig
	Dir  string
	What string
	// What == "pages": one viewer Server answers the requests in order; the
	// telemetry directory is Dir; the config proxy (file tree written here
	// from Configs: version -> config) is reachable or not per request
	Configs  map[string]telemetry.UploadConfig
	Requests []pageRequest
}

type pageRequest struct {
	Version string
	ProxyUp bool
}

type answer struct {
	Files   []view.VerifFileView
	Reports []view.VerifReportView
	Pages   []view.VerifPage
	Err     string
}

// pages: see request.  The go command run by configstore.Download takes its
// proxy, module cache and checksum settings from this process's environment.
func pages(req request) ([]view.VerifPage, error) {
	work, err := os.MkdirTemp("", "vh_view_pages")
	if err != nil {
		return nil, err
	}
	defer func() {
		filepath.Walk(work, func(p string, info os.FileInfo, err error) error {
			if err == nil && info.IsDir() {
				os.Chmod(p, 0777)
			}
			return nil
		})
		os.RemoveAll(work)
	}()
	files := map[string][]byte{}
	for version, cfg := range req.Configs {
		c := cfg
		encoded, err := json.Marshal(&c)
		if err != nil {
			return nil, err
		}
		dirPath := fmt.Sprintf("%v@%v/", configstore.ModulePath, version)
		files[dirPath+"go.mod"] = []byte("module " + configstore.ModulePath + "\n\ngo 1.20\n")
		files[dirPath+"config.json"] = encoded
	}
	proxyURI, err := proxy.WriteProxy(filepath.Join(work, "proxy"), files)
	if err != nil {
		return nil, err
	}
	os.Setenv("GONOSUMDB", "*")
	os.Setenv("GONOSUMCHECK", "1")
	os.Setenv("GOFLAGS", "")
	os.Setenv("GOSUMDB", "off")
	os.Setenv("GOMODCACHE", filepath.Join(work, "modcache"))
	telemetry.Default = telemetry.NewDir(req.Dir)
	serve, err := view.VerifIndexServer()
	if err != nil {
		return nil, err
	}
	var res []view.VerifPage
	for _, r := range req.Requests {
		if r.ProxyUp {
			os.Setenv("GOPROXY", proxyURI)
		} else {
			os.Setenv("GOPROXY", "file://"+filepath.Join(work, "no-such-proxy"))
		}
		res = append(res, serve(r.Version))
	}
	return res, nil
}

func main() {
	log.SetOutput(os.Stderr)
	in := bufio.NewReaderSize(os.Stdin, 1<<20)
	out := bufio.NewWriter(os.Stdout)
	dec := json.NewDecoder(in)
	for {
		var req request
		if err := dec.Decode(&req); err != nil {
			return
		}
		ucfg := req.Cfg
		cfg := config.NewConfig(&ucfg)
		var ans answer
		var err error
		switch req.What {
		case "files":
			ans.Files, err = view.VerifFiles(req.Dir, cfg)
		case "reports":
			ans.Reports, err = view.VerifReports(req.Dir, cfg)
		case "pages":
			ans.Pages, err = pages(req)
		default:
			err = fmt.Errorf("unknown request %q", req.What)
		}
		if err != nil {
			fmt.Fprintln(os.Stderr, err)
			os.Exit(2)
		}
		b, err := json.Marshal(ans)
		if err != nil {
			fmt.Fprintln(os.Stderr, err)
			os.Exit(2)
		}
		out.Write(b)
		out.WriteByte('\n')
		out.Flush()
	}
}
