//go:build verif

package view

// Exporters for the C11 harness: the viewer's two approval decisions
// (summary text, Active flags) on a given configuration and counter file.
// They add no behaviour.

import (
	"golang.org/x/telemetry/internal/config"
	tcounter "golang.org/x/telemetry/internal/counter"
)

type VerifRow struct {
	Name   string
	Trace  string
	Active bool
}

type VerifFileView struct {
	Summary    string
	ActiveMeta map[string]bool
	Counts     []VerifRow
	Stacks     []VerifRow
}

func VerifView(cfg *config.Config, meta map[string]string, count map[string]uint64) VerifFileView {
	cf := newCounterFile("verif", &tcounter.File{Meta: meta, Count: count}, cfg)
	// cf.Summary is summary(cfg, meta, count); the order of the listed names follows map iteration
	v := VerifFileView{Summary: string(cf.Summary), ActiveMeta: cf.ActiveMeta}
	for _, c := range cf.Counts {
		v.Counts = append(v.Counts, VerifRow{Name: c.Name, Active: c.Active})
	}
	for _, s := range cf.Stacks {
		v.Stacks = append(v.Stacks, VerifRow{Name: s.Name, Trace: s.Trace, Active: s.Active})
	}
	return v
}
