//go:build verif

package view

// Exporters for the C11 harness: what the viewer's index page is built from,
// through the functions handleIndex itself calls: files(dir, cfg) for the
// count files (newCounterFile: summary, ActiveMeta, Active flags) and
// reports(dir, cfg) for the weekly reports (newTelemetryReport: per-program
// summary).  They add no behaviour.

import (
	"golang.org/x/telemetry/internal/config"
)

type VerifRow struct {
	Name   string
	Trace  string
	Active bool
}

type VerifFileView struct {
	ID         string
	Summary    string
	ActiveMeta map[string]bool
	Counts     []VerifRow
	Stacks     []VerifRow
}

type VerifProgramView struct {
	Program, Version, GoVersion, GOOS, GOARCH string
	Summary                                   string
}

type VerifReportView struct {
	Week     string
	Programs []VerifProgramView
}

func VerifFiles(dir string, cfg *config.Config) ([]VerifFileView, error) {
	cfs, err := files(dir, cfg)
	if err != nil {
		return nil, err
	}
	var res []VerifFileView
	for _, cf := range cfs {
		v := VerifFileView{ID: cf.ID, Summary: string(cf.Summary), ActiveMeta: cf.ActiveMeta}
		for _, c := range cf.Counts {
			v.Counts = append(v.Counts, VerifRow{Name: c.Name, Active: c.Active})
		}
		for _, s := range cf.Stacks {
			v.Stacks = append(v.Stacks, VerifRow{Name: s.Name, Trace: s.Trace, Active: s.Active})
		}
		res = append(res, v)
	}
	return res, nil
}

func VerifReports(dir string, cfg *config.Config) ([]VerifReportView, error) {
	rs, err := reports(dir, cfg)
	if err != nil {
		return nil, err
	}
	var res []VerifReportView
	for _, r := range rs {
		v := VerifReportView{Week: r.Week}
		for _, p := range r.Programs {
			v.Programs = append(v.Programs, VerifProgramView{Program: p.Program, Version: p.Version, GoVersion: p.GoVersion,
				GOOS: p.GOOS, GOARCH: p.GOARCH, Summary: string(p.Summary)})
		}
		res = append(res, v)
	}
	return res, nil
}
