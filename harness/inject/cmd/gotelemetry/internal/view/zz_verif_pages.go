//go:build verif

package view

// Exporter for the C11 harness: the viewer's index page itself, served by
// ONE Server (as `gotelemetry view` runs one) for a sequence of requests
// /?config=<version>; the handler is the one Serve installs (handleIndex over
// the embedded content).  Adds no behaviour.

import (
	"io/fs"
	"net/http/httptest"
	"net/url"

	contentfs "golang.org/x/telemetry/internal/content"
	"golang.org/x/telemetry/internal/unionfs"
)

type VerifPage struct {
	Status int
	Body   string
}

// VerifIndexServer returns a function serving GET /?config=<version> on one Server.
func VerifIndexServer() (func(version string) VerifPage, error) {
	var fsys fs.FS = contentfs.FS
	fsys, err := unionfs.Sub(fsys, "gotelemetryview", "shared")
	if err != nil {
		return nil, err
	}
	s := &Server{}
	h := s.handleIndex(fsys)
	return func(version string) VerifPage {
		target := "/"
		if version != "" {
			target = "/?config=" + url.QueryEscape(version)
		}
		rec := httptest.NewRecorder()
		h.ServeHTTP(rec, httptest.NewRequest("GET", target, nil))
		return VerifPage{Status: rec.Code, Body: rec.Body.String()}
	}, nil
}
