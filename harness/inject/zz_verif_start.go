//go:build verif

package telemetry

// Exporter for the verification harness vh_start: the real token acquisition.
func VerifAcquireUploadToken() bool { return acquireUploadToken() }
