// Package vhlib holds the helpers shared by the correspondence harnesses:
// one PRNG (all random choices derive from VERIF_SEED), the line-oriented
// wire format read by the OCaml model runners, and evidence statistics.
//
// Wire format: one case per line, space separated tokens.
//
//	h<hex>     byte string (possibly empty: "h")
//	i[-]<hex>  integer
//	other      literal tag
package vhlib

import (
	"bufio"
	"encoding/hex"
	"encoding/json"
	"fmt"
	"os"
	"sort"
	"strconv"
	"strings"
)

type Rand struct{ s uint64 }

func Seed() uint64 {
	if v := os.Getenv("VERIF_SEED"); v != "" {
		if n, err := strconv.ParseInt(v, 10, 64); err == nil {
			return uint64(n)
		}
	}
	return 1
}

func NewRand(seed uint64) *Rand { return &Rand{seed*0x9E3779B97F4A7C15 + 0x1234567} }

func (r *Rand) Uint64() uint64 {
	r.s += 0x9E3779B97F4A7C15
	z := r.s
	z = (z ^ (z >> 30)) * 0xBF58476D1CE4E5B9
	z = (z ^ (z >> 27)) * 0x94D049BB133111EB
	return z ^ (z >> 31)
}
func (r *Rand) Intn(n int) int {
	if n <= 0 {
		return 0
	}
	return int(r.Uint64() % uint64(n))
}
func (r *Rand) Int63n(n int64) int64 {
	if n <= 0 {
		return 0
	}
	return int64(r.Uint64() % uint64(n))
}
func (r *Rand) Bool() bool        { return r.Uint64()&1 == 1 }
func (r *Rand) Chance(p int) bool { return r.Intn(100) < p } // p percent
func (r *Rand) Bytes(n int) []byte {
	b := make([]byte, n)
	for i := range b {
		b[i] = byte(r.Uint64())
	}
	return b
}
func Pick[T any](r *Rand, xs []T) T { return xs[r.Intn(len(xs))] }

func H(b []byte) string  { return "h" + hex.EncodeToString(b) }
func HS(s string) string { return "h" + hex.EncodeToString([]byte(s)) }
func I(i int64) string {
	if i < 0 {
		return "i-" + strconv.FormatUint(uint64(-i), 16)
	}
	return "i" + strconv.FormatUint(uint64(i), 16)
}
func U(u uint64) string { return "i" + strconv.FormatUint(u, 16) }
func B(b bool) string {
	if b {
		return "i1"
	}
	return "i0"
}

// Out writes cases and collects the statistics that go into the evidence.
type Out struct {
	f        *os.File
	w        *bufio.Writer
	n        int
	kinds    map[string]int
	distinct map[string]bool
	samples  []string
	notes    map[string]int
}

func NewOut(path string) *Out {
	f, err := os.Create(path)
	if err != nil {
		fmt.Fprintln(os.Stderr, err)
		os.Exit(2)
	}
	return &Out{f: f, w: bufio.NewWriterSize(f, 1<<20), kinds: map[string]int{}, distinct: map[string]bool{}, notes: map[string]int{}}
}

// Case writes one case line. nontrivial says whether the case counts as
// non-trivial by the suite's stated rule; distinctness is measured on the
// whole line.
func (o *Out) Case(nontrivial bool, fields ...string) {
	line := strings.Join(fields, " ")
	o.w.WriteString(line)
	o.w.WriteByte('\n')
	o.n++
	o.kinds[fields[0]]++
	if nontrivial {
		o.distinct[line] = true
	}
	if len(o.samples) < 6 && (o.n%7 == 1) {
		s := line
		if len(s) > 400 {
			s = s[:400] + "..."
		}
		o.samples = append(o.samples, s)
	}
}

// Note counts a named feature of the generated inputs (input distribution).
func (o *Out) Note(k string) { o.notes[k]++ }

// Close flushes and writes <path>.stats.json
func (o *Out) Close() {
	o.w.Flush()
	name := o.f.Name()
	o.f.Close()
	keys := make([]string, 0, len(o.kinds))
	for k := range o.kinds {
		keys = append(keys, k)
	}
	sort.Strings(keys)
	st := map[string]any{
		"evaluations":         o.n,
		"distinct_nontrivial": len(o.distinct),
		"kinds":               o.kinds,
		"distribution":        o.notes,
		"samples":             o.samples,
	}
	js, _ := json.MarshalIndent(st, "", " ")
	os.WriteFile(name+".stats.json", js, 0644)
}
