// vh_parse: correspondence harness for C06 (reading a counter file).  Feeds
// the real counter.Parse with files written by the library, files written by
// an independent encoder, structured mutations of both (header length, limit,
// bucket heads, record length, next links incl. cycles and wild pointers,
// truncations), regression inputs and random bytes.  Parse runs under a
// watchdog: a panic is recovered and reported as "panic", no answer within the
// time limit as "hang".  Every input is parsed twice with different bytes
// FOLLOWING the input in memory; a different answer means Parse read outside
// its input.
package main

import (
	"encoding/binary"
	"fmt"
	"os"
	"path/filepath"
	"sort"
	"strconv"
	"strings"
	"time"

	"golang.org/x/telemetry/internal/counter"
	"golang.org/x/telemetry/internal/telemetry"
	"golang.org/x/telemetry/internal/verifh/vh_layout/fmtgen"
	. "golang.org/x/telemetry/internal/verifh/vhlib"
)

var rnd *Rand
var out *Out
var collisions [][2]string // pairs of names with one 32-bit FNV-1a value
var root string
var hangs int

func must(err error) {
	if err != nil {
		panic(err)
	}
}

// ---------------------------------------------------------------- running Parse

func encodeResult(pf *counter.File, err error) []string {
	if err != nil {
		switch {
		case strings.Contains(err.Error(), "too short"):
			return []string{"short"}
		case strings.Contains(err.Error(), "wrong hdr"):
			return []string{"hdr"}
		default:
			return []string{"corrupt"}
		}
	}
	f := []string{"ok"}
	var ks []string
	for k := range pf.Meta {
		ks = append(ks, k)
	}
	sort.Strings(ks)
	f = append(f, I(int64(len(ks))))
	for _, k := range ks {
		f = append(f, HS(k), HS(pf.Meta[k]))
	}
	ks = ks[:0]
	for k := range pf.Count {
		ks = append(ks, k)
	}
	sort.Strings(ks)
	f = append(f, I(int64(len(ks))))
	for _, k := range ks {
		f = append(f, HS(k), U(pf.Count[k]))
	}
	return f
}

// runParse parses data with the given byte repeated after it in memory.
func runParse(data []byte, after byte) []string {
	buf := make([]byte, len(data)+8)
	copy(buf, data)
	for i := len(data); i < len(buf); i++ {
		buf[i] = after
	}
	in := buf[:len(data):len(data)]
	ch := make(chan []string, 1)
	go func() {
		defer func() {
			if r := recover(); r != nil {
				ch <- []string{"panic"}
			}
		}()
		pf, err := counter.Parse("f.v1.count", in)
		ch <- encodeResult(pf, err)
	}()
	limit := 3 * time.Second
	if hangs > 0 {
		limit = 500 * time.Millisecond
	}
	select {
	case r := <-ch:
		return r
	case <-time.After(limit):
		hangs++
		return []string{"hang"}
	}
}

func emit(stream string, data []byte) {
	if hangs > 8 {
		// every hang leaves a spinning goroutine behind; enough evidence
		return
	}
	r0 := runParse(data, 0)
	fields := append([]string{"parse", stream, H(data)}, r0...)
	r1 := runParse(data, 0xff)
	if strings.Join(r0, " ") == strings.Join(r1, " ") {
		fields = append(fields, "same")
	} else {
		fields = append(fields, "differs", r1[0])
		out.Note("answer-depends-on-bytes-after-input")
	}
	out.Note("stream-" + stream)
	out.Note("result-" + r0[0])
	out.Case(true, fields...)
}

// ---------------------------------------------------------------- valid files

func twinNames() []string {
	// a compressed stack name and its own expansion as a second counter
	a := "p\nx.f:+1,+0x1\n\".g:+2,+0x2"
	b := "p\nx.f:+1,+0x1\nx.g:+2,+0x2"
	switch rnd.Intn(3) {
	case 0:
		return []string{a, b}
	case 1:
		// names chosen per bucket order are found by trying suffixes
		k := rnd.Intn(1000)
		return []string{fmt.Sprintf("q%d\ny.h\n\".i", k), fmt.Sprintf("q%d\ny.h\ny.i", k)}
	default:
		// two different compressed names with one expansion
		return []string{"s\nx.a\n\".b\n\".c", "s\nx.a\nx.b\n\".c"}
	}
}

func libFile() []byte {
	dir, err := os.MkdirTemp(root, "p")
	must(err)
	defer os.RemoveAll(dir)
	path := filepath.Join(dir, "c.v1.count")
	meta := fmtgen.Meta(rnd)
	m, err := counter.VerifOpenMapped(path, meta)
	must(err)
	k := 1 + rnd.Intn(12)
	switch rnd.Intn(10) {
	case 0:
		k = 0
	case 1:
		k = 50 + rnd.Intn(250)
	}
	names := fmtgen.Names(rnd, k)
	if rnd.Chance(15) {
		names = append(names, twinNames()...)
		out.Note("lib-twin-names")
	}
	if rnd.Chance(10) {
		for i := 0; i < 3; i++ {
			names = append(names, fmtgen.NameOfLen(rnd, 4000+rnd.Intn(97)))
		}
	}
	if rnd.Chance(40) {
		// the first and the last buckets of the table
		names = append(names, fmtgen.NameInBucket(rnd, 511), fmtgen.NameInBucket(rnd, 0), fmtgen.NameInBucket(rnd, uint32(509+rnd.Intn(3))))
		out.Note("lib-edge-buckets")
	}
	if len(collisions) > 0 && rnd.Chance(30) {
		// two different names whose full 32-bit FNV-1a values coincide
		p := Pick(rnd, collisions)
		names = append(names, p[0], p[1])
		out.Note("lib-fnv32-colliding-names")
	}
	for _, n := range names {
		p, _, cur, err := m.NewCounter(n)
		m = cur
		if err != nil {
			continue
		}
		p.Add(rnd.Uint64() >> uint(rnd.Intn(64)))
	}
	m.Close()
	data, err := os.ReadFile(path)
	must(err)
	return data
}

func specFile() []byte {
	meta := fmtgen.Meta(rnd)
	longMeta := rnd.Chance(15)
	if longMeta {
		meta = fmtgen.LongMeta(rnd)
		out.Note("spec-long-metadata")
	}
	k := rnd.Intn(14)
	if rnd.Chance(10) {
		k = 40 + rnd.Intn(100)
	}
	names := fmtgen.Names(rnd, k)
	if rnd.Chance(15) {
		names = append(names, twinNames()...)
		out.Note("spec-twin-names")
	}
	if rnd.Chance(40) {
		names = append(names, fmtgen.NameInBucket(rnd, 511), fmtgen.NameInBucket(rnd, 0), fmtgen.NameInBucket(rnd, uint32(509+rnd.Intn(3))))
		out.Note("spec-edge-buckets")
	}
	if len(collisions) > 0 && rnd.Chance(30) {
		p := Pick(rnd, collisions)
		names = append(names, p[0], p[1])
		out.Note("spec-fnv32-colliding-names")
	}
	cs := make([]fmtgen.KV, len(names))
	for i, n := range names {
		cs[i] = fmtgen.KV{Name: n, Val: rnd.Uint64() >> uint(rnd.Intn(64))}
	}
	var p fmtgen.Policy
	if rnd.Bool() || longMeta {
		p = fmtgen.RandPolicy(rnd)
		if p.HdrExtra > 0 {
			out.Note("spec-header-above-minimum")
		}
		if p.HdrJunk {
			out.Note("spec-header-junk-after-nul")
		}
	}
	return fmtgen.Encode(meta, cs, p, rnd)
}

func validFile() []byte {
	if rnd.Bool() {
		return libFile()
	}
	return specFile()
}

// ---------------------------------------------------------------- mutations

func le32(b []byte, off int) uint32 {
	if off < 0 || off+4 > len(b) {
		return 0
	}
	return binary.LittleEndian.Uint32(b[off:])
}
func put32(b []byte, off int, v uint32) {
	if off >= 0 && off+4 <= len(b) {
		binary.LittleEndian.PutUint32(b[off:], v)
	}
}

// records returns the offsets of the linked records of a well-formed file.
func records(b []byte) []int {
	hl := int(le32(b, 28))
	var r []int
	for i := 0; i < 512; i++ {
		for off, n := int(le32(b, hl+4+4*i)), 0; off != 0 && off+16 <= len(b) && n < 5000; n++ {
			r = append(r, off)
			off = int(le32(b, off+12))
		}
	}
	return r
}

func wildPointer(b []byte) uint32 {
	hl := int(le32(b, 28))
	L := len(b)
	switch rnd.Intn(12) {
	case 0:
		return uint32(rnd.Intn(hl + 4)) // into the header
	case 1:
		return uint32(hl + 4 + rnd.Intn(2048)) // into the table
	case 2:
		return uint32(L + rnd.Intn(100)) // past EOF
	case 3:
		return uint32(L - 16 + rnd.Intn(3) - 1) // the last record header position +-1
	case 4:
		return uint32(L - rnd.Intn(40))
	case 5:
		return uint32(hl+4+2048) + uint32(rnd.Intn(64)) // first record area, mostly unaligned
	case 6:
		return 0xffffffff - uint32(rnd.Intn(20))
	case 7:
		return uint32(rnd.Uint64())
	case 8:
		return uint32(hl + 3) // just below hdrLen+hashOff
	case 9:
		return uint32(hl + 4) // exactly hdrLen+hashOff
	default:
		return uint32(rnd.Intn(L)) // anywhere
	}
}

// unalignedLink: the offset of an existing record moved off its alignment:
// by 4 or 12 (4-aligned, not 8-aligned), by an odd amount, or by 8/16/24
// (8-aligned, inside the record).
func unalignedLink(recs []int) uint32 {
	r := recs[rnd.Intn(len(recs))]
	d := Pick(rnd, []int{4, 12, 20, 28, 1, 3, 5, 7, 9, 31, 2, 6, 8, 16, 24, -4, -1, -8})
	switch {
	case d%8 == 0:
		out.Note("mut-link-8-aligned-inside-record")
	case d%4 == 0:
		out.Note("mut-link-4-aligned")
	case d%2 != 0:
		out.Note("mut-link-odd")
	default:
		out.Note("mut-link-2-aligned")
	}
	return uint32(r + d)
}

func mutate(b []byte) ([]byte, string) {
	b = append([]byte(nil), b...)
	hl := int(le32(b, 28))
	if len(b) < 16384 || hl < 32 || hl > 16384 {
		// already damaged beyond the header: only whole-file mutations
		if len(b) > 0 {
			b[rnd.Intn(len(b))] ^= 1
		}
		return b, "bitflip"
	}
	recs := records(b)
	switch k := rnd.Intn(14); k {
	case 0: // header length field
		v := Pick(rnd, []uint32{0, 1, 4, 27, 28, 31, 32, 33, 36, uint32(hl - 1), uint32(hl + 1), uint32(hl + 32),
			16376, 16377, 16378, 16379, 16380, 16381, 16383, 16384, 16385, 0xffffffff, uint32(len(b)) - 2051, uint32(len(b)) - 2050,
			uint32(rnd.Intn(17000)), uint32(rnd.Uint64())})
		put32(b, 28, v)
		return b, "hdrlen"
	case 1: // allocation limit
		put32(b, hl, Pick(rnd, []uint32{0, 1, uint32(len(b)), uint32(len(b)) + 32, 0xffffffff, uint32(rnd.Intn(len(b)))}))
		return b, "limit"
	case 2, 3: // bucket head
		i := rnd.Intn(512)
		if len(recs) > 0 && rnd.Bool() {
			// the bucket of an existing record
			i = int(fmtgen.Hash(nameAt(b, recs[rnd.Intn(len(recs))])))
		}
		v := wildPointer(b)
		if len(recs) > 0 && rnd.Chance(30) {
			v = uint32(recs[rnd.Intn(len(recs))]) // a record of (maybe) another bucket: shared record
		}
		if len(recs) > 0 && rnd.Chance(25) {
			v = unalignedLink(recs)
		}
		put32(b, hl+4+4*i, v)
		return b, "head"
	case 4, 5: // record name length
		if len(recs) == 0 {
			return b, "none"
		}
		r := recs[rnd.Intn(len(recs))]
		v := Pick(rnd, []uint32{0, 0xff000000, 0x00ffffff, 0xffffffff, uint32(len(b) - r - 16), uint32(len(b) - r - 15),
			le32(b, r+8) + 1, le32(b, r+8) - 1, le32(b, r+8) &^ 0xff000000, uint32(rnd.Intn(5000))})
		put32(b, r+8, v)
		return b, "namelen"
	case 6, 7, 8: // next link
		if len(recs) == 0 {
			return b, "none"
		}
		r := recs[rnd.Intn(len(recs))]
		var v uint32
		switch rnd.Intn(6) {
		case 5:
			v = unalignedLink(recs)
		case 0:
			v = uint32(r) // self cycle
			out.Note("mut-self-cycle")
		case 1:
			v = uint32(recs[rnd.Intn(len(recs))]) // cycle or join with another chain
			out.Note("mut-link-to-record")
		case 2:
			// 2-cycle: the head of this record's bucket
			v = le32(b, hl+4+4*int(fmtgen.Hash(nameAt(b, r))))
			out.Note("mut-link-to-head")
		default:
			v = wildPointer(b)
		}
		put32(b, r+12, v)
		return b, "next"
	case 9: // truncation at a 32-byte boundary (and a few unaligned ones)
		n := 32 * rnd.Intn(len(b)/32+1)
		if rnd.Chance(20) {
			n = rnd.Intn(len(b) + 1)
		}
		if rnd.Chance(40) && len(b) > 16384 {
			n = 16384 + 32*rnd.Intn((len(b)-16384)/32)
		}
		return b[:n], "truncate"
	case 10: // prefix
		i := rnd.Intn(28)
		b[i] ^= byte(1 + rnd.Intn(255))
		return b, "prefix"
	case 11: // metadata
		if hl > 33 && hl <= len(b) {
			i := 32 + rnd.Intn(hl-32)
			b[i] = Pick(rnd, []byte{0, '\n', ':', ' ', 'x', 0xff})
		}
		return b, "meta"
	case 12: // extension with zeros or junk
		ext := make([]byte, Pick(rnd, []int{1, 3, 31, 32, 16384}))
		if rnd.Bool() {
			copy(ext, rnd.Bytes(len(ext)))
		}
		return append(b, ext...), "extend"
	default: // a few random byte flips anywhere
		for i, k := 0, 1+rnd.Intn(4); i < k; i++ {
			b[rnd.Intn(len(b))] ^= byte(1 << uint(rnd.Intn(8)))
		}
		return b, "bitflip"
	}
}

func nameAt(b []byte, r int) string {
	n := int(le32(b, r+8) & 0xffffff)
	if r+16+n > len(b) {
		return ""
	}
	return string(b[r+16 : r+16+n])
}

// ---------------------------------------------------------------- hand-made inputs

func blank(n int, hdrLen uint32) []byte {
	b := make([]byte, n)
	copy(b, fmtgen.Prefix)
	put32(b, 28, hdrLen)
	return b
}

func putRecord(b []byte, off int, name string, next uint32, v uint64) {
	if off+16+len(name) > len(b) {
		return
	}
	binary.LittleEndian.PutUint64(b[off:], v)
	put32(b, off+8, uint32(len(name))|0xff000000)
	put32(b, off+12, next)
	copy(b[off+16:], name)
}

// tailRecord: an input whose length is not a multiple of 32 (nor of the page
// size), with a complete record in the partial unit after the last full one,
// linked from its bucket (alone, or behind the chain that is already there).
func tailRecord(base []byte) []byte {
	t := 17 + rnd.Intn(15)
	if rnd.Chance(20) {
		t = 17 + rnd.Intn(200) // several units and a partial one
	}
	L := len(base)
	b := append(append([]byte(nil), base...), make([]byte, t)...)
	hl := int(le32(b, 28))
	maxName := t - 16
	if maxName > 40 {
		maxName = 40
	}
	name := fmtgen.NameOfLen(rnd, 1+rnd.Intn(maxName))
	off := L + 8*rnd.Intn((t-16-len(name))/8+1)
	ho := hl + 4 + 4*int(fmtgen.Hash(name))
	putRecord(b, off, name, le32(b, ho), uint64(rnd.Intn(1000)))
	put32(b, ho, uint32(off))
	out.Note("tail-record-len-mod32-" + strconv.Itoa(len(b)%32))
	return b
}

// hugeInput: an input of several MiB in which a bucket head or a next link is
// within 16 bytes of 2^32 (8-aligned: 0xfffffff8, 0xfffffff0, 0xffffffe8), long
// enough that a reader whose offset arithmetic wraps around would find a
// "record" at the wrapped offset inside the input: the name-length word such a
// reader takes from the file's first bytes, masked to 24 bits, plus slack.
func hugeInput(idx int) []byte {
	prefixWord := int(binary.LittleEndian.Uint32([]byte(fmtgen.Prefix)[0:4]) & 0xffffff)
	L := 8 + prefixWord + 32*rnd.Intn(64)
	if rnd.Bool() {
		L = (L + 16383) / 16384 * 16384
	}
	b := blank(L, 32)
	ptr := Pick(rnd, []uint32{0xfffffff8, 0xfffffff8, 0xfffffff0, 0xffffffe8, 0xffffffe0})
	if idx < 2 {
		ptr = 0xfffffff8 // the last 8-aligned offset: off+16 wraps to 8
	}
	if idx%2 == 0 {
		put32(b, 32+4+4*rnd.Intn(512), ptr)
		out.Note("huge-head-near-2^32")
	} else {
		name := fmtgen.NameOfLen(rnd, 1+rnd.Intn(20))
		putRecord(b, 2112, name, ptr, 1)
		put32(b, 32+4+4*int(fmtgen.Hash(name)), 2112)
		out.Note("huge-next-near-2^32")
	}
	return b
}

func regression() []byte {
	if rnd.Chance(25) {
		if rnd.Bool() {
			return tailRecord(blank(16384*(1+rnd.Intn(2)), 32))
		}
		return tailRecord(validFile())
	}
	switch rnd.Intn(8) {
	case 0: // header length below the fixed prefix (fix 23cf018)
		return blank(16384, Pick(rnd, []uint32{0, 1, 16, 27, 28, 29, 30, 31}))
	case 1: // cycle through a record with a compressed stack name (fix 698f470)
		b := blank(16384, 32)
		name := "s\n\".b"
		off := 2112 + 32*rnd.Intn(100)
		putRecord(b, off, name, uint32(off), 7)
		put32(b, 32+4+4*int(fmtgen.Hash(name)), uint32(off))
		put32(b, 32, uint32(off+32))
		return b
	case 2: // two-record cycle, both names compressed stacks
		b := blank(16384, 32)
		n1, n2 := "s\n\".b", "t\nx.y\n\".z"
		o1, o2 := 2112, 2112+64
		putRecord(b, o1, n1, uint32(o2), 1)
		putRecord(b, o2, n2, uint32(o1), 2)
		put32(b, 32+4+4*rnd.Intn(512), uint32(o1))
		return b
	case 3: // long acyclic chain of plain names through one bucket (ignores hashing)
		b := blank(32768, 32)
		k := 400 + rnd.Intn(200)
		for i := 0; i < k; i++ {
			off := 2112 + 32*i
			nx := uint32(off + 32)
			if i == k-1 {
				nx = 0
			}
			putRecord(b, off, fmt.Sprintf("n%d", i), nx, uint64(i))
		}
		put32(b, 32+4, 2112)
		return b
	case 4: // header length with the table at the very end of the input
		L := 16384 * (1 + rnd.Intn(2))
		b := blank(L, uint32(L-4-4*rnd.Intn(4)-rnd.Intn(4)))
		for i := 32; i < len(b); i++ {
			if rnd.Chance(1) {
				b[i] = byte(rnd.Intn(3))
			}
		}
		b[32] = 0
		return b
	case 5: // record whose name reaches exactly the end of the input
		b := blank(16384, 32)
		name := strings.Repeat("e", 1+rnd.Intn(60))
		off := 16384 - 16 - len(name) - rnd.Intn(2)
		putRecord(b, off, name, 0, 9)
		put32(b, 32+4+4*rnd.Intn(512), uint32(off))
		return b
	case 6: // record offsets of every alignment (only multiples of 8 are read)
		b := blank(16384, 32)
		off := 2112 + rnd.Intn(500)
		out.Note("hand-offset-mod8-" + strconv.Itoa(off%8))
		putRecord(b, off, "odd", 0, 3)
		put32(b, 32+4+4*rnd.Intn(512), uint32(off))
		return b
	default: // same raw name twice in one chain
		b := blank(16384, 32)
		putRecord(b, 2112, "dup", 2176, 1)
		putRecord(b, 2176, "dup", 0, 2)
		put32(b, 32+4+4*int(fmtgen.Hash("dup")), 2112)
		return b
	}
}

func randomInput() []byte {
	switch rnd.Intn(6) {
	case 0:
		return rnd.Bytes(rnd.Intn(64))
	case 1:
		return rnd.Bytes(16384)
	case 2: // valid prefix, random rest
		b := rnd.Bytes(16384)
		copy(b, fmtgen.Prefix)
		return b
	case 3: // valid prefix and small header length, random rest
		b := rnd.Bytes(16384)
		copy(b, fmtgen.Prefix)
		put32(b, 28, uint32(32*(1+rnd.Intn(8))))
		b[32] = 0
		return b
	case 4: // sparse: mostly zeros with a few random words in the table and record area
		b := blank(16384, 32)
		for i, k := 0, rnd.Intn(12); i < k; i++ {
			put32(b, 36+4*rnd.Intn(512), uint32(2084+rnd.Intn(14000)))
		}
		for i, k := 0, rnd.Intn(200); i < k; i++ {
			put32(b, 2084+4*rnd.Intn(3500), uint32(rnd.Intn(20)))
		}
		return b
	default:
		n := Pick(rnd, []int{0, 27, 28, 16383, 16384, 16385})
		b := make([]byte, n)
		copy(b, fmtgen.Prefix)
		return b
	}
}

// ---------------------------------------------------------------- Read / ReadFile in a process that holds a mapping

// readObs: counter.Read(c) under the watchdog.
func readObs(c *counter.Counter) []string {
	ch := make(chan []string, 1)
	go func() {
		defer func() {
			if r := recover(); r != nil {
				ch <- []string{"panic", U(0)}
			}
		}()
		v, err := counter.Read(c)
		switch {
		case err == nil:
			ch <- []string{"ok", U(v)}
		case strings.Contains(err.Error(), "not found"):
			ch <- []string{"notfound", U(0)}
		default:
			ch <- []string{"err", U(0)}
		}
	}()
	select {
	case r := <-ch:
		return r
	case <-time.After(3 * time.Second):
		hangs++
		return []string{"hang", U(0)}
	}
}

func readFileObs(path string) []string {
	cs, ss, err := counter.ReadFile(path)
	if err != nil {
		return []string{"err"}
	}
	f := []string{"ok"}
	for _, m := range []map[string]uint64{cs, ss} {
		var ks []string
		for k := range m {
			ks = append(ks, k)
		}
		sort.Strings(ks)
		f = append(f, I(int64(len(ks))))
		for _, k := range ks {
			f = append(f, HS(k), U(m[k]))
		}
	}
	return f
}

// caseRead: two file values (what two processes have) on the week's counter
// file, opened by the real rotate1.  A adds a few counters; its counters are
// read back with counter.Read (phase 1); B adds counters, usually enough long
// ones to extend the file beyond what A has mapped; A's counters, counters only
// B created and a name nobody created are read back THROUGH A again (phase 2);
// then A adds one more counter itself and everything is read once more (phase
// 3).  Every phase is one case: the file as it is on disk and what Read
// answered; plus counter.ReadFile on the path.
func caseRead() {
	dir, err := os.MkdirTemp(root, "rd")
	must(err)
	defer os.RemoveAll(dir)
	telemetry.Default = telemetry.NewDir(dir)
	must(os.MkdirAll(telemetry.Default.LocalDir(), 0777))
	must(os.WriteFile(filepath.Join(telemetry.Default.LocalDir(), "weekends"), []byte("3\n"), 0666))
	now := time.Date(2024, 5, 6, 10, 0, 0, 0, time.UTC)
	counter.CounterTime = func() time.Time { return now }
	fa, fb := counter.VerifNewFile(), counter.VerifNewFile()
	fa.Rotate1()
	fb.Rotate1()
	path := fa.CurrentName()
	if path == "" || fb.CurrentName() != path {
		out.Note("read-rotate-failed")
		return
	}
	defer fa.Close()
	defer fb.Close()
	type ctr struct {
		name string
		c    *counter.Counter
	}
	var known []ctr
	addVia := func(f *counter.VerifFile, name string, n int64) {
		c := f.NewCounter(name)
		c.Add(n)
	}
	watch := func(name string) {
		for _, k := range known {
			if k.name == name {
				return
			}
		}
		known = append(known, ctr{name, fa.NewCounter(name)}) // a Counter of process A, never incremented by this handle
	}
	emitPhase := func(phase string) {
		data, err := os.ReadFile(path)
		must(err)
		fields := []string{"read", phase, H(data), I(int64(len(known)))}
		for _, k := range known {
			fields = append(fields, HS(k.name))
			fields = append(fields, readObs(k.c)...)
		}
		fields = append(fields, readFileObs(path)...)
		out.Note("read-phase-" + phase)
		out.Note("read-pages-" + strconv.Itoa(len(data)/16384))
		out.Case(true, fields...)
	}
	// phase 1
	for i, k := 0, 1+rnd.Intn(5); i < k; i++ {
		n := fmtgen.Name(rnd)
		if len(n) > 300 {
			n = n[:300]
		}
		addVia(fa, n, int64(1+rnd.Intn(1000)))
		watch(n)
	}
	watch(fmtgen.NameOfLen(rnd, 1+rnd.Intn(30)) + "-never-created")
	emitPhase("own")
	// phase 2: the other process works on the file
	grow := rnd.Chance(75)
	for i, k := 0, 1+rnd.Intn(6); i < k; i++ {
		var n string
		switch {
		case grow && i < 5:
			n = fmtgen.NameOfLen(rnd, 3600+rnd.Intn(497))
		case rnd.Chance(30) && len(known) > 0:
			n = known[rnd.Intn(len(known))].name // a counter both processes count
		default:
			n = fmtgen.Name(rnd)
		}
		if strings.HasSuffix(n, "-never-created") {
			continue
		}
		addVia(fb, n, int64(1+rnd.Intn(1000)))
		if rnd.Chance(60) {
			watch(n)
		}
	}
	if grow {
		out.Note("read-other-process-grew-the-file")
	}
	emitPhase("after-other")
	// phase 3: A allocates again (it remaps if it has to)
	n := fmtgen.NameOfLen(rnd, Pick(rnd, []int{1, 40, 4000, 4096}))
	addVia(fa, n, 7)
	watch(n)
	emitPhase("after-own-again")
	// reading is an observation: a batch of reads must leave the process as it
	// was - no further mapping of the file, no further open descriptor
	mapsBefore, fdsBefore := countMaps(path), countFds()
	reads := 0
	for i := 0; i < 6; i++ {
		for _, k := range known {
			readObs(k.c)
			reads++
		}
		counter.ReadFile(path)
		reads++
	}
	out.Note("read-resource-batch")
	out.Case(true, "readres", I(int64(reads)), I(int64(mapsBefore)), I(int64(countMaps(path))), I(int64(fdsBefore)), I(int64(countFds())))
}

// countMaps: number of mappings of the file in this process.
func countMaps(path string) int {
	b, err := os.ReadFile("/proc/self/maps")
	if err != nil {
		return -1
	}
	n := 0
	for _, line := range strings.Split(string(b), "\n") {
		if strings.HasSuffix(line, path) {
			n++
		}
	}
	return n
}

// countFds: number of open file descriptors of this process.
func countFds() int {
	ents, err := os.ReadDir("/proc/self/fd")
	if err != nil {
		return -1
	}
	return len(ents)
}

func main() {
	if len(os.Args) < 3 {
		fmt.Fprintln(os.Stderr, "usage: vh_parse <cases file> <n>")
		os.Exit(2)
	}
	n, _ := strconv.Atoi(os.Args[2])
	rnd = NewRand(Seed())
	out = NewOut(os.Args[1])
	var err error
	root, err = os.MkdirTemp("", "vh-parse-")
	must(err)
	defer os.RemoveAll(root)
	collisions = fmtgen.CollidingPairs(rnd, 6)
	// a few inputs of several MiB (structurally generated; the rest stays small)
	huge := 2
	if os.Getenv("VERIF_TIER") == "thorough" {
		huge = 8
	}
	if n < 50 {
		huge = 0
	}
	for i := 0; i < huge; i++ {
		emit("huge", hugeInput(i))
	}
	var base []byte
	for i := 0; i < n; i++ {
		switch k := rnd.Intn(100); {
		case k < 12:
			base = libFile()
			emit("lib", base)
		case k < 24:
			base = specFile()
			emit("spec", base)
		case k < 74:
			// mutations of the most recent valid file (a fresh one now and then)
			if base == nil || rnd.Chance(15) {
				base = validFile()
			}
			m, what := mutate(base)
			if rnd.Chance(25) {
				m, _ = mutate(m)
				what = "multi"
			}
			out.Note("mut-" + what)
			emit("mut", m)
		case k < 85:
			emit("hand", regression())
		case k < 88:
			caseRead()
		default:
			emit("rand", randomInput())
		}
	}
	out.Close()
	if hangs > 0 {
		// spinning goroutines are still running: leave without waiting for them
		os.RemoveAll(root)
		os.Exit(0)
	}
}
