// vh_worker: correspondence harness launcher for C13.  The functions under
// test are unexported in package main of godev/cmd/worker, so the harness
// itself is injected into that package (zz_verif_worker.go, tag verif).  This
// launcher builds ./cmd/worker of the scratch copy it runs in (cwd =
// <copy>/godev) with -tags verif into a temp binary and runs it with
// VERIF_HARNESS=worker and the same arguments (cases file, n).
package main

import (
	"fmt"
	"os"
	"os/exec"
	"path/filepath"
)

func main() {
	if len(os.Args) < 3 {
		fmt.Fprintln(os.Stderr, "usage: vh_worker <cases file> <n>")
		os.Exit(2)
	}
	tmp, err := os.MkdirTemp("", "vh_worker_bin")
	if err != nil {
		fmt.Fprintln(os.Stderr, err)
		os.Exit(2)
	}
	bin := filepath.Join(tmp, "worker-verif")
	build := exec.Command("go", "build", "-tags", "verif", "-o", bin, "./cmd/worker")
	build.Stdout, build.Stderr = os.Stderr, os.Stderr
	if err := build.Run(); err != nil {
		os.RemoveAll(tmp)
		fmt.Fprintln(os.Stderr, "vh_worker: building ./cmd/worker with -tags verif failed:", err)
		os.Exit(3)
	}
	run := exec.Command(bin, os.Args[1:]...)
	run.Env = append(os.Environ(), "VERIF_HARNESS=worker")
	run.Stdout, run.Stderr = os.Stdout, os.Stderr
	err = run.Run()
	os.RemoveAll(tmp)
	if err != nil {
		fmt.Fprintln(os.Stderr, "vh_worker: harness run failed:", err)
		os.Exit(4)
	}
}
