// vh_chartcfg: correspondence harness for C17 (chart config parsing, upload
// config generation, version padding).
//
//	keys    the key table Parse derives by reflection from ChartConfig
//	render  record sets rendered by this harness's own renderer (compared byte
//	        for byte with the model's render) and parsed by the REAL Parse
//	text    malformed / random texts parsed by the REAL Parse
//	gen     REAL generate (package main of internal/configgen, built with
//	        -tags verif and run as a child process) on record sets, toolchain
//	        and proxy version lists, paddings
//	pad     REAL padVersions on version lists, patterns, paddings
package main

import (
	"encoding/json"
	"fmt"
	"go/version"
	"math"
	"os"
	"os/exec"
	"path/filepath"
	"reflect"
	"regexp"
	"sort"
	"strconv"
	"strings"
	"unicode/utf8"

	"golang.org/x/mod/semver"
	"golang.org/x/telemetry/internal/chartconfig"
	. "golang.org/x/telemetry/internal/verifh/vhlib"
)

var rnd *Rand
var out *Out

// ---------------------------------------------------------------- records and layouts

type fstyle struct{ ws1, ws2, cmt string }
type rstyle struct {
	sep    bool
	pre    []string
	f      [10]fstyle // indexed like keyNames
	multi  bool
	indent string
	post   []string
}

// struct order of ChartConfig (the model's key_index)
var keyNames = []string{"title", "description", "issue", "type", "program", "module", "counter", "depth", "error", "version"}

const (
	kTitle = iota
	kDescription
	kIssue
	kType
	kProgram
	kModule
	kCounter
	kDepth
	kError
	kVersion
)

func canonStyle(multi bool) rstyle {
	s := rstyle{multi: multi, indent: "  "}
	for i := range s.f {
		s.f[i] = fstyle{" ", "", ""}
	}
	return s
}

func fieldLine(k int, v string, fs fstyle) string {
	return keyNames[k] + ":" + fs.ws1 + v + fs.ws2 + fs.cmt
}

// the harness's own renderer of the documented syntax
func renderRecord(r chartconfig.ChartConfig, s rstyle) []string {
	var ls []string
	if s.sep {
		ls = append(ls, "---")
	}
	ls = append(ls, s.pre...)
	opt := func(k int, v string) {
		if v != "" {
			ls = append(ls, fieldLine(k, v, s.f[k]))
		}
	}
	if c := r.Counter; c != "" {
		oi := strings.IndexByte(c, '{')
		ci := -1
		if oi >= 0 {
			ci = strings.IndexByte(c[oi+1:], '}')
		}
		if s.multi && oi >= 0 && ci >= 0 {
			pre, body, post := c[:oi], c[oi+1:oi+1+ci], c[oi+1+ci+1:]
			fs := s.f[kCounter]
			ls = append(ls, "counter:"+fs.ws1+pre+"{"+fs.ws2+fs.cmt)
			items := strings.Split(body, ",")
			for i, it := range items {
				if i < len(items)-1 {
					ls = append(ls, s.indent+it+",")
				} else {
					ls = append(ls, s.indent+it)
				}
			}
			ls = append(ls, "}"+post)
		} else {
			ls = append(ls, fieldLine(kCounter, c, s.f[kCounter]))
		}
	}
	opt(kTitle, r.Title)
	opt(kDescription, r.Description)
	for _, is := range r.Issue {
		ls = append(ls, fieldLine(kIssue, is, s.f[kIssue]))
	}
	opt(kType, r.Type)
	opt(kProgram, r.Program)
	opt(kModule, r.Module)
	opt(kVersion, r.Version)
	if r.Depth != 0 {
		ls = append(ls, fieldLine(kDepth, strconv.Itoa(r.Depth), s.f[kDepth]))
	}
	if math.Float64bits(r.Error) != 0 {
		ls = append(ls, fieldLine(kError, fmtFloat(r.Error), s.f[kError]))
	}
	ls = append(ls, s.post...)
	return ls
}

func renderAll(rs []chartconfig.ChartConfig, ss []rstyle) string {
	var ls []string
	for i := range rs {
		if i > 0 {
			ls = append(ls, "---")
		}
		ls = append(ls, renderRecord(rs[i], ss[i])...)
	}
	var b strings.Builder
	for _, l := range ls {
		b.WriteString(l)
		b.WriteByte('\n')
	}
	return b.String()
}

func fmtFloat(f float64) string { return strconv.FormatFloat(f, 'g', -1, 64) }

// ---------------------------------------------------------------- generators

var words = []string{"gopls", "editor", "bug", "go/build", "flag", "vim", "emacs", "vscode", "other", "Editor Distribution",
	"measure x", "a b  c", "x:y", "a-b_c.d/e", "https://go.dev/issue/61038", "1.21", "café", "日本語",
	"a b", "é", "あ", "--", "---x", "-", "0", "title", "counter", "k: v", "v1.2.3", "go1.23rc1", "stack", "partition"}

// bytes and characters that are white space or control characters somewhere
// (unicode.IsSpace, line and paragraph separators, C0/C1 controls, BOM, zero
// width space): legal INSIDE a value, where only '#' and '\n' are excluded
var interior = []string{"\r", "\t", "\v", "\f", "\r\r", " \r ", "\u0085", "\u00a0", "\u1680", "\u2000", "\u2003", "\u200a", "\u2028", "\u2029",
	"\u202f", "\u205f", "\u3000", "\x00", "\x01", "\x1b", "\x1c", "\x1f", "\x7f", "\ufeff", "\u200b", "\x85", "\xa0", "\xc2", "\xe2\x80"}

// a value with such a character strictly inside (the ends stay non-space)
func genInterior() string {
	out.Note("interior-space-or-control")
	c := Pick(rnd, interior)
	if c[0] == '\r' {
		out.Note("interior-cr")
	}
	return Pick(rnd, []string{"progress:", "a", "vim", "x y", "é", "100%"}) + c + Pick(rnd, []string{"100% done", "b", "im", "z", "日本"})
}

func genPlain() string {
	switch rnd.Intn(14) {
	case 12, 13:
		return genInterior()
	case 0:
		return Pick(rnd, words) + " " + Pick(rnd, words)
	case 1:
		return Pick(rnd, words) + Pick(rnd, words)
	case 2:
		// random printable
		n := 1 + rnd.Intn(8)
		b := make([]byte, n)
		for i := range b {
			b[i] = byte(33 + rnd.Intn(94))
			if b[i] == '#' || b[i] == '{' || b[i] == '}' {
				b[i] = 'x'
			}
		}
		return string(b)
	default:
		return Pick(rnd, words)
	}
}

// values that break validity in a named way (still rendered and compared)
func genOddValue() string {
	out.Note("odd-value")
	return Pick(rnd, []string{"a#b", "a{b", "a}b", "a\nb", " lead", "trail　", "a\u0085", " x", "x\t", "\ty",
		"{", "}", "x\r", "\xff\xfe", "a\xc2", "\xa0x", "caf\xe9"})
}

func genItems() []string {
	n := 1 + rnd.Intn(5)
	its := make([]string, n)
	for i := range its {
		its[i] = Pick(rnd, []string{"emacs", "vim", "vscode", "other", "1.21", "c-archive", "a b", "x", "été", "-", "--", "a:b"})
		if rnd.Intn(12) == 0 {
			its[i] = genInterior() // e.g. "v\rim" as a bucket name
		}
	}
	return its
}

// noOdd: only valid values and layouts (set while building the long-line cases,
// whose round trip must be decided by the property oracle)
var noOdd bool

func genCounter() string {
	k := rnd.Intn(10)
	if noOdd && k == 5 {
		k = 6
	}
	switch k {
	case 0, 1, 2:
		return Pick(rnd, words)
	case 3:
		out.Note("counter-empty-braces")
		return Pick(rnd, words) + ":{}"
	case 4:
		out.Note("counter-post")
		return Pick(rnd, words) + ":{" + strings.Join(genItems(), ",") + "}" + Pick(rnd, []string{"x", " tail", "/y", ":z"})
	case 5:
		out.Note("counter-odd")
		return Pick(rnd, []string{"a:{b,}", "a:{b, c}", "a:{ b,c }", "a:{b}}", "a:{{b}", "}a{", "a:{b},{c}", "a:{---}", "a:{,b}", "a:{b,,c}",
			"a:{b ,c}", "a:{ b,c}", "a{b", "a}b", "{a}"})
	default:
		return Pick(rnd, words) + ":{" + strings.Join(genItems(), ",") + "}"
	}
}

func genDepth() int {
	switch rnd.Intn(10) {
	case 0:
		return Pick(rnd, []int{math.MaxInt64, math.MinInt64, -1, 1 << 62, -(1 << 62), 1000000007})
	case 1, 2, 3:
		return 1 + rnd.Intn(32)
	default:
		return 0
	}
}

func genError() float64 {
	switch rnd.Intn(10) {
	case 0:
		return Pick(rnd, []float64{0.1, 1e-9, 0.05, 1, 123456.789, math.SmallestNonzeroFloat64, math.MaxFloat64, -2.5})
	case 1:
		if noOdd {
			return math.Inf(1)
		}
		return Pick(rnd, []float64{math.Copysign(0, -1), math.Inf(1), math.Inf(-1), math.NaN(), math.Float64frombits(0x7ff8000000000002)})
	case 2:
		if noOdd {
			return 0.25
		}
		return math.Float64frombits(rnd.Uint64())
	default:
		return 0
	}
}

func genRecord() chartconfig.ChartConfig {
	var r chartconfig.ChartConfig
	val := func() string {
		if rnd.Intn(40) == 0 && !noOdd {
			return genOddValue()
		}
		return genPlain()
	}
	p := 70
	if rnd.Intn(5) == 0 {
		p = 25
	}
	if rnd.Chance(p) {
		r.Title = val()
	}
	if rnd.Chance(p) {
		r.Description = val()
	}
	if rnd.Chance(p) {
		n := 1 + rnd.Intn(3)
		for i := 0; i < n; i++ {
			r.Issue = append(r.Issue, val())
		}
		if n > 1 {
			out.Note("issue-repeated")
		}
	}
	if rnd.Chance(p) {
		r.Type = Pick(rnd, []string{"partition", "stack", val()})
	}
	if rnd.Chance(p) {
		r.Program = Pick(rnd, []string{"golang.org/x/tools/gopls", "cmd/go", val()})
	}
	if rnd.Chance(p) {
		r.Module = val()
	}
	if rnd.Chance(p) {
		r.Counter = genCounter()
	}
	if rnd.Chance(p) {
		r.Version = Pick(rnd, []string{"v1.0.0", "go1.23rc1", val()})
	}
	r.Depth = genDepth()
	r.Error = genError()
	return r
}

func blanks() string {
	return Pick(rnd, []string{"", " ", " ", "  ", "\t", " \t "})
}

func genComment() string {
	if rnd.Chance(60) {
		return ""
	}
	return "#" + Pick(rnd, []string{"", " a comment", " TODO(x): {more}", " # nested", "}{", " counter: x", "---", " a\rtitle: b", "\r", " x\u2028y", "\x00"})
}

func genFiller() string {
	return Pick(rnd, []string{"", " ", "\t", "# a comment", "  # indented comment {", "#", "# ---", "   ", "# a\rb", "#\r---", " # \u0085 \v"})
}

func genStyle() rstyle {
	if rnd.Chance(35) {
		out.Note("style-canonical")
		return canonStyle(rnd.Bool())
	}
	out.Note("style-random")
	var s rstyle
	s.sep = rnd.Chance(20)
	for i := rnd.Intn(3); i > 0; i-- {
		s.pre = append(s.pre, genFiller())
	}
	for i := rnd.Intn(3); i > 0; i-- {
		s.post = append(s.post, genFiller())
	}
	for i := range s.f {
		s.f[i] = fstyle{blanks(), blanks(), genComment()}
	}
	s.multi = rnd.Bool()
	s.indent = Pick(rnd, []string{"  ", "\t", "    ", "", " \t"})
	if rnd.Intn(60) == 0 && !noOdd {
		out.Note("style-odd")
		// layouts outside style_ok: still rendered and compared
		switch rnd.Intn(4) {
		case 0:
			s.pre = append(s.pre, Pick(rnd, []string{"x", " title: y", "--- ", "}"}))
		case 1:
			s.f[rnd.Intn(10)].ws1 = Pick(rnd, []string{" ", "\r", "x"})
		case 2:
			s.f[rnd.Intn(10)].cmt = Pick(rnd, []string{"x", " y", "# a\nb"})
		case 3:
			s.indent = Pick(rnd, []string{"x", "　", "-"})
		}
	}
	return s
}

// ---------------------------------------------------------------- running the real parser

var lineRx = regexp.MustCompile(`^line (\d+): (.*)$`)
var invLineRx = regexp.MustCompile(`^invalid line "(?:[^"\\]|\\.)*": (.*)$`)
var fieldRx = regexp.MustCompile(`^field "[A-Za-z]+": invalid (int|float) value `)

// classifies an error of Parse: (has line, line, class code of the model's perr_code)
func classify(err error) (bool, int64, int64) {
	msg := err.Error()
	// the message may contain newlines only inside %q, where they are escaped
	m := lineRx.FindStringSubmatch(msg)
	if m == nil {
		if strings.HasPrefix(msg, "reached end of file") {
			return false, 0, 11
		}
		return false, 0, 0
	}
	ln, _ := strconv.ParseInt(m[1], 10, 64)
	rest := m[2]
	switch {
	case strings.HasPrefix(rest, "reached end of record"):
		return true, ln, 1
	case strings.HasPrefix(rest, "field ") && strings.HasSuffix(rest, " may not be repeated") && !strings.HasPrefix(rest, `field "`):
		return true, ln, 8
	}
	if f := fieldRx.FindStringSubmatch(rest); f != nil {
		if f[1] == "int" {
			return true, ln, 9
		}
		return true, ln, 10
	}
	if iv := invLineRx.FindStringSubmatch(rest); iv != nil {
		switch reason := iv[1]; {
		case reason == "unexpected '}' after ','":
			return true, ln, 6
		case reason == "unexpected '}'":
			return true, ln, 2
		case reason == "unexpected '{'":
			return true, ln, 3
		case reason == "'{' is only allowed to appear within a counter field":
			return true, ln, 4
		case reason == "'{' is only allowed to appear once within a counter field":
			return true, ln, 5
		case strings.HasPrefix(reason, "lines must be '---'"):
			return true, ln, 7
		}
	}
	return true, ln, 0
}

func recFields(r chartconfig.ChartConfig) []string {
	f := []string{HS(r.Title), HS(r.Description), I(int64(len(r.Issue)))}
	for _, is := range r.Issue {
		f = append(f, HS(is))
	}
	f = append(f, HS(r.Type), HS(r.Program), HS(r.Module), HS(r.Counter), I(int64(r.Depth)), U(math.Float64bits(r.Error)), HS(r.Version))
	return f
}

func styleFields(s rstyle) []string {
	f := []string{B(s.sep), I(int64(len(s.pre)))}
	for _, l := range s.pre {
		f = append(f, HS(l))
	}
	for _, fs := range s.f {
		f = append(f, HS(fs.ws1), HS(fs.ws2), HS(fs.cmt))
	}
	f = append(f, B(s.multi), HS(s.indent), I(int64(len(s.post))))
	for _, l := range s.post {
		f = append(f, HS(l))
	}
	return f
}

// strconv.ParseFloat answers for every text the parser can hand to it: the
// value of each "error:" line (also after joining a multi-line counter, which
// never starts with "error:")
func floatTable(text string, extra ...string) []string {
	seen := map[string]bool{}
	var keys []string
	for _, v := range extra { // the renderings whose survival valid_record asks about
		if !seen[v] {
			seen[v] = true
			keys = append(keys, v)
		}
	}
	for _, line := range strings.Split(text, "\n") {
		t, _, _ := strings.Cut(line, "#")
		if strings.HasPrefix(t, "error:") {
			v := strings.TrimSpace(t[len("error:"):])
			if !seen[v] {
				seen[v] = true
				keys = append(keys, v)
			}
		}
	}
	f := []string{I(int64(len(keys)))}
	for _, k := range keys {
		v, err := strconv.ParseFloat(k, 64)
		f = append(f, HS(k), B(err == nil), U(math.Float64bits(v)))
	}
	return f
}

func parseFields(text string) (fields []string, ok bool) {
	var recs []chartconfig.ChartConfig
	var err error
	panicked := false
	func() {
		defer func() {
			if e := recover(); e != nil {
				panicked = true
			}
		}()
		recs, err = chartconfig.Parse([]byte(text))
	}()
	if panicked {
		out.Note("parse-panic")
		return []string{"panic"}, false
	}
	if err != nil {
		has, ln, code := classify(err)
		out.Note(fmt.Sprintf("parse-error-%d", code))
		return []string{"err", B(has), I(ln), I(code)}, false
	}
	out.Note("parse-ok")
	f := []string{"ok", I(int64(len(recs)))}
	for _, r := range recs {
		f = append(f, recFields(r)...)
	}
	return f, true
}

func caseKeys() {
	typ := reflect.TypeOf(chartconfig.ChartConfig{})
	f := []string{"keys", I(int64(typ.NumField()))}
	for i := 0; i < typ.NumField(); i++ {
		fl := typ.Field(i)
		kind := fl.Type.Kind().String()
		f = append(f, HS(strings.ToLower(fl.Name)), HS(kind))
	}
	out.Case(true, f...)
}

func genRecordSet() ([]chartconfig.ChartConfig, []rstyle) {
	n := Pick(rnd, []int{0, 1, 1, 1, 2, 2, 3, 4, 6})
	rs := make([]chartconfig.ChartConfig, n)
	ss := make([]rstyle, n)
	for i := range rs {
		rs[i] = genRecord()
		ss[i] = genStyle()
	}
	return rs, ss
}

func caseRender() {
	rs, ss := genRecordSet()
	emitRender(rs, ss)
}

// cyclic filler of exactly k bytes that neither starts nor ends with a blank or a comma
func filler(pattern string, k int) string {
	if k <= 0 {
		return ""
	}
	b := make([]byte, k)
	for i := range b {
		b[i] = pattern[i%len(pattern)]
	}
	if b[0] == ' ' || b[0] == ',' {
		b[0] = 'x'
	}
	if b[k-1] == ' ' || b[k-1] == ',' {
		b[k-1] = 'x'
	}
	return string(b)
}

func longestLine(text string) int {
	m := 0
	for _, l := range strings.Split(text, "\n") {
		if len(l) > m {
			m = len(l)
		}
	}
	return m
}

// A valid record set in a valid layout with ONE physical line of exactly
// `target` bytes (the syntax has no line length limit): a long plain value, a
// bucket list on one line, a long comment after a value, a long comment line,
// or one long bucket in a one-bucket-per-line list.
func caseLongLine(mode, target int) {
	noOdd = true
	defer func() { noOdd = false }()
	rs, ss := genRecordSet()
	if len(rs) == 0 {
		rs, ss = append(rs, genRecord()), append(ss, genStyle())
	}
	i := rnd.Intn(len(rs))
	field := rnd.Intn(7)
	pat := Pick(rnd, []string{"measure editor distribution for gopls users. ", "abc def-ghi/jk ", "x", "日本語 café ", "https://go.dev/issue/61038 "})
	bpat := Pick(rnd, []string{"vscode,emacs,vim,", "1.21,", "c-archive,c-shared,default,exe,pie,", "b,"})
	base, bstyle := rs[i], ss[i]
	build := func(k int) {
		r, s := base, bstyle
		switch mode {
		case 0: // long plain value
			v := filler(pat, k)
			switch field {
			case 0:
				r.Title = v
			case 1:
				r.Description = v
			case 2:
				r.Issue = append(append([]string(nil), r.Issue...), v)
			case 3:
				r.Type = v
			case 4:
				r.Program = v
			case 5:
				r.Module = v
			case 6:
				r.Version = v
			}
		case 1: // bucket list on one line
			r.Counter = "gopls/long:{" + filler(bpat, k) + "}"
			s.multi = false
		case 2: // long comment after a value
			r.Title = "Long comment"
			s.f[kTitle] = fstyle{" ", " ", "#" + filler(pat, k)}
		case 3: // long comment line
			if field%2 == 0 {
				s.pre = append(append([]string(nil), s.pre...), "# "+filler(pat, k))
			} else {
				s.post = append(append([]string(nil), s.post...), "# "+filler(pat, k))
			}
		case 4: // one long bucket, one bucket per line
			r.Counter = "gopls/long:{first," + filler("bucket-name/", k) + ",last}"
			s.multi = true
			if s.indent == "x" || s.indent == "-" || s.indent == "\u3000" {
				s.indent = "  "
			}
		}
		rs[i], ss[i] = r, s
	}
	k := target
	for tries := 0; tries < 4; tries++ {
		build(k)
		l := longestLine(renderAll(rs, ss))
		if l == target {
			break
		}
		k += target - l
	}
	out.Note(fmt.Sprintf("long-line-mode-%d", mode))
	out.Note(fmt.Sprintf("long-line-%d", longestLine(renderAll(rs, ss))/1024*1024))
	emitRender(rs, ss)
}

// the line lengths around bufio's initial (4 KiB) and maximal (64 KiB) buffer sizes
func longLineCases() {
	for mode := 0; mode < 5; mode++ {
		for _, target := range []int{65535, 65536, 65537, 65538 + rnd.Intn(30000)} {
			caseLongLine(mode, target)
		}
		caseLongLine(mode, Pick(rnd, []int{4095, 4096, 4097, 8192, 16384, 32768, 65534}))
	}
}

func emitRender(rs []chartconfig.ChartConfig, ss []rstyle) {
	text := renderAll(rs, ss)
	f := []string{"render", I(int64(len(rs)))}
	for i := range rs {
		f = append(f, recFields(rs[i])...)
		f = append(f, styleFields(ss[i])...)
		f = append(f, HS(fmtFloat(rs[i].Error)))
	}
	f = append(f, HS(text))
	var fmts []string
	for i := range rs {
		fmts = append(fmts, fmtFloat(rs[i].Error))
	}
	f = append(f, floatTable(text, fmts...)...)
	pf, _ := parseFields(text)
	f = append(f, pf...)
	out.Note(fmt.Sprintf("render-records-%d", len(rs)))
	out.Case(true, f...)
}

// catalogue of malformed lines: every error case of Parse
var badLines = []string{
	" title: foo", "foo: bar", "--- # no comments after separators", "--- ", " ---", "----", "--", "depth: notanint",
	"depth: +5", "depth: -0", "depth: 99999999999999999999", "depth: 1_000", "depth: 0x10", "depth: 1e3", "depth: 12 3", "depth:",
	"error: x", "error: 1e400", "error: 0x1p-2", "error: inf", "error: NaN", "error: 1_0", "error: .5", "error: +1.5e-3", "error: 0.1 0.2",
	"title: {", "title: }", "counter: foo{", "  bar", "  bar,", "}", "} }", "} {", "counter: }foo{", "counter: foo{{", "  {bar",
	"counter: foo{bar,", " baz}", "counter: foo{a}{b}", "counter: foo{a,}", "counter:{", "counter: {,}", "counter : x", "Counter: x",
	"title:", "title:   # only a comment", "title: a", "title: b", "issue: a", "issue: b", "version: v1", "type: stack", "program: cmd/go",
	"module: m", "description: d", "counter: c", "counterx: y", "titles: y", ":", "title", "title :x", " title: x", "title: x ",
	"title: x\r", "---\r", "title:　y", "error: 1 ", "#", "# {", "x # title: y", "\t", "\u0085", "\xff", "title: \xff\xfe", "counter: a{\xc2",
	"issue: {", "depth: {1}", "counter: foo:{a,b} # {c}", "counter: foo:{ # open", "  a, # first", "  b # last", "} # close",
}

// strings around the grammar of strconv.ParseInt / ParseFloat
func numberLike() string {
	var b strings.Builder
	b.WriteString(Pick(rnd, []string{"", "", "", "+", "-", "--", "+-", " "}))
	switch rnd.Intn(6) {
	case 0:
		b.WriteString(Pick(rnd, []string{"9223372036854775807", "9223372036854775808", "9223372036854775809", "18446744073709551616",
			"09223372036854775807", "000", "0", "00000000000000000000000000007"}))
	default:
		n := rnd.Intn(24)
		for i := 0; i < n; i++ {
			b.WriteByte(byte('0' + rnd.Intn(10)))
		}
	}
	b.WriteString(Pick(rnd, []string{"", "", "", "", "_0", "e3", ".5", "x", " 1", "\u0661", "L", ".", "e", "p-2"}))
	return b.String()
}

func caseMalformed() {
	var lines []string
	if rnd.Chance(60) {
		rs, ss := genRecordSet()
		text := renderAll(rs, ss)
		lines = strings.Split(strings.TrimSuffix(text, "\n"), "\n")
		out.Note("malformed-from-valid")
	} else {
		out.Note("malformed-from-catalogue")
	}
	nmut := 1 + rnd.Intn(4)
	for i := 0; i < nmut; i++ {
		switch rnd.Intn(8) {
		case 0, 1, 2: // insert a catalogue line, or a numeric field with a number-like value
			p := rnd.Intn(len(lines) + 1)
			l := Pick(rnd, badLines)
			if rnd.Intn(5) == 0 {
				l = Pick(rnd, []string{"depth: ", "depth:", "error: ", "depth: \t"}) + numberLike()
				out.Note("number-like")
			}
			lines = append(lines[:p], append([]string{l}, lines[p:]...)...)
		case 3: // duplicate a line (repeated field)
			if len(lines) > 0 {
				p := rnd.Intn(len(lines))
				lines = append(lines[:p+1], append([]string{lines[p]}, lines[p+1:]...)...)
			}
		case 4: // delete a line (e.g. the closing brace)
			if len(lines) > 0 {
				p := rnd.Intn(len(lines))
				lines = append(lines[:p], lines[p+1:]...)
			}
		case 5: // edit one byte
			if len(lines) > 0 {
				p := rnd.Intn(len(lines))
				if l := lines[p]; len(l) > 0 {
					q := rnd.Intn(len(l))
					lines[p] = l[:q] + Pick(rnd, []string{"{", "}", "#", ",", " ", ":", "-", "", "\t", " "}) + l[q+1:]
				}
			}
		case 6: // swap two lines
			if len(lines) > 1 {
				p, q := rnd.Intn(len(lines)), rnd.Intn(len(lines))
				lines[p], lines[q] = lines[q], lines[p]
			}
		case 7: // separator
			p := rnd.Intn(len(lines) + 1)
			lines = append(lines[:p], append([]string{"---"}, lines[p:]...)...)
		}
	}
	text := strings.Join(lines, "\n")
	if rnd.Bool() {
		text += "\n"
	}
	if rnd.Intn(20) == 0 {
		text = strings.ReplaceAll(text, "\n", "\r\n")
		out.Note("crlf")
	}
	emitText(text)
}

func caseRandomText() {
	out.Note("random-text")
	n := rnd.Intn(60)
	var b strings.Builder
	alpha := []string{"{", "}", "#", ":", ",", "-", "\n", "\n", " ", "\t", "a", "1", "counter:", "title:", "depth:", "error:", "issue:", "---", "\n---\n",
		"0.5", " ", "\xff", "e", "+", ".", "x"}
	for i := 0; i < n; i++ {
		b.WriteString(Pick(rnd, alpha))
	}
	emitText(b.String())
}

func emitText(text string) {
	f := []string{"text", HS(text)}
	f = append(f, floatTable(text)...)
	pf, _ := parseFields(text)
	f = append(f, pf...)
	out.Case(true, f...)
}

// ---------------------------------------------------------------- generate / padVersions (child process)

type genReq struct {
	Records   []chartconfig.ChartConfig
	Toolchain []string
	Proxy     map[string][]string
	Paddings  map[string][5]int
	NoHook    bool
}
type padReq struct {
	Versions []string
	Patterns []string
	Padding  [5]int
}
type request struct {
	Gen []genReq
	Pad []padReq
}
type counterResp struct {
	Name      string
	RateIsOne bool
	Depth     int
}
type programResp struct {
	Name     string
	Versions []string
	Counters []counterResp
	Stacks   []counterResp
}
type genResp struct {
	Status    string
	Detail    string
	GoVersion []string
	Programs  []programResp
}
type padResp struct {
	Status string
	Out    []string
}
type response struct {
	Gen []genResp
	Pad []padResp
}

var goVersionPool = []string{"go1.18", "go1.19", "go1.19.1", "go1.20", "go1.20rc1", "go1.20.3", "go1.21rc2", "go1.21.0", "go1.21.5",
	"go1.22.0", "go1.22.1", "go1.23rc1", "go1.23.0", "go1.23.2", "go1.24rc1", "go1.24.0", "go1.9.2rc2", "go1.100.0", "go1.3"}
var goMinPool = []string{"", "", "go1.21", "go1.23", "go1.22", "go1.20", "go1.23rc1", "go1.21.0", "go1.22.1", "go1.19", "go1.24", "go1.18", "go1.99"}
var semPool = []string{"v0.1.0", "v0.9.0", "v0.13.0", "v0.14.0", "v0.15.0-pre.1", "v0.15.0-pre.2", "v0.15.0", "v0.15.1", "v0.16.0-pre.1", "v1.0.0",
	"v1.0.1-pre.3", "v1.2.3", "v1.10.0", "v2.0.0", "v0.15.2-pre.8", "v0.0.0", "v1.2.4-rc.1", "v1.0.0+incompatible", "v1.2", "v1", "v0.16.0", "v0.16.1-pre.1"}
var semMinPool = []string{"", "", "v0.13.0", "v0.14.0", "v0.15.0", "v1.0.0", "v0.15.0-pre.1", "v1.2", "v0.0.1", "v9.0.0", "v1.0.1"}
var toolPrograms = []string{"cmd/go", "cmd/compile", "cmd/vet", "cmd/link"}
var modPrograms = []string{"golang.org/x/tools/gopls", "golang.org/x/vuln/cmd/govulncheck", "github.com/golang/vscode-go/vscgo", "example.com/m/cmd/x", "cmdx/y"}

func genPadding() [5]int {
	p := [5]int{rnd.Intn(7), rnd.Intn(3), rnd.Intn(4), rnd.Intn(4), rnd.Intn(4)}
	if rnd.Intn(15) == 0 {
		p[rnd.Intn(5)] = -1
	}
	return p
}

func subset(pool []string, p int) []string {
	var r []string
	for _, v := range pool {
		if rnd.Chance(p) {
			r = append(r, v)
		}
	}
	rnd2 := rnd
	for i := len(r) - 1; i > 0; i-- { // shuffle
		j := rnd2.Intn(i + 1)
		r[i], r[j] = r[j], r[i]
	}
	return r
}

func genGen() genReq {
	var q genReq
	q.Proxy = map[string][]string{}
	q.Paddings = map[string][5]int{}
	nprog := 1 + rnd.Intn(4)
	var progs []string
	for len(progs) < nprog {
		var p string
		if rnd.Chance(55) {
			p = Pick(rnd, toolPrograms)
		} else {
			p = Pick(rnd, modPrograms)
		}
		dup := false
		for _, x := range progs {
			dup = dup || x == p
		}
		if !dup {
			progs = append(progs, p)
		}
	}
	nrec := 1 + rnd.Intn(8)
	for i := 0; i < nrec; i++ {
		p := Pick(rnd, progs)
		tool := strings.HasPrefix(p, "cmd/")
		r := chartconfig.ChartConfig{Title: "t" + strconv.Itoa(i), Issue: []string{"https://go.dev/issue/1"}, Program: p,
			Counter: Pick(rnd, []string{"a/b", "c:{x,y}", "gopls/bug", "go/build/flag:{\n}", "a/b"}) + strconv.Itoa(rnd.Intn(3))}
		r.Module = "mod/" + p // one module per program: generate filters the test hook's slice in place
		if rnd.Intn(6) == 0 {
			r.Module = "alt/" + p // only the first record's module counts
			out.Note("gen-module-differs")
		}
		if rnd.Chance(35) {
			r.Type = "stack"
			r.Depth = 1 + rnd.Intn(16)
			out.Note("gen-stack")
		} else if rnd.Intn(8) == 0 {
			r.Type = "stack" // a stack chart without a depth is listed as a counter
			out.Note("gen-stack-type-no-depth")
		} else {
			r.Type = "partition"
		}
		if tool {
			r.Version = Pick(rnd, goMinPool)
		} else {
			r.Version = Pick(rnd, semMinPool)
		}
		if rnd.Intn(25) == 0 {
			out.Note("gen-invalid-record")
			switch rnd.Intn(8) {
			case 0:
				r.Title = ""
			case 1:
				r.Issue = nil
			case 2:
				r.Counter = ""
			case 3:
				r.Type = ""
			case 4:
				r.Depth = -1
			case 5:
				r.Type = "partition"
				r.Depth = 3
			case 6:
				r.Version = Pick(rnd, []string{"v1.2.3", "go1.21", "1.2.3", "go1", "v1.2.3.4"}) // valid for the other kind only, or invalid
			case 7:
				r.Type = "stack"
				r.Depth = 0 // allowed: a stack chart without depth is listed as a counter
			}
		}
		q.Records = append(q.Records, r)
	}
	// toolchain module versions: several platforms per Go version
	gos := subset(goVersionPool, 55)
	for _, g := range gos {
		for _, plat := range []string{"linux-amd64", "darwin-arm64", "windows-386"} {
			if rnd.Chance(70) {
				q.Toolchain = append(q.Toolchain, "v0.0.1-"+g+"."+plat)
			}
		}
	}
	if rnd.Intn(40) == 0 {
		q.Toolchain = append(q.Toolchain, "v0.0.1-weird")
		out.Note("gen-bad-toolchain-version")
	}
	for _, p := range progs {
		if strings.HasPrefix(p, "cmd/") {
			out.Note("gen-toolchain-program")
			continue
		}
		out.Note("gen-module-program")
		vs := subset(semPool, 50)
		if rnd.Intn(30) == 0 {
			vs = append(vs, Pick(rnd, []string{"1.2.3", "vx", "v1.2.3.4"}))
			out.Note("gen-invalid-proxy-version")
		}
		q.Proxy["mod/"+p] = vs
		if rnd.Intn(30) != 0 {
			q.Paddings[p] = genPadding()
		} else {
			out.Note("gen-no-padding")
		}
	}
	// every module named by a first record must be answerable without the network
	for _, r := range q.Records {
		if _, ok := q.Proxy[r.Module]; !ok && !strings.HasPrefix(r.Program, "cmd/") {
			q.Proxy[r.Module] = subset(semPool, 30)
		}
	}
	return q
}

func genPad() padReq {
	var q padReq
	q.Versions = subset(semPool, 10+rnd.Intn(60))
	switch rnd.Intn(12) {
	case 0:
		q.Versions = append(q.Versions, Pick(rnd, []string{"v4611686018427387904.1.2", "v1.4611686018427387904.0", "v0.0.4611686018427387904"}))
		out.Note("pad-big-component")
	case 1:
		q.Versions = append(q.Versions, Pick(rnd, []string{"v9223372036854775808.0.0", "v1.99999999999999999999.0", "v1.0.9223372036854775808"}))
		out.Note("pad-component-beyond-int")
	case 2:
		if len(q.Versions) > 0 {
			q.Versions = append(q.Versions, q.Versions[0])
			out.Note("pad-duplicate-input")
		}
	case 3:
		q.Versions = append(q.Versions, Pick(rnd, []string{"bad", "1.2.3", "v1.2.3.4", ""}))
		out.Note("pad-invalid-input")
	case 4:
		q.Versions = nil
		out.Note("pad-empty-input")
	}
	switch rnd.Intn(6) {
	case 0:
		q.Patterns = []string{"rc.1", "rc.2", "rc.3"}
	case 1:
		q.Patterns = nil
	case 2:
		q.Patterns = []string{"pre.1", "pre.2", "pre.1"}
		out.Note("pad-duplicate-patterns")
	default:
		q.Patterns = []string{"pre.1", "pre.2", "pre.3", "pre.4", "pre.5", "pre.6", "pre.7", "pre.8"}
	}
	q.Padding = genPadding()
	return q
}

var tcRx = regexp.MustCompile(`^v0\.0\.1-(go.+)\.[^.]+-[^.]+$`)

// answers of go/version and x/mod/semver for every string of a case
func versionTable(strs []string) []string {
	set := map[string]bool{}
	var all []string
	for _, s := range strs {
		// the code compares canonical forms too
		for _, x := range []string{s, semver.Canonical(s)} {
			if !set[x] {
				set[x] = true
				all = append(all, x)
			}
		}
	}
	sort.Strings(all)
	rank := func(cmp func(a, b string) int) map[string]int {
		s := append([]string(nil), all...)
		sort.SliceStable(s, func(i, j int) bool { return cmp(s[i], s[j]) < 0 })
		r := map[string]int{}
		k := 0
		for i, v := range s {
			if i > 0 && cmp(s[i-1], v) != 0 {
				k++
			}
			r[v] = k
		}
		return r
	}
	gr := rank(version.Compare)
	sr := rank(semver.Compare)
	f := []string{I(int64(len(all)))}
	for _, s := range all {
		f = append(f, HS(s), B(version.IsValid(s)), I(int64(gr[s])), B(semver.IsValid(s)), I(int64(sr[s])), HS(semver.Canonical(s)), HS(semver.Prerelease(s)))
	}
	return f
}

func strList(l []string) []string {
	f := []string{I(int64(len(l)))}
	for _, s := range l {
		f = append(f, HS(s))
	}
	return f
}

func padFields(p [5]int) []string {
	return []string{I(int64(p[0])), I(int64(p[1])), I(int64(p[2])), I(int64(p[3])), I(int64(p[4]))}
}

var childDir, childBin string

func buildChild() {
	tmp, err := os.MkdirTemp("", "vh-chartcfg-")
	if err != nil {
		panic(err)
	}
	childDir = tmp
	childBin = filepath.Join(tmp, "configgen")
	cmd := exec.Command("go", "build", "-tags", "verif", "-o", childBin, "./internal/configgen")
	if o, err := cmd.CombinedOutput(); err != nil {
		fmt.Fprintf(os.Stderr, "building internal/configgen with -tags verif failed: %v\n%s", err, o)
		os.RemoveAll(tmp)
		os.Exit(3)
	}
}

// runChild runs ONE process of the real configgen package on the requests, in order.
func runChild(req request, extraEnv ...string) response {
	data, err := json.Marshal(req)
	if err != nil {
		panic(err)
	}
	reqf, respf := filepath.Join(childDir, "req.json"), filepath.Join(childDir, "resp.json")
	os.Remove(respf)
	if err := os.WriteFile(reqf, data, 0666); err != nil {
		panic(err)
	}
	c := exec.Command(childBin)
	c.Env = append(os.Environ(), "VERIF_HARNESS=configgen", "VERIF_REQ="+reqf, "VERIF_RESP="+respf)
	c.Env = append(c.Env, extraEnv...)
	if o, err := c.CombinedOutput(); err != nil {
		fmt.Fprintf(os.Stderr, "configgen child failed: %v\n%s", err, o)
		os.RemoveAll(childDir)
		os.Exit(3)
	}
	rd, err := os.ReadFile(respf)
	if err != nil {
		panic(err)
	}
	var resp response
	if err := json.Unmarshal(rd, &resp); err != nil {
		panic(err)
	}
	if len(resp.Gen) != len(req.Gen) || len(resp.Pad) != len(req.Pad) {
		fmt.Fprintln(os.Stderr, "configgen child answered a different number of requests")
		os.RemoveAll(childDir)
		os.Exit(3)
	}
	return resp
}

// ---- sessions: several generate() calls in ONE process through the real
// listProxyVersions path.  A fake `go` first on PATH answers
// `go list -m --versions <module>` from the session's table (the module
// mirror: one fixed version list per module), so no test hook is involved.

const fakeGo = `#!/bin/sh
# fake go for the verification harness: only "go list -m --versions <module>"
if [ "$1" != "list" ] || [ "$2" != "-m" ] || [ "$3" != "--versions" ]; then
  echo "fake go: unsupported $*" >&2; exit 2
fi
while IFS= read -r line; do
  if [ "${line%% *}" = "$4" ]; then echo "$line"; exit 0; fi
done < "$VERIF_GOLIST"
echo "go: module $4: not known to the fake mirror" >&2
exit 1
`

type session struct {
	table map[string][]string // module -> versions, incl. golang.org/toolchain
	calls []genReq
}

var sharedModules = [][]string{
	{"golang.org/x/vuln", "golang.org/x/vuln/cmd/govulncheck", "golang.org/x/vuln/cmd/vulnreport", "golang.org/x/vuln/cmd/other"},
	{"golang.org/x/tools/gopls", "golang.org/x/tools/gopls", "golang.org/x/tools/gopls/cmd/helper"},
	{"example.com/m", "example.com/m/cmd/x", "example.com/m/cmd/y", "cmdx/y"},
}

func sortedSubset(pool []string, p int) []string {
	vs := subset(pool, p)
	semver.Sort(vs) // the mirror lists versions in order
	return vs
}

func genSession() session {
	var s session
	s.table = map[string][]string{}
	// programs: toolchain programs and module programs, several of which share a module
	type prog struct{ name, module string }
	var progs []prog
	nmod := 1 + rnd.Intn(2)
	for i := 0; i < nmod; i++ {
		g := sharedModules[(rnd.Intn(3)+i)%3]
		if _, dup := s.table[g[0]]; dup {
			continue
		}
		s.table[g[0]] = sortedSubset(semPool, 40+rnd.Intn(40))
		k := 1 + rnd.Intn(len(g)-1)
		if rnd.Chance(70) && k < 2 {
			k = 2
		}
		for _, p := range g[1 : 1+k] {
			progs = append(progs, prog{p, g[0]})
		}
	}
	if rnd.Chance(40) {
		progs = append(progs, prog{Pick(rnd, toolPrograms), ""})
	}
	var tc []string
	for _, g := range subset(goVersionPool, 50) {
		tc = append(tc, "v0.0.1-"+g+".linux-amd64")
		if rnd.Bool() {
			tc = append(tc, "v0.0.1-"+g+".darwin-arm64")
		}
	}
	s.table["golang.org/toolchain"] = tc
	mkRecords := func() []chartconfig.ChartConfig {
		var rs []chartconfig.ChartConfig
		order := rnd.Intn(len(progs))
		for j := range progs {
			p := progs[(j+order)%len(progs)] // program order varies between calls
			nrec := 1 + rnd.Intn(2)
			for i := 0; i < nrec; i++ {
				r := chartconfig.ChartConfig{Title: "t", Issue: []string{"https://go.dev/issue/1"}, Program: p.name, Module: p.module,
					Type: "partition", Counter: Pick(rnd, []string{"a/b", "c:{x,y}", "gopls/bug"}) + strconv.Itoa(len(rs))}
				if rnd.Chance(30) {
					r.Type, r.Depth = "stack", 1+rnd.Intn(8)
				}
				if strings.HasPrefix(p.name, "cmd/") {
					r.Version = Pick(rnd, goMinPool)
				} else {
					r.Version = Pick(rnd, semMinPool) // programs of one module get different minimums
				}
				rs = append(rs, r)
			}
		}
		return rs
	}
	mkPaddings := func() map[string][5]int {
		m := map[string][5]int{}
		for _, p := range progs {
			if p.module != "" {
				m[p.name] = [5]int{1 + rnd.Intn(6), rnd.Intn(2), rnd.Intn(3), rnd.Intn(3), rnd.Intn(3)}
			}
		}
		return m
	}
	recs := mkRecords()
	ncalls := 2 + rnd.Intn(2)
	for c := 0; c < ncalls; c++ {
		if c >= 2 || (c == 1 && rnd.Chance(30)) {
			recs = mkRecords() // otherwise: as main(), the same records with other paddings
		}
		q := genReq{Records: recs, Toolchain: tc, Proxy: map[string][]string{}, Paddings: mkPaddings(), NoHook: true}
		for m, vs := range s.table {
			if m != "golang.org/toolchain" {
				q.Proxy[m] = vs
			}
		}
		s.calls = append(s.calls, q)
	}
	return s
}

func runSession(id int, s session) {
	dir := filepath.Join(childDir, "fakebin")
	os.MkdirAll(dir, 0777)
	if err := os.WriteFile(filepath.Join(dir, "go"), []byte(fakeGo), 0777); err != nil {
		panic(err)
	}
	mods := make([]string, 0, len(s.table))
	for m := range s.table {
		mods = append(mods, m)
	}
	sort.Strings(mods)
	var b strings.Builder
	for _, m := range mods {
		b.WriteString(m)
		for _, v := range s.table[m] {
			b.WriteString(" " + v)
		}
		b.WriteString("\n")
	}
	tablef := filepath.Join(childDir, "golist.txt")
	if err := os.WriteFile(tablef, []byte(b.String()), 0666); err != nil {
		panic(err)
	}
	resp := runChild(request{Gen: s.calls}, "PATH="+dir+string(os.PathListSeparator)+os.Getenv("PATH"), "VERIF_GOLIST="+tablef)
	for i := range s.calls {
		out.Note(fmt.Sprintf("session-call-%d", i))
		emitGenKind([]string{"sgen", I(int64(id)), I(int64(i))}, s.calls[i], resp.Gen[i])
	}
}

func checkUTF8(q genReq) {
	for _, r := range q.Records {
		for _, s := range []string{r.Title, r.Program, r.Module, r.Counter, r.Version, r.Type} {
			if !utf8.ValidString(s) {
				panic("gen record is not valid UTF-8 (JSON transport)")
			}
		}
	}
}

func emitGen(q genReq, r genResp) { emitGenKind([]string{"gen"}, q, r) }

func emitGenKind(head []string, q genReq, r genResp) {
	f := append(head, I(int64(len(q.Records))))
	var strs []string
	for _, rec := range q.Records {
		f = append(f, recFields(rec)...)
		strs = append(strs, rec.Version)
	}
	// expected set of Go versions = what the toolchain module versions name
	// (goVersions() itself is not modelled; it fails when a version does not match)
	var fed []string
	fedSet := map[string]bool{}
	tcok := true
	for _, tv := range q.Toolchain {
		if m := tcRx.FindStringSubmatch(tv); m != nil {
			if !fedSet[m[1]] {
				fedSet[m[1]] = true
				fed = append(fed, m[1])
			}
		} else {
			tcok = false
		}
	}
	sort.Strings(fed)
	f = append(f, B(tcok))
	f = append(f, strList(fed)...)
	mods := make([]string, 0, len(q.Proxy))
	for m := range q.Proxy {
		mods = append(mods, m)
	}
	sort.Strings(mods)
	f = append(f, I(int64(len(mods))))
	for _, m := range mods {
		f = append(f, HS(m))
		f = append(f, strList(q.Proxy[m])...)
		strs = append(strs, q.Proxy[m]...)
	}
	ps := make([]string, 0, len(q.Paddings))
	for p := range q.Paddings {
		ps = append(ps, p)
	}
	sort.Strings(ps)
	f = append(f, I(int64(len(ps))))
	for _, p := range ps {
		f = append(f, HS(p))
		f = append(f, padFields(q.Paddings[p])...)
	}
	f = append(f, r.Status)
	out.Note("gen-" + r.Status)
	if r.Status == "ok" {
		f = append(f, strList(r.GoVersion)...)
		strs = append(strs, r.GoVersion...)
		f = append(f, I(int64(len(r.Programs))))
		for _, p := range r.Programs {
			f = append(f, HS(p.Name))
			f = append(f, strList(p.Versions)...)
			strs = append(strs, p.Versions...)
			for _, cl := range [][]counterResp{p.Counters, p.Stacks} {
				f = append(f, I(int64(len(cl))))
				for _, c := range cl {
					f = append(f, HS(c.Name), I(int64(c.Depth)), B(c.RateIsOne))
				}
			}
		}
	}
	strs = append(strs, fed...)
	strs = append(strs, "v0.0.0")
	f = append(f, versionTable(strs)...)
	out.Case(true, f...)
}

func emitPad(q padReq, r padResp) {
	f := []string{"pad"}
	f = append(f, strList(q.Versions)...)
	f = append(f, strList(q.Patterns)...)
	f = append(f, padFields(q.Padding)...)
	f = append(f, r.Status)
	out.Note("pad-" + r.Status)
	strs := append([]string(nil), q.Versions...)
	if r.Status == "ok" {
		f = append(f, strList(r.Out)...)
		strs = append(strs, r.Out...)
		if len(r.Out) > len(q.Versions) {
			out.Note("pad-added-versions")
		}
	}
	strs = append(strs, "v0.0.0")
	f = append(f, versionTable(strs)...)
	out.Case(true, f...)
}

// the record set of the repaired defect: minimums go1.23 then go1.21 for a toolchain program
func fixedGen() genReq {
	mk := func(i int, ver string) chartconfig.ChartConfig {
		return chartconfig.ChartConfig{Title: "t" + strconv.Itoa(i), Issue: []string{"https://go.dev/issue/1"}, Program: "cmd/go",
			Type: "partition", Counter: "go/x" + strconv.Itoa(i), Version: ver}
	}
	var tc []string
	for _, g := range []string{"go1.20", "go1.21.0", "go1.22.0", "go1.23.0", "go1.24.0"} {
		tc = append(tc, "v0.0.1-"+g+".linux-amd64")
	}
	return genReq{Records: []chartconfig.ChartConfig{mk(0, "go1.23"), mk(1, "go1.21")}, Toolchain: tc,
		Proxy: map[string][]string{}, Paddings: map[string][5]int{}}
}

func main() {
	if len(os.Args) < 3 {
		fmt.Fprintln(os.Stderr, "usage: vh_chartcfg <cases file> <n>")
		os.Exit(2)
	}
	n, _ := strconv.Atoi(os.Args[2])
	rnd = NewRand(Seed())
	out = NewOut(os.Args[1])
	caseKeys()
	longLineCases()
	var req request
	req.Gen = append(req.Gen, fixedGen())
	for i := 0; i < n; i++ {
		switch k := rnd.Intn(100); {
		case k < 40:
			caseRender()
		case k < 65:
			caseMalformed()
		case k < 75:
			caseRandomText()
		case k < 90:
			q := genGen()
			checkUTF8(q)
			req.Gen = append(req.Gen, q)
		default:
			req.Pad = append(req.Pad, genPad())
		}
	}
	buildChild()
	defer os.RemoveAll(childDir)
	nsess := 30 + n/400
	if nsess > 400 {
		nsess = 400
	}
	var sessions []session
	for i := 0; i < nsess; i++ {
		sessions = append(sessions, genSession())
	}
	resp := runChild(req)
	for i, s := range sessions {
		runSession(i, s)
	}
	for i := range req.Gen {
		emitGen(req.Gen[i], resp.Gen[i])
	}
	for i := range req.Pad {
		emitPad(req.Pad[i], resp.Pad[i])
	}
	out.Close()
}
