// vh_gating: correspondence harness for C02, uploader / counter part.  Builds
// telemetry directories (count files written by the real counter library at a
// chosen CounterTime, left-over reports, upload/ contents, mode file), runs
// the real uploader against a local HTTP server that counts requests, and
// writes the state before, the inputs and the observations (requests, names
// after, snapshot comparison) for the model runner (ocaml/c02_main.ml).
package main

import (
	"bytes"
	"crypto/rand"
	"crypto/sha256"
	"encoding/binary"
	"encoding/json"
	"fmt"
	"io"
	"io/fs"
	"math"
	"net/http"
	"net/http/httptest"
	"os"
	"os/exec"
	"path/filepath"
	"runtime/debug"
	"sort"
	"strconv"
	"strings"
	"sync"
	"time"

	pcounter "golang.org/x/telemetry/counter"
	"golang.org/x/telemetry/internal/configstore"
	"golang.org/x/telemetry/internal/counter"
	"golang.org/x/telemetry/internal/proxy"
	"golang.org/x/telemetry/internal/telemetry"
	"golang.org/x/telemetry/internal/upload"
	. "golang.org/x/telemetry/internal/verifh/vhlib"
)

var rnd *Rand
var out *Out
var root string

// ---------------------------------------------------------------- X

type constReader struct{ b [8]byte }

func (c constReader) Read(p []byte) (int, error) {
	for i := range p {
		p[i] = c.b[i%8]
	}
	return len(p), nil
}

// setX makes computeRandom return exactly x = f*2-1 for the given f in [0.5,1)
func setX(f float64) float64 {
	var c constReader
	binary.LittleEndian.PutUint64(c.b[:], math.Float64bits(f))
	rand.Reader = c
	return f*2 - 1
}

// fkey maps a float64 (no NaN) to an integer with the same order
func fkey(f float64) int64 {
	b := math.Float64bits(f)
	if b>>63 != 0 {
		return -int64(b & (1<<63 - 1))
	}
	return int64(b)
}

// ---------------------------------------------------------------- server

type server struct {
	mu     sync.Mutex
	paths  []string
	status int
	srv    *httptest.Server
}

func newServer() *server {
	s := &server{status: 200}
	s.srv = httptest.NewServer(http.HandlerFunc(func(w http.ResponseWriter, r *http.Request) {
		io.Copy(io.Discard, r.Body)
		s.mu.Lock()
		s.paths = append(s.paths, r.Method+" "+r.URL.Path)
		st := s.status
		s.mu.Unlock()
		w.WriteHeader(st)
	}))
	return s
}

func (s *server) reset(status int) {
	s.mu.Lock()
	s.paths = nil
	s.status = status
	s.mu.Unlock()
}
func (s *server) got() []string {
	s.mu.Lock()
	defer s.mu.Unlock()
	return append([]string(nil), s.paths...)
}

var srv *server

// ---------------------------------------------------------------- snapshot

type snapEntry struct {
	dir  bool
	size int64
	sum  [32]byte
}

func snapshot(dir string) map[string]snapEntry {
	res := map[string]snapEntry{}
	filepath.WalkDir(dir, func(p string, d fs.DirEntry, err error) error {
		if err != nil || p == dir {
			return nil
		}
		rel, _ := filepath.Rel(dir, p)
		if d.IsDir() {
			res[rel] = snapEntry{dir: true}
			return nil
		}
		data, err := os.ReadFile(p)
		if err != nil {
			return nil
		}
		res[rel] = snapEntry{size: int64(len(data)), sum: sha256.Sum256(data)}
		return nil
	})
	return res
}

// ---------------------------------------------------------------- state listing

func modeState(dir string) (string, []byte) {
	mf := filepath.Join(dir, "mode")
	fi, err := os.Stat(mf)
	if err != nil {
		return "absent", nil
	}
	if fi.IsDir() {
		return "isdir", nil
	}
	c, err := os.ReadFile(mf)
	if err != nil {
		panic(err)
	}
	return "file", c
}

func splitNs(t time.Time) (string, string) {
	return I(t.Unix()), I(int64(t.Nanosecond()))
}

// listLocal: the entries of local/ in ReadDir order with, for names ending in
// .v1.count, what the uploader's own decoding functions give.
func listLocal(dir string) (present bool, fields []string) {
	ents, err := os.ReadDir(filepath.Join(dir, "local"))
	if err != nil {
		return false, []string{I(0)}
	}
	fields = append(fields, I(int64(len(ents))))
	for _, e := range ents {
		fields = append(fields, HS(e.Name()))
		span, endOnly := false, false
		var b, en time.Time
		counts := false
		if strings.HasSuffix(e.Name(), ".v1.count") {
			data, err := os.ReadFile(filepath.Join(dir, "local", e.Name()))
			if err == nil {
				if pf, err := counter.Parse(e.Name(), data); err == nil {
					var e1, e2 error = fmt.Errorf("missing"), fmt.Errorf("missing")
					if tb, ok := pf.Meta["TimeBegin"]; ok {
						b, e1 = time.Parse(time.RFC3339, tb)
					}
					if te, ok := pf.Meta["TimeEnd"]; ok {
						en, e2 = time.Parse(time.RFC3339, te)
					}
					span = e1 == nil && e2 == nil
					endOnly = e1 != nil && e2 == nil // collection time unknown, end readable
					counts = len(pf.Count) > 0
				}
			}
		}
		switch {
		case span:
			bs, bn := splitNs(b)
			es, en2 := splitNs(en)
			fields = append(fields, "span", bs, bn, es, en2, B(counts))
		case endOnly:
			es, en2 := splitNs(en)
			fields = append(fields, "endonly", es, en2, B(counts))
		default:
			fields = append(fields, "nospan", B(counts))
		}
	}
	return true, fields
}

func listNames(d string) (present bool, fields []string) {
	ents, err := os.ReadDir(d)
	if err != nil {
		return false, []string{I(0)}
	}
	fields = append(fields, I(int64(len(ents))))
	for _, e := range ents {
		fields = append(fields, HS(e.Name()))
	}
	return true, fields
}

// ---------------------------------------------------------------- one observed run

// observeRun lists the state, runs fn (a real uploader run), lists the state
// again and writes one "run" case.
func observeRun(dir string, start time.Time, xkey, ratekey int64, status int, how string, fn func()) {
	mtag, mbytes := modeState(dir)
	lp, lfields := listLocal(dir)
	up, ufields := listNames(filepath.Join(dir, "upload"))
	before := snapshot(dir)
	srv.reset(status)
	panicked := false
	func() {
		defer func() {
			if r := recover(); r != nil {
				panicked = true
			}
		}()
		fn()
	}()
	reqs := srv.got()
	sort.Strings(reqs) // reports() walks a Go map: the order of the created reports is not fixed
	after := snapshot(dir)
	lp2, l2 := listNames(filepath.Join(dir, "local"))
	up2, u2 := listNames(filepath.Join(dir, "upload"))
	mtag2, mbytes2 := modeState(dir)

	preUnchanged := true
	for k, v := range before {
		if w, ok := after[k]; !ok || w != v {
			preUnchanged = false
		}
	}
	var newPaths []string
	newDebug, badDebug := 0, 0
	for k := range after {
		if _, ok := before[k]; ok {
			continue
		}
		if strings.HasPrefix(k, "debug"+string(filepath.Separator)) {
			newDebug++
			if !strings.HasSuffix(k, ".log") {
				badDebug++
			}
			continue
		}
		newPaths = append(newPaths, k)
	}
	sort.Strings(newPaths)

	ss, sn := splitNs(start)
	f := []string{"run", how, mtag, H(mbytes), ss, sn, I(xkey), I(ratekey), I(int64(status)), B(lp)}
	f = append(f, lfields...)
	f = append(f, B(up))
	f = append(f, ufields...)
	// observations
	f = append(f, B(panicked), I(int64(len(reqs))))
	for _, r := range reqs {
		f = append(f, HS(r))
	}
	f = append(f, B(lp2))
	f = append(f, l2...)
	f = append(f, B(up2))
	f = append(f, u2...)
	f = append(f, B(mtag == mtag2 && bytes.Equal(mbytes, mbytes2)), B(preUnchanged), I(int64(len(newPaths))))
	for _, p := range newPaths {
		f = append(f, HS(p))
	}
	f = append(f, I(int64(newDebug)), I(int64(badDebug)))
	if len(reqs) > 0 {
		out.Note("run-with-requests")
	}
	if panicked {
		out.Note("run-panicked")
	}
	out.Case(true, f...)
}

// ---------------------------------------------------------------- published upload config

var proxyRoot string // proxy + module cache of this harness process
var proxySeq int

// publishConfig writes cfg as the only (hence latest) version of the config
// module on a file proxy and returns the go environment that makes
// configstore.Download fetch it.
func publishConfig(cfg *telemetry.UploadConfig) []string {
	if proxyRoot == "" {
		var err error
		proxyRoot, err = os.MkdirTemp("", "vhgatingproxy")
		if err != nil {
			panic(err)
		}
	}
	proxySeq++
	version := fmt.Sprintf("v1.0.%d", proxySeq)
	enc, err := json.Marshal(cfg)
	if err != nil {
		panic(err)
	}
	dp := fmt.Sprintf("%v@%v/", configstore.ModulePath, version)
	pdir := filepath.Join(proxyRoot, "proxy")
	os.RemoveAll(pdir)
	uri, err := proxy.WriteProxy(pdir, map[string][]byte{
		dp + "go.mod":      []byte("module " + configstore.ModulePath + "\n\ngo 1.20\n"),
		dp + "config.json": enc,
	})
	if err != nil {
		panic(err)
	}
	return []string{"GOPROXY=" + uri, "GONOSUMDB=*", "GOSUMDB=off", "GOFLAGS=", "GOMODCACHE=" + filepath.Join(proxyRoot, "modcache")}
}

func cleanProxy() {
	if proxyRoot == "" {
		return
	}
	filepath.WalkDir(proxyRoot, func(p string, d fs.DirEntry, err error) error {
		if err == nil {
			os.Chmod(p, 0777)
		}
		return nil
	})
	os.RemoveAll(proxyRoot)
}

// ---------------------------------------------------------------- scenario building

type scen struct {
	dir      string
	wd       int
	begins   []time.Time // of the count files
	ends     []time.Time
	asof     time.Time // zero: none chosen
	modeWord string
	lastName string // path of the count file written last
}

func newScen() *scen {
	dir, err := os.MkdirTemp(root, "t")
	if err != nil {
		panic(err)
	}
	s := &scen{dir: dir, wd: rnd.Intn(7)}
	telemetry.Default = telemetry.NewDir(dir)
	return s
}

// ends0: a stand-in week end for a file that could not be written
func (s *scen) ends0(t time.Time) time.Time {
	if len(s.ends) > 0 {
		return s.ends[0]
	}
	return t.UTC().Truncate(24 * time.Hour).Add(5 * 24 * time.Hour)
}

func (s *scen) ensureLocal() {
	os.MkdirAll(filepath.Join(s.dir, "local"), 0777)
	wf := filepath.Join(s.dir, "local", "weekends")
	if _, err := os.Stat(wf); err != nil {
		os.WriteFile(wf, []byte(fmt.Sprintf("%d\n", s.wd)), 0666)
	}
}

// countFile has the real counter library write a count file at time now.
// The mode file must not say "off" at this point.
//
// prog is the program the file belongs to (the library takes it from the
// build info): files of different programs share a week, and os.ReadDir lists
// them by program name, not by begin date.
func (s *scen) countFile(now time.Time, ncounters int, prog string) {
	s.ensureLocal()
	telemetry.Default = telemetry.NewDir(s.dir)
	counter.CounterTime = func() time.Time { return now }
	f := counter.VerifNewFile()
	f.SetBuildInfo(&debug.BuildInfo{GoVersion: "go1.23.5", Path: "example.com/cmd/" + prog,
		Main: debug.Module{Path: "example.com/cmd", Version: "v1.2.3"}})
	f.Rotate1()
	if f.CurrentName() == "" {
		// e.g. a file of that name exists with (damaged) metadata that does not match
		out.Note("count-file-not-opened")
		s.lastName = ""
		return
	}
	b, e := f.Span()
	for i := 0; i < ncounters; i++ {
		f.NewCounter(fmt.Sprintf("vh/c%d", i)).Add(int64(1 + i))
	}
	s.lastName = f.CurrentName()
	f.Close()
	s.begins = append(s.begins, b)
	s.ends = append(s.ends, e)
}

// damageMeta edits the metadata of the most recently written count file in
// place (same length, so the header stays well-formed): the TimeBegin / TimeEnd
// key is misspelt or its value made unparsable.
func (s *scen) damageMeta(name string, what string) {
	data, err := os.ReadFile(name)
	if err != nil {
		panic(err)
	}
	key := []byte(what + ": ")
	i := bytes.Index(data[:600], key)
	if i < 0 {
		panic("no " + what + " in " + name)
	}
	switch rnd.Intn(3) {
	case 0:
		data[i+len(what)-1] = 'X' // TimeBegiX: the key is missing
		out.Note("damaged-" + what + "-key")
	case 1:
		data[i+len(key)] = 'x' // x024-...: not RFC3339
		out.Note("damaged-" + what + "-value")
	default:
		data[i+len(key)+10] = ' ' // date and time no longer joined by T
		out.Note("damaged-" + what + "-value")
	}
	if err := os.WriteFile(name, data, 0666); err != nil {
		panic(err)
	}
}

func safeNote(s string) string {
	return strings.Map(func(r rune) rune {
		if r < 33 || r > 126 {
			return '?'
		}
		return r
	}, s)
}

func dateStr(t time.Time) string { return t.UTC().Format("2006-01-02") }

func (s *scen) writeMode(content []byte) {
	os.WriteFile(filepath.Join(s.dir, "mode"), content, 0666)
}

func genBaseTime() time.Time {
	switch rnd.Intn(8) {
	case 0: // year and month boundaries, leap days
		y := 1971 + rnd.Intn(400)
		m := Pick(rnd, []int{1, 2, 2, 3, 12, 12})
		d := Pick(rnd, []int{27, 28, 29, 30, 31, 1, 2})
		return time.Date(y, time.Month(m), d, rnd.Intn(24), rnd.Intn(60), rnd.Intn(60), rnd.Intn(1e9), time.UTC)
	case 1: // far years
		y := 200 + rnd.Intn(9500)
		return time.Date(y, time.Month(1+rnd.Intn(12)), 1+rnd.Intn(28), rnd.Intn(24), rnd.Intn(60), rnd.Intn(60), 0, time.UTC)
	default:
		return time.Unix(31536000+rnd.Int63n(13000000000), int64(rnd.Intn(1e9))).UTC()
	}
}

// white space that Go's strings.Fields / unicode.IsSpace accept besides ' '
var wsSeparators = [][]byte{
	[]byte("\t"), []byte("\n"), []byte("\v"), []byte("\f"), []byte("\r"), []byte("\r\n"), []byte("\n\n"), []byte("\t "),
	{0xC2, 0xA0}, {0xC2, 0x85}, {0xE2, 0x80, 0x83}, {0xE2, 0x80, 0xA8}, {0xE3, 0x80, 0x80}, {0xE1, 0x9A, 0x80},
}

// chooseMode writes the mode file.  asof candidates sit around the begin day
// of the first count file and around the week end.
func (s *scen) chooseMode(ref, refEnd time.Time, exact bool) {
	day := 24 * time.Hour
	var asof time.Time
	hasAsof := true
	pick := rnd.Intn(12)
	if exact {
		pick = 2 // asof = ref, which the caller placed between the begin days
		out.Note("asof-between-begin-days")
	}
	switch pick {
	case 0:
		hasAsof = false
		out.Note("asof-none")
	case 1:
		asof = ref.Add(-day)
		out.Note("asof-begin-minus-1d")
	case 2, 3:
		asof = ref
		out.Note("asof-eq-begin-day")
	case 4:
		asof = ref.Add(day)
		out.Note("asof-begin-plus-1d")
	case 5:
		asof = refEnd
		out.Note("asof-eq-end-day")
	case 6:
		asof = refEnd.Add(-day)
		out.Note("asof-end-minus-1d")
	case 7:
		asof = refEnd.Add(day)
		out.Note("asof-end-plus-1d")
	case 8:
		asof = ref.Add(-time.Duration(2+rnd.Intn(400)) * day)
		out.Note("asof-long-before")
	default:
		asof = ref.Add(time.Duration(rnd.Intn(21)-10) * day)
		out.Note("asof-near")
	}
	s.asof = asof
	word := "on"
	switch r := rnd.Intn(20); {
	case r < 10:
		word = "on"
	case r < 12:
		word = "local"
	case r < 15:
		word = "off"
	case r < 16:
		word = Pick(rnd, []string{"ON", "On", "onn", "", "o", "true", "Local", "OFF", "of", "on,", "\x00on"})
	}
	s.modeWord = word
	switch r := rnd.Intn(24); {
	case r == 0:
		out.Note("modefile-absent")
		s.modeWord = "(absent)"
		return
	case r == 1:
		out.Note("modefile-is-directory")
		os.Mkdir(filepath.Join(s.dir, "mode"), 0777)
		s.modeWord = "(dir)"
		return
	case r == 2 && hasAsof && (word == "on" || word == "off" || word == "local"):
		// through the real API
		out.Note("modefile-by-SetModeAsOf")
		if err := telemetry.NewDir(s.dir).SetModeAsOf(word, asof.Add(time.Duration(rnd.Intn(86400))*time.Second)); err != nil {
			panic(err)
		}
		return
	}
	var c []byte
	c = append(c, word...)
	if rnd.Intn(5) == 0 {
		// white space other than one ASCII space after the mode word: what
		// precedes the first space (after trimming) is then NOT the bare word, so
		// the file does not record on / off / local exactly, unless nothing follows
		sep := Pick(rnd, wsSeparators)
		if rnd.Bool() { // every separator after each of the three mode words
			word = Pick(rnd, []string{"on", "on", "off", "local"})
			s.modeWord = word
		}
		var tail string
		switch rnd.Intn(5) {
		case 0:
			tail = "" // only trailing white space: still the bare word
		case 1:
			tail = "# set by provisioning"
		case 2:
			tail = dateStr(asof) + " extra"
		default:
			tail = dateStr(asof)
		}
		if !hasAsof && tail != "" {
			tail = "# comment"
		}
		c = append(c, sep...)
		c = append(c, tail...)
		out.Note("modefile-ws-separator")
		out.Note("modefile-ws-separator-" + strings.Map(func(r rune) rune {
			if r < 33 || r > 126 {
				return '?'
			}
			return r
		}, word))
		if tail == "" {
			out.Note("modefile-ws-trailing-only")
		}
		s.writeMode(c)
		return
	}
	if hasAsof {
		switch rnd.Intn(16) {
		case 0:
			c = append(c, "  "+dateStr(asof)...)
			out.Note("modefile-two-spaces")
		case 1:
			c = append(c, " "+Pick(rnd, []string{"2024-02-30", "2024-1-05", "yesterday", "2024-01-05T00:00:00Z"})...)
			out.Note("modefile-bad-date")
		default:
			c = append(c, " "+dateStr(asof)...)
		}
	}
	switch rnd.Intn(10) {
	case 0:
		c = append(c, '\n')
	case 1:
		c = append(c, 0xC2, 0xA0)
	case 2:
		c = append([]byte(" "), c...)
	}
	out.Note("mode-" + strings.Map(func(r rune) rune {
		if r < 33 || r > 126 {
			return '?'
		}
		return r
	}, word))
	s.writeMode(c)
}

// genStart: start instants around the boundaries of a week end.
func genStart(end time.Time) time.Time {
	d21 := 21 * 24 * time.Hour
	switch rnd.Intn(20) {
	case 0:
		out.Note("start-eq-end")
		return end
	case 1:
		out.Note("start-end-plus-1ns")
		return end.Add(time.Nanosecond)
	case 2:
		out.Note("start-end-minus-1ns")
		return end.Add(-time.Nanosecond)
	case 3:
		out.Note("start-end-plus-1s")
		return end.Add(time.Second)
	case 4:
		out.Note("start-end-minus-1s")
		return end.Add(-time.Second)
	case 5, 6:
		out.Note("start-age-21d")
		return end.Add(d21)
	case 7:
		out.Note("start-age-21d-plus-1ns")
		return end.Add(d21 + time.Nanosecond)
	case 8:
		out.Note("start-age-21d-plus-1s")
		return end.Add(d21 + time.Second)
	case 9:
		out.Note("start-age-21d-minus-1s")
		return end.Add(d21 - time.Second)
	case 10:
		out.Note("start-age-28d")
		return end.Add(28*24*time.Hour - time.Duration(rnd.Intn(3))*time.Second)
	case 11:
		out.Note("start-far-future")
		return end.AddDate(293+rnd.Intn(300), 0, 0)
	case 12:
		out.Note("start-before-end")
		return end.Add(-time.Duration(rnd.Int63n(int64(9 * 24 * time.Hour))))
	default:
		out.Note("start-within-21d")
		return end.Add(time.Duration(rnd.Int63n(int64(d21))))
	}
}

// genRateX picks X (through the random source) and the sample rate.
func genRateX() (xkey, ratekey int64, rate float64) {
	var f float64
	switch rnd.Intn(6) {
	case 0:
		f = 0.5 // X = 0
	case 1:
		f = math.Nextafter(1, 0) // X just below 1
	case 2:
		f = 0.75
	default:
		f = 0.5 + float64(rnd.Int63n(1<<52))/float64(uint64(1)<<53)
	}
	x := setX(f)
	switch rnd.Intn(12) {
	case 0, 1:
		rate = 0
		out.Note("rate-zero")
	case 2, 3:
		rate = x
		out.Note("rate-eq-x")
	case 4, 5:
		rate = math.Nextafter(x, 2)
		out.Note("rate-x-plus-ulp")
	case 6, 7:
		rate = math.Nextafter(x, -1)
		out.Note("rate-x-minus-ulp")
	case 8:
		rate = 1
		out.Note("rate-one")
	case 9:
		rate = -0.5
		out.Note("rate-negative")
	case 10:
		rate = math.SmallestNonzeroFloat64
		out.Note("rate-tiny")
	default:
		rate = float64(rnd.Int63n(1<<52)) / float64(uint64(1)<<52)
		out.Note("rate-random")
	}
	return fkey(x), fkey(rate), rate
}

func (s *scen) leftovers(start time.Time, weekEnd time.Time) {
	s.ensureLocal()
	day := 24 * time.Hour
	n := rnd.Intn(4)
	for i := 0; i < n; i++ {
		var d time.Time
		switch rnd.Intn(10) {
		case 0:
			d = start.Add(day)
			out.Note("left-date-tomorrow")
		case 1:
			d = start
			out.Note("left-date-today")
		case 2:
			d = start.Add(-day)
			out.Note("left-date-yesterday")
		case 3:
			d = s.asof
			out.Note("left-date-eq-asof")
		case 4:
			d = s.asof.Add(day)
			out.Note("left-date-asof-plus-1d")
		case 5:
			d = s.asof.Add(-day)
			out.Note("left-date-asof-minus-1d")
		case 6:
			d = weekEnd
			out.Note("left-date-eq-week")
		case 7:
			d = start.AddDate(1, 0, 0)
			out.Note("left-date-next-year")
		default:
			d = start.Add(-time.Duration(rnd.Intn(60)) * day)
			out.Note("left-date-past")
		}
		if d.Year() < 1 || d.Year() > 9999 {
			d = start
		}
		ds := dateStr(d)
		var name string
		switch rnd.Intn(16) {
		case 0:
			name = "local." + ds + ".json"
			out.Note("left-local-prefix")
		case 1:
			name = "x" + ds + ".json"
			out.Note("left-prefixed-date")
		case 2:
			name = "nodate-report-" + strconv.Itoa(i) + ".json"
			out.Note("left-no-date")
		case 3:
			name = Pick(rnd, []string{"2024-13-45.json", "2023-02-29.json", "9999-99-99.json", "0000-00-00.json"})
			out.Note("left-bad-date")
		case 4:
			name = ds + ".json.tmp"
			out.Note("left-not-json")
		case 5:
			name = ds + ".JSON"
			out.Note("left-upper-json")
		case 6:
			name = ds + "-x.json"
			out.Note("left-date-not-at-end")
		case 7:
			name = ds + ".v1.count"
			out.Note("left-garbage-count-file")
		default:
			name = ds + ".json"
			out.Note("left-plain")
		}
		os.WriteFile(filepath.Join(s.dir, "local", name), []byte(`{"Week":"`+ds+`"}`), 0666)
	}
	if rnd.Intn(60) == 0 {
		// a name shorter than a date: skipped by uploadReportContents (it used to slice out of range)
		os.WriteFile(filepath.Join(s.dir, "local", "a.json"), []byte("{}"), 0666)
		out.Note("left-short-name")
	}
}

func (s *scen) uploadDir(start, weekEnd time.Time) {
	switch rnd.Intn(10) {
	case 0, 1, 2:
		out.Note("upload-dir-absent")
		return
	}
	ud := filepath.Join(s.dir, "upload")
	os.MkdirAll(ud, 0777)
	day := 24 * time.Hour
	for i := rnd.Intn(3); i > 0; i-- {
		var d time.Time
		switch rnd.Intn(5) {
		case 0:
			d = weekEnd
			out.Note("uploaded-eq-week")
		case 1:
			d = start.Add(-day)
		case 2:
			d = s.asof.Add(day)
		default:
			d = start.Add(-time.Duration(rnd.Intn(60)) * day)
		}
		if d.Year() < 1 || d.Year() > 9999 {
			d = start
		}
		name := dateStr(d) + ".json"
		switch rnd.Intn(10) {
		case 0:
			name += ".lock"
			out.Note("upload-stale-lock")
		case 1:
			name = "notes.txt"
		}
		os.WriteFile(filepath.Join(ud, name), []byte("{}"), 0666)
	}
}

// a scenario: 0-3 count files, left-overs, upload dir, mode, then 1-3 runs
// with SetMode / new files in between
func caseScenario() {
	s := newScen()
	defer func() { os.RemoveAll(s.dir) }()
	base := genBaseTime()
	nfiles := Pick(rnd, []int{0, 1, 1, 1, 2, 2, 2, 3, 3})
	// Programs: the listing order of a week's files (by name) against their
	// begin order.  "reversed": the later a file begins the earlier it is listed.
	progs := []string{"aaa", "mmm", "zzz"}
	order := "same-program"
	switch rnd.Intn(4) {
	case 0:
		order = "listing-reversed"
		progs = []string{"zzz", "mmm", "aaa"}
	case 1:
		order = "listing-forward"
	case 2:
		order = "listing-random"
		for i := range progs {
			j := rnd.Intn(i + 1)
			progs[i], progs[j] = progs[j], progs[i]
		}
	default:
		progs = []string{"vh", "vh", "vh"}
	}
	oneWeek := nfiles > 1 && rnd.Intn(3) > 0 // keep all the files inside the first file's week
	t := base
	for i := 0; i < nfiles; i++ {
		nc := 1 + rnd.Intn(2)
		if rnd.Intn(12) == 0 {
			nc = 0
			out.Note("count-file-without-counters")
		}
		nb := len(s.begins)
		s.countFile(t, nc, progs[i])
		if len(s.begins) == nb { // not opened: keep begins/ends aligned with the file index
			s.begins = append(s.begins, t.UTC().Truncate(24*time.Hour))
			s.ends = append(s.ends, s.ends0(t))
		}
		if s.lastName != "" && nfiles > 1 && progs[0] != "vh" {
			// a count file whose collection time is unknown / whose end is unreadable,
			// next to healthy files of the same week
			switch rnd.Intn(10) {
			case 0, 1:
				s.damageMeta(s.lastName, "TimeBegin")
			case 2:
				s.damageMeta(s.lastName, "TimeEnd")
			}
		}
		step := time.Duration(1+rnd.Intn(4)) * 24 * time.Hour
		if oneWeek {
			// the week ends 1..7 days after the first begin: stay before that end when possible
			room := int(s.ends[0].Sub(s.begins[i]) / (24 * time.Hour)) // >= 1
			if room >= 2 {
				step = time.Duration(1+rnd.Intn(room-1)) * 24 * time.Hour
			} else {
				step = time.Duration(rnd.Intn(20)) * time.Hour // same day, another program
			}
		}
		t = t.Add(step)
	}
	if nfiles > 1 {
		out.Note(order)
		same := 0
		for i := 1; i < nfiles; i++ {
			if s.ends[i].Equal(s.ends[0]) {
				same++
			}
		}
		if same > 0 {
			out.Note("files-sharing-the-first-week")
			if !s.begins[nfiles-1].Equal(s.begins[0]) && order != "same-program" {
				out.Note("shared-week-different-begin-days")
			}
		}
	}
	out.Note(fmt.Sprintf("count-files-%d", nfiles))
	ref, refEnd := base.Truncate(24*time.Hour), base.Truncate(24*time.Hour).Add(5*24*time.Hour)
	if nfiles > 0 {
		ref, refEnd = s.begins[0], s.ends[0]
		if nfiles > 1 && rnd.Bool() {
			ref = s.begins[rnd.Intn(nfiles)]
		}
	}
	between := false
	if nfiles > 1 && s.begins[nfiles-1].After(s.begins[0]) && rnd.Intn(3) == 0 {
		// opt-in date on a day from the first begin up to the day before the last begin:
		// some of the data is from on/before it, some strictly after
		days := int(s.begins[nfiles-1].Sub(s.begins[0]) / (24 * time.Hour))
		ref = s.begins[0].Add(time.Duration(rnd.Intn(days)) * 24 * time.Hour)
		between = true
	}
	if rnd.Intn(8) == 0 {
		// a telemetry directory whose path contains the week's date (notNeeded
		// must look at the report's base name only)
		nd := s.dir + "-" + dateStr(refEnd)
		if err := os.Rename(s.dir, nd); err == nil {
			s.dir = nd
			telemetry.Default = telemetry.NewDir(s.dir)
			out.Note("dir-path-contains-week-date")
		}
	}
	s.chooseMode(ref, refEnd, between)
	start := genStart(refEnd)
	if rnd.Intn(3) > 0 {
		s.leftovers(start, refEnd)
	}
	s.uploadDir(start, refEnd)
	if nfiles > 0 && rnd.Intn(4) == 0 {
		// the week of the count files already has its report: uploaded, or waiting
		// in local/ -- notNeeded then removes the week's count files
		wk := dateStr(s.ends[rnd.Intn(nfiles)])
		if rnd.Intn(3) > 0 {
			os.MkdirAll(filepath.Join(s.dir, "upload"), 0777)
			os.WriteFile(filepath.Join(s.dir, "upload", wk+".json"), []byte("{}"), 0666)
			out.Note("week-already-uploaded")
			out.Note("week-already-uploaded-mode-" + safeNote(s.modeWord))
		} else {
			s.ensureLocal()
			os.WriteFile(filepath.Join(s.dir, "local", wk+".json"), []byte(`{"Week":"`+wk+`"}`), 0666)
			out.Note("week-report-already-waiting")
		}
	}
	if rnd.Intn(8) == 0 {
		os.MkdirAll(filepath.Join(s.dir, "debug"), 0777)
		out.Note("debug-dir-present")
	}

	nruns := Pick(rnd, []int{1, 1, 2, 3})
	for r := 0; r < nruns; r++ {
		s.oneRun(start)
		if r+1 == nruns {
			break
		}
		// between runs: change the mode through the real API, maybe new data
		if rnd.Intn(3) > 0 {
			nm := Pick(rnd, []string{"on", "on", "off", "local"})
			at := start.Add(time.Duration(rnd.Intn(5)-2) * 24 * time.Hour)
			if at.Year() >= 1 && at.Year() <= 9999 {
				mf := filepath.Join(s.dir, "mode")
				if fi, err := os.Stat(mf); err == nil && fi.IsDir() {
					os.Remove(mf)
				}
				if err := telemetry.NewDir(s.dir).SetModeAsOf(nm, at); err != nil {
					panic(err)
				}
				s.asof = at
				out.Note("between-runs-SetModeAsOf-" + nm)
			}
		}
		if m, _ := telemetry.NewDir(s.dir).Mode(); m != "off" && rnd.Bool() && start.Year() < 9000 {
			s.countFile(start.Add(time.Duration(rnd.Intn(48))*time.Hour), 1, Pick(rnd, []string{"aaa", "mmm", "zzz", "vh"}))
			out.Note("between-runs-new-count-file")
		}
		start = start.Add(time.Duration(rnd.Int63n(int64(12 * 24 * time.Hour))))
	}
}

func (s *scen) oneRun(start time.Time) {
	xkey, ratekey, rate := genRateX()
	status := Pick(rnd, []int{200, 200, 200, 200, 200, 200, 400, 404, 500, 503})
	mode, _ := telemetry.NewDir(s.dir).Mode()
	if mode != "on" && rnd.Intn(3) == 0 {
		// the real entry point; no configuration is downloaded unless the mode is on
		out.Note("via-upload.Run")
		observeRun(s.dir, start, 0, 0, status, "Run", func() {
			upload.Run(upload.RunConfig{TelemetryDir: s.dir, UploadURL: srv.srv.URL, StartTime: start})
		})
		return
	}
	if mode == "on" && rnd.Intn(5) == 0 {
		// the real entry point in mode on: the upload config, with its SampleRate,
		// is published on a (file) module proxy and fetched by configstore.Download
		out.Note("via-upload.Run-mode-on-with-proxy")
		env := publishConfig(&telemetry.UploadConfig{SampleRate: rate})
		observeRun(s.dir, start, xkey, ratekey, status, "Run", func() {
			if err := upload.Run(upload.RunConfig{TelemetryDir: s.dir, UploadURL: srv.srv.URL, StartTime: start, Env: env}); err != nil {
				panic(fmt.Sprintf("upload.Run: %v", err))
			}
		})
		return
	}
	out.Note("via-uploader")
	cfg := &telemetry.UploadConfig{SampleRate: rate}
	observeRun(s.dir, start, xkey, ratekey, status, "uploader", func() {
		upload.VerifNewUploader(s.dir, srv.srv.URL, start, cfg, "v0.0.0-0", nil).Run()
	})
}

// the zero-time sentinel: year 1, recorded date 0001-01-01 / a count file
// beginning at the zero time
func caseSentinel(which int) {
	s := newScen()
	defer os.RemoveAll(s.dir)
	s.wd = 0 // Sunday; 0001-01-01 is a Monday, the week ends 0001-01-07
	y1 := func(d int) time.Time { return time.Date(1, 1, d, 0, 0, 0, 0, time.UTC) }
	switch which {
	case 0:
		// recorded opt-in date 0001-01-01, data collected from 0001-01-01T00:00
		s.countFile(y1(1).Add(10*time.Hour), 1, "vh")
		s.writeMode([]byte("on 0001-01-01"))
		out.Note("sentinel-asof-zero")
	case 1:
		// opt-in 0001-01-03; files begin 0001-01-01 (the zero time) and 0001-01-05
		s.countFile(y1(1).Add(10*time.Hour), 1, "vh")
		s.countFile(y1(5).Add(10*time.Hour), 1, "vh")
		s.writeMode([]byte("on 0001-01-03"))
		out.Note("sentinel-begin-zero")
	default:
		// left-over report dated 0001-01-01 with opt-in 0001-01-02
		s.ensureLocal()
		os.WriteFile(filepath.Join(s.dir, "local", "0001-01-01.json"), []byte("{}"), 0666)
		s.writeMode([]byte("on 0001-01-02"))
		out.Note("sentinel-report-date-zero")
	}
	x := setX(0.75)
	cfg := &telemetry.UploadConfig{}
	start := y1(9)
	observeRun(s.dir, start, fkey(x), 0, 200, "uploader", func() {
		upload.VerifNewUploader(s.dir, srv.srv.URL, start, cfg, "v0.0.0-0", nil).Run()
	})
}

// ---------------------------------------------------------------- counter API in a child process

func childMain() {
	telemetry.Default = telemetry.NewDir(os.Getenv("VH_DIR"))
	pcounter.Inc("vh/early") // before Open: kept in memory
	pcounter.Open()
	pcounter.Inc("vh/a")
	pcounter.New("vh/b").Add(2)
	pcounter.NewStack("vh/s", 3).Inc()
	pcounter.Inc("vh/a")
	pcounter.Open()
}

func caseChild() {
	s := newScen()
	defer os.RemoveAll(s.dir)
	if rnd.Bool() {
		s.countFile(genBaseTime(), 1, "vh") // an older file of another week
	}
	if rnd.Bool() {
		s.ensureLocal()
		os.WriteFile(filepath.Join(s.dir, "local", "2020-01-05.json"), []byte("{}"), 0666)
	}
	switch rnd.Intn(8) {
	case 0:
		s.writeMode([]byte("local 2020-01-01"))
	case 1:
		s.writeMode([]byte("on 2020-01-01"))
	case 2:
		s.writeMode([]byte("OFF"))
	case 3:
		s.writeMode([]byte("off\n"))
	case 4:
		s.writeMode([]byte(" off 2020-01-01"))
	case 5:
		s.writeMode([]byte("off"))
	case 6:
		s.writeMode([]byte("off  x"))
	default:
		s.writeMode([]byte("off 2020-01-01"))
	}
	mtag, mbytes := modeState(s.dir)
	before := snapshot(s.dir)
	exe, err := os.Executable()
	if err != nil {
		panic(err)
	}
	cmd := exec.Command(exe)
	cmd.Env = append(os.Environ(), "VH_CHILD=1", "VH_DIR="+s.dir)
	if outb, err := cmd.CombinedOutput(); err != nil {
		panic(fmt.Sprintf("child failed: %v\n%s", err, outb))
	}
	after := snapshot(s.dir)
	preUnchanged := true
	for k, v := range before {
		if w, ok := after[k]; !ok || w != v {
			preUnchanged = false
		}
	}
	newCount, newOther := 0, 0
	for k, v := range after {
		if _, ok := before[k]; ok {
			continue
		}
		switch {
		case strings.HasSuffix(k, ".v1.count"):
			newCount++
		case v.dir && (k == "local"):
		case k == filepath.Join("local", "weekends"):
		default:
			newOther++
		}
	}
	out.Note("child-process")
	out.Case(true, "cproc", mtag, H(mbytes), B(preUnchanged), I(int64(newCount)), I(int64(newOther)), B(len(after) == len(before)))
}

// ---------------------------------------------------------------- rotation under a changed mode

// countSnap: the *.v1.count files under dir with their hashes
func countSnap(dir string) map[string][32]byte {
	res := map[string][32]byte{}
	for k, v := range snapshot(dir) {
		if strings.HasSuffix(k, ".v1.count") {
			res[k] = v.sum
		}
	}
	return res
}

// snapDiff: was an existing count file changed or removed, how many were created
func snapDiff(a, b map[string][32]byte) (changed bool, created int) {
	for k, v := range a {
		if w, ok := b[k]; !ok || w != v {
			changed = true
		}
	}
	for k := range b {
		if _, ok := a[k]; !ok {
			created++
		}
	}
	return
}

func genModeBytes(asof time.Time) []byte {
	word := Pick(rnd, []string{"off", "off", "off", "local", "on", "on", "OFF", "of"})
	switch rnd.Intn(8) {
	case 0:
		return []byte(word)
	case 1:
		return append([]byte(word), Pick(rnd, wsSeparators)...) // trailing white space only
	case 2:
		return append(append([]byte(word), Pick(rnd, wsSeparators)...), dateStr(asof)...) // not the bare word
	case 3:
		return []byte(" " + word + " " + dateStr(asof) + "\n")
	default:
		return []byte(word + " " + dateStr(asof))
	}
}

// caseRotate: one long-running process (one file object of the real library):
// rotate1 (the file is opened), increments, the mode file is rewritten, maybe
// more increments, rotate1 again (the weekly timer) with the clock before or
// past the file's end, increments.  Observed after each stage: count files
// created / changed.
func caseRotate() {
	s := newScen()
	defer func() { os.RemoveAll(s.dir) }()
	s.ensureLocal()
	now := genBaseTime()
	var m1 []byte
	switch rnd.Intn(10) {
	case 0:
		m1 = nil // no mode file: local
	case 1:
		m1 = genModeBytes(now) // any, incl. off from the start
	case 2, 3:
		m1 = []byte("local " + dateStr(now.AddDate(0, 0, -3)))
	default:
		m1 = []byte("on " + dateStr(now.AddDate(0, 0, -3)))
	}
	if m1 != nil {
		s.writeMode(m1)
	}
	m1tag, m1bytes := modeState(s.dir)
	telemetry.Default = telemetry.NewDir(s.dir)
	cur := now
	counter.CounterTime = func() time.Time { return cur }
	f := counter.VerifNewFile()
	f.SetBuildInfo(&debug.BuildInfo{GoVersion: "go1.23.5", Path: "example.com/cmd/daemon",
		Main: debug.Module{Path: "example.com/cmd", Version: "v1.2.3"}})
	s0 := countSnap(s.dir)
	f.Rotate1()
	c := f.NewCounter("vh/rot")
	c.Add(int64(1 + rnd.Intn(3)))
	s1 := countSnap(s.dir)
	ch1, cr1 := snapDiff(s0, s1)
	_, end := f.Span()

	// the mode changes while the process lives
	var m2 []byte
	if rnd.Intn(4) == 0 {
		word := Pick(rnd, []string{"off", "off", "local", "on"})
		if err := telemetry.NewDir(s.dir).SetModeAsOf(word, now.Add(time.Hour)); err != nil {
			panic(err)
		}
		out.Note("rot-mode-by-SetModeAsOf")
	} else {
		m2 = genModeBytes(now)
		s.writeMode(m2)
	}
	m2tag, m2bytes := modeState(s.dir)
	if m, _ := telemetry.NewDir(s.dir).Mode(); m == "off" {
		out.Note("rot-mode-becomes-off")
	} else {
		out.Note("rot-mode-becomes-other")
	}

	preAdd := rnd.Intn(3) == 0
	if preAdd {
		c.Add(int64(1 + rnd.Intn(3)))
		out.Note("rot-increment-between-off-and-rotation")
	}
	s2 := countSnap(s.dir)
	ch2, cr2 := snapDiff(s1, s2)

	expired := true
	if end.IsZero() { // the first rotate1 failed (mode off from the start): no span
		end = now.Add(3 * 24 * time.Hour)
	}
	switch rnd.Intn(6) {
	case 0:
		cur = end
		out.Note("rot-clock-eq-end")
	case 1:
		cur = end.Add(time.Second)
	case 2:
		cur = end.Add(time.Duration(rnd.Int63n(int64(30 * 24 * time.Hour))))
	case 3:
		cur = end.Add(-time.Second)
		expired = cur.UTC().Truncate(24*time.Hour) != now.UTC().Truncate(24*time.Hour)
		out.Note("rot-clock-before-end")
	case 4:
		cur = now.Add(time.Minute)
		expired = cur.UTC().Truncate(24*time.Hour) != now.UTC().Truncate(24*time.Hour)
		out.Note("rot-clock-same-day")
	default:
		cur = end.Add(time.Duration(rnd.Intn(48)) * time.Hour)
	}
	f.Rotate1()
	s3 := countSnap(s.dir)
	ch3, cr3 := snapDiff(s2, s3)
	c.Add(int64(1 + rnd.Intn(3)))
	f.NewCounter("vh/after").Add(2)
	s4 := countSnap(s.dir)
	ch4, cr4 := snapDiff(s3, s4)
	f.Close()
	out.Note("rotation-case")
	out.Case(true, "rot", m1tag, H(m1bytes), m2tag, H(m2bytes), B(preAdd), B(expired),
		B(ch1), I(int64(cr1)), B(ch2), I(int64(cr2)), B(ch3), I(int64(cr3)), B(ch4), I(int64(cr4)))
}

// guard runs one case with a watchdog: if the real code does not come back the
// case is written as "hang" (a PROP for the runner) and the harness ends cleanly.
func guard(what string, i int, fn func()) {
	done := make(chan struct{})
	go func() {
		defer close(done)
		fn()
	}()
	select {
	case <-done:
	case <-time.After(60 * time.Second):
		out.Note("hang")
		out.Case(true, "hang", HS(what), I(int64(i)))
		out.Close()
		cleanProxy()
		os.Exit(0)
	}
}

func main() {
	if os.Getenv("VH_CHILD") != "" {
		childMain()
		return
	}
	outPath := os.Args[1]
	n, _ := strconv.Atoi(os.Args[2])
	rnd = NewRand(Seed())
	out = NewOut(outPath)
	var err error
	root, err = os.MkdirTemp("", "vhgating")
	if err != nil {
		panic(err)
	}
	defer os.RemoveAll(root)
	srv = newServer()
	defer srv.srv.Close()
	defer cleanProxy()
	for i := 0; i < n; i++ {
		i := i
		switch {
		case i < 3:
			guard("sentinel", i, func() { caseSentinel(i) })
		case i%40 == 7:
			guard("child", i, caseChild)
		case i%8 == 3:
			guard("rotate", i, caseRotate)
		default:
			guard("scenario", i, caseScenario)
		}
	}
	out.Close()
}
