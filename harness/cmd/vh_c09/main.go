// vh_c09: correspondence harness for C09 (week spans).  Runs the real
// counterSpan / rotate1 / uploader on generated times and week-end settings
// and writes the observations for the model runner.
package main

import (
	"encoding/json"
	"fmt"
	"os"
	"path/filepath"
	"sort"
	"strconv"
	"strings"
	"time"

	"golang.org/x/telemetry/internal/counter"
	"golang.org/x/telemetry/internal/telemetry"
	"golang.org/x/telemetry/internal/upload"
	"golang.org/x/telemetry/internal/verifh/shim/vtime"
	. "golang.org/x/telemetry/internal/verifh/vhlib"
)

var rnd *Rand
var out *Out
var root string
var defaultClock = counter.CounterTime

func genNow() time.Time {
	switch rnd.Intn(6) {
	case 0: // month ends / leap days over 1970..2399
		y := 1970 + rnd.Intn(430)
		m := Pick(rnd, []int{1, 2, 2, 2, 3, 12, 12, 4, 6, 9, 11})
		d := Pick(rnd, []int{27, 28, 29, 30, 31, 1})
		return time.Date(y, time.Month(m), d, rnd.Intn(24), rnd.Intn(60), rnd.Intn(60), rnd.Intn(1e9), time.UTC)
	case 1: // exact midnight and one second either side
		y := 1970 + rnd.Intn(430)
		t := time.Date(y, time.Month(1+rnd.Intn(12)), 1+rnd.Intn(31), 0, 0, 0, 0, time.UTC)
		return t.Add(time.Duration(rnd.Intn(3)-1) * time.Second)
	case 2: // far range: years 1..9998
		y := 1 + rnd.Intn(9998)
		return time.Date(y, time.Month(1+rnd.Intn(12)), 1+rnd.Intn(31), rnd.Intn(24), rnd.Intn(60), rnd.Intn(60), 0, time.UTC)
	default:
		return time.Unix(rnd.Int63n(13569465600), int64(rnd.Intn(1e9))).UTC() // 1970..2399
	}
}

// tickingClock installs a CounterTime whose k-th reading is now + k*tick: a
// span must be computed from ONE reading (the model is given the first); code
// that reads the clock twice gets two different instants, in a share of the
// cases on both sides of 00:00 UTC.
func tickingClock(now time.Time) time.Time {
	tick := Pick(rnd, []time.Duration{0, time.Nanosecond, time.Second, 2 * time.Second, time.Hour, 24 * time.Hour})
	if rnd.Intn(3) == 0 {
		// first reading just before midnight: the next one is on the following day
		if tick == 0 {
			tick = time.Second
		}
		y, m, d := now.Date()
		now = time.Date(y, m, d+1, 0, 0, 0, 0, time.UTC).Add(-Pick(rnd, []time.Duration{time.Nanosecond, tick}))
		out.Note("clock-ticks-over-midnight")
	}
	k := 0
	counter.CounterTime = func() time.Time {
		t := now.Add(time.Duration(k) * tick)
		k++
		return t
	}
	return now
}

func genWeekends() (content []byte, missing bool) {
	switch rnd.Intn(10) {
	case 0:
		return nil, true
	case 1:
		return Pick(rnd, [][]byte{{}, []byte("\n"), []byte("  \t\n"), []byte("  ")}), false
	case 2:
		return Pick(rnd, [][]byte{[]byte("9"), []byte("x\n"), []byte("\n3"), []byte(" 5 "), []byte("/"), {0xff}, {0x80, '1'}, []byte("-1"), []byte("10")}), false
	case 3:
		return rnd.Bytes(1 + rnd.Intn(4)), false
	case 4:
		// digits outside 0..6: the weekday is the digit modulo 7
		return Pick(rnd, [][]byte{[]byte("7"), []byte("8"), []byte("9"), []byte("7\n"), []byte("8\n"), []byte("9\n"), []byte(" 9"), []byte("8 ")}), false
	default:
		return []byte(fmt.Sprintf("%d\n", rnd.Intn(7))), false
	}
}

func setupDir(weekends []byte, missing bool) string {
	dir, err := os.MkdirTemp(root, "t")
	if err != nil {
		panic(err)
	}
	telemetry.Default = telemetry.NewDir(dir)
	os.MkdirAll(telemetry.Default.LocalDir(), 0777)
	if !missing {
		os.WriteFile(filepath.Join(telemetry.Default.LocalDir(), "weekends"), weekends, 0666)
	}
	return dir
}

func readWeekends() []byte {
	b, _ := os.ReadFile(filepath.Join(telemetry.Default.LocalDir(), "weekends"))
	return b
}

// span: counterSpan() at a generated time with a generated weekends file.
func caseSpan() {
	now := genNow()
	wk, missing := genWeekends()
	dir := setupDir(wk, missing)
	defer os.RemoveAll(dir)
	now = tickingClock(now)
	b, e, err := counter.VerifCounterSpan()
	after := readWeekends()
	if missing {
		out.Note("weekends-missing")
	}
	errs := "ok"
	if err != nil {
		errs = "err"
		out.Note("span-error")
	}
	out.Case(true, "span", I(now.Unix()), H(after), errs, I(b.Unix()), I(e.Unix()))
}

// file: a fresh file object's rotate1 at a generated time: metadata and name.
func caseFile() {
	now := genNow()
	wd := rnd.Intn(7)
	dir := setupDir([]byte(fmt.Sprintf("%d\n", wd)), false)
	defer os.RemoveAll(dir)
	now = tickingClock(now)
	f := counter.VerifNewFile()
	f.Rotate1()
	name := f.CurrentName()
	f.Close()
	if name == "" {
		out.Case(false, "file-fail", I(now.Unix()), I(int64(wd)))
		return
	}
	data, err := os.ReadFile(name)
	if err != nil {
		panic(err)
	}
	pf, err := counter.Parse(name, data)
	if err != nil {
		panic(err)
	}
	out.Case(true, "file", I(now.Unix()), I(int64(wd)), HS(pf.Meta["TimeBegin"]), HS(pf.Meta["TimeEnd"]), HS(filepath.Base(name)))
}

func counts(dir string) map[string]uint64 {
	res := map[string]uint64{}
	ents, _ := os.ReadDir(dir)
	for _, e := range ents {
		if !strings.HasSuffix(e.Name(), ".v1.count") {
			continue
		}
		data, err := os.ReadFile(filepath.Join(dir, e.Name()))
		if err != nil {
			continue
		}
		pf, err := counter.Parse(e.Name(), data)
		if err != nil {
			continue
		}
		res[pf.Meta["TimeBegin"]+"|"+pf.Meta["TimeEnd"]] = pf.Count["c"]
	}
	return res
}

// rotate: increments before and after a second rotate1 at a later time.
func caseRotate() {
	now0 := genNow()
	wd := rnd.Intn(7)
	dir := setupDir([]byte(fmt.Sprintf("%d\n", wd)), false)
	defer os.RemoveAll(dir)
	now := now0
	counter.CounterTime = func() time.Time { return now }
	f := counter.VerifNewFile()
	f.Rotate1()
	b0, e0 := f.Span()
	c := f.NewCounter("c")
	n1 := 1 + rnd.Intn(5)
	c.Add(int64(n1))
	var delta time.Duration
	switch rnd.Intn(5) {
	case 0:
		delta = e0.Sub(now0) // exactly the end
	case 1:
		delta = e0.Sub(now0) - time.Second
	case 2:
		delta = time.Duration(rnd.Int63n(int64(26 * time.Hour)))
	case 3:
		delta = e0.Sub(now0) + time.Duration(rnd.Int63n(int64(30*24*time.Hour)))
	default:
		delta = time.Duration(rnd.Int63n(int64(9 * 24 * time.Hour)))
	}
	now = now0.Add(delta)
	// the setting may change (or disappear) while the process is alive: the
	// next file is opened with the setting found THEN
	switch rnd.Intn(4) {
	case 0:
		os.WriteFile(filepath.Join(telemetry.Default.LocalDir(), "weekends"), []byte(fmt.Sprintf("%d\n", rnd.Intn(7))), 0666)
		out.Note("rotate-setting-changed")
	case 1:
		os.Remove(filepath.Join(telemetry.Default.LocalDir(), "weekends"))
		out.Note("rotate-setting-removed")
	case 2:
		// a blank setting: the span cannot be computed, the process stops counting
		os.WriteFile(filepath.Join(telemetry.Default.LocalDir(), "weekends"), Pick(rnd, [][]byte{{}, []byte("\n"), []byte("  \t\n")}), 0666)
		out.Note("rotate-setting-blank")
	}
	f.Rotate1()
	after1 := readWeekends()
	b1, e1 := f.Span()
	failed := f.Err() != nil
	n2 := 1 + rnd.Intn(5)
	c.Add(int64(n2))
	f.Close()
	got := counts(telemetry.Default.LocalDir())
	keys := make([]string, 0, len(got))
	for k := range got {
		keys = append(keys, k)
	}
	sort.Strings(keys)
	fields := []string{"rotate", I(now0.Unix()), I(now.Unix()), I(int64(wd)), H(after1), B(failed), I(int64(n1)), I(int64(n2)),
		I(b0.Unix()), I(e0.Unix()), I(b1.Unix()), I(e1.Unix()), I(int64(len(keys)))}
	for _, k := range keys {
		p := strings.SplitN(k, "|", 2)
		fields = append(fields, HS(p[0]), HS(p[1]), U(got[k]))
	}
	if now.Unix() >= e0.Unix() {
		out.Note("rotate-at-or-after-end")
	} else if b1.Equal(b0) {
		out.Note("rotate-same-day")
	} else {
		out.Note("rotate-midweek")
	}
	out.Case(true, fields...)
}

// share: a second process of the same program (a second file object) starts
// after the first one created its file, with a possibly different week-end
// setting and clock: does it count into the first one's file, and if so what
// span does that file record against the span the process keeps in memory
// (which schedules its rotation)?
func caseShare() {
	now0 := genNow()
	wd0 := rnd.Intn(7)
	dir := setupDir([]byte(fmt.Sprintf("%d\n", wd0)), false)
	defer os.RemoveAll(dir)
	now := now0
	counter.CounterTime = func() time.Time { return now }
	f1 := counter.VerifNewFile()
	f1.Rotate1()
	name1 := f1.CurrentName()
	c1 := f1.NewCounter("c")
	c1.Add(1)
	wd1 := wd0
	if rnd.Intn(4) != 0 {
		wd1 = rnd.Intn(7)
	}
	os.WriteFile(filepath.Join(telemetry.Default.LocalDir(), "weekends"), []byte(fmt.Sprintf("%d\n", wd1)), 0666)
	switch rnd.Intn(4) {
	case 0: // later the same day
		y, m, d := now0.Date()
		end := time.Date(y, m, d+1, 0, 0, 0, 0, time.UTC)
		now = now0.Add(time.Duration(rnd.Int63n(int64(end.Sub(now0)))))
	case 1:
		now = now0
	case 2:
		now = now0.Add(time.Duration(rnd.Int63n(int64(3 * 24 * time.Hour))))
	default:
		y, m, d := now0.Date()
		now = time.Date(y, m, d, rnd.Intn(24), rnd.Intn(60), rnd.Intn(60), 0, time.UTC)
	}
	f2 := counter.VerifNewFile()
	f2.Rotate1()
	name2 := f2.CurrentName()
	b2, e2 := f2.Span()
	opened := name2 != ""
	var tb, te string
	if opened {
		c2 := f2.NewCounter("d")
		c2.Add(1)
		f2.Close()
		data, err := os.ReadFile(name2)
		if err != nil {
			panic(err)
		}
		pf, err := counter.Parse(name2, data)
		if err != nil {
			panic(err)
		}
		tb, te = pf.Meta["TimeBegin"], pf.Meta["TimeEnd"]
		if pf.Count["d"] != 1 {
			tb = "LOST:" + tb
		}
	} else {
		f2.Close()
	}
	f1.Close()
	switch {
	case !opened:
		out.Note("share-refused")
	case name1 == name2:
		out.Note("share-same-file")
	default:
		out.Note("share-own-file")
	}
	out.Case(true, "share", I(now0.Unix()), I(int64(wd0)), I(now.Unix()), I(int64(wd1)), B(opened), B(name1 == name2),
		I(b2.Unix()), I(e2.Unix()), HS(tb), HS(te))
}

// realclock: the package's own clock (not replaced), in a process whose local
// zone is far from UTC: the span is computed on the UTC calendar.
func caseRealClock() {
	wk := []byte(fmt.Sprintf("%d\n", rnd.Intn(7)))
	dir := setupDir(wk, false)
	defer os.RemoveAll(dir)
	saved := time.Local
	defer func() { time.Local = saved }()
	off := Pick(rnd, []int{14 * 3600, -12 * 3600, 13*3600 + 2700, -11 * 3600})
	time.Local = time.FixedZone("far", off)
	counter.CounterTime = defaultClock
	t0 := time.Now()
	b, e, err := counter.VerifCounterSpan()
	t1 := time.Now()
	errs := "ok"
	if err != nil {
		errs = "err"
	}
	out.Note("real-clock-in-far-zone")
	out.Case(true, "realclock", I(t0.Unix()), I(t1.Unix()), H(wk), errs, I(b.Unix()), I(e.Unix()), I(int64(off)))
}

// timer: the rotation chain of a long-lived process.  rotate() opens the file
// and arms a timer for the recorded end; the harness (which records the timers,
// shim vtime) moves the clock to the end and fires the timer, several weeks in
// a row, incrementing in between.
func caseTimer() {
	now0 := genNow()
	if now0.Year() > 9000 {
		now0 = now0.AddDate(-100, 0, 0)
	}
	wd := rnd.Intn(7)
	if rnd.Intn(4) == 0 {
		// opened within the last minute before the recorded end: the timer's
		// delay is the one-minute minimum, it fires up to a minute late
		y, m, d := now0.Date()
		now0 = time.Date(y, m, d, 23, 59, rnd.Intn(60), rnd.Intn(1e9), time.UTC)
		wd = (int(now0.Weekday()) + 1) % 7
		out.Note("timer-minimum-delay")
	}
	dir := setupDir([]byte(fmt.Sprintf("%d\n", wd)), false)
	defer os.RemoveAll(dir)
	now := now0
	counter.CounterTime = func() time.Time { return now }
	vtime.ResetAll()
	// the wall clock rotate() reads for the timer's delay is the counter clock
	vtime.Clock = func() time.Time { return now }
	defer func() { vtime.Clock = nil }()
	f := counter.VerifNewFile()
	f.Rotate()
	c := f.NewCounter("c")
	stages := 2 + rnd.Intn(3)
	fields := []string{"timer", I(now0.Unix()), I(int64(now0.Nanosecond())), I(int64(wd)), I(int64(stages))}
	delayOf := func(pend []*vtime.Timer) int64 {
		if len(pend) == 0 {
			return -1
		}
		return int64(pend[0].D)
	}
	for k := 0; k < stages; k++ {
		b, e := f.Span()
		n := 1 + rnd.Intn(5)
		c.Add(int64(n))
		pend := vtime.Pending()
		// the runtime fires the timer when it is due, or a little later
		fire := e
		if len(pend) > 0 {
			fire = now.Add(pend[0].D)
		}
		// ... or much later (the timer runs on the monotonic clock, which stops
		// while the machine is suspended): days, weeks, a year
		fire = fire.Add(Pick(rnd, []time.Duration{0, 0, time.Nanosecond, time.Second, time.Hour, 30 * time.Hour,
			7 * 24 * time.Hour, 7*24*time.Hour - time.Second, 223 * time.Hour, 396 * time.Hour, 372 * 24 * time.Hour}))
		fields = append(fields, I(int64(len(pend))), I(delayOf(pend)), I(b.Unix()), I(e.Unix()), I(int64(n)), I(fire.Unix()), I(int64(fire.Nanosecond())))
		now = fire
		for _, t := range pend {
			vtime.Fire(t)
		}
	}
	b, e := f.Span()
	n := 1 + rnd.Intn(5)
	c.Add(int64(n))
	pend := vtime.Pending()
	fields = append(fields, I(int64(len(pend))), I(delayOf(pend)), I(b.Unix()), I(e.Unix()), I(int64(n)))
	f.Close()
	vtime.ResetAll()
	got := counts(telemetry.Default.LocalDir())
	keys := make([]string, 0, len(got))
	for k := range got {
		keys = append(keys, k)
	}
	sort.Strings(keys)
	fields = append(fields, I(int64(len(keys))))
	for _, k := range keys {
		p := strings.SplitN(k, "|", 2)
		fields = append(fields, HS(p[0]), HS(p[1]), U(got[k]))
	}
	out.Note("rotation-chain")
	out.Case(true, fields...)
}

// runUploader: the uploader through its real entry point (mode local: no
// configuration is fetched), so that whatever newUploader does to the start
// time is part of what is observed.
func runUploader(dir string, start time.Time) {
	upload.Run(upload.RunConfig{TelemetryDir: dir, UploadURL: "http://127.0.0.1:1/", StartTime: start})
}

// rotfail: the rotation at a week boundary FAILS once (the next file's name is
// occupied by a directory), the obstacle goes away, the process goes on
// incrementing and rotating (what its timer does) through the following weeks.
// Whatever the process does with the increments it cannot persist, none of them
// may be counted in a file of another span than the one it was made in.
func caseRotateFail() {
	now0 := genNow()
	if now0.Year() > 9000 {
		now0 = now0.AddDate(-100, 0, 0)
	}
	wd := rnd.Intn(7)
	dir := setupDir([]byte(fmt.Sprintf("%d\n", wd)), false)
	defer os.RemoveAll(dir)
	now := now0
	counter.CounterTime = func() time.Time { return now }
	f := counter.VerifNewFile()
	f.Rotate1()
	_, e0 := f.Span()
	c := f.NewCounter("c")
	type inc struct {
		t time.Time
		n int
	}
	var incs []inc
	add := func() {
		n := 1 + rnd.Intn(5)
		c.Add(int64(n))
		incs = append(incs, inc{now, n})
	}
	add()
	name0 := f.CurrentName()
	d0 := now0.UTC().Format("2006-01-02")
	if !strings.Contains(name0, d0) {
		return
	}
	// the recorded end is reached; the next file cannot be created
	now = e0.Add(time.Duration(rnd.Intn(3600)) * time.Second)
	obstacle := strings.Replace(name0, d0, now.UTC().Format("2006-01-02"), 1)
	os.MkdirAll(filepath.Join(obstacle, "x"), 0777)
	f.Rotate1()
	os.RemoveAll(obstacle)
	add()
	// retries during that week, as the rotation timer would make them
	for k := 0; k < 1+rnd.Intn(3); k++ {
		now = now.Add(time.Duration(1+rnd.Intn(40)) * time.Hour)
		f.Rotate1()
		add()
	}
	// the following week boundary, and one more
	for k := 0; k < 2; k++ {
		_, e := f.Span()
		if !e.After(now) {
			e = now.Add(7 * 24 * time.Hour)
		}
		now = e.Add(time.Duration(rnd.Intn(3600)) * time.Second)
		f.Rotate1()
		add()
	}
	f.Close()
	got := counts(telemetry.Default.LocalDir())
	keys := make([]string, 0, len(got))
	for k := range got {
		keys = append(keys, k)
	}
	sort.Strings(keys)
	fields := []string{"rotfail", I(int64(wd)), I(int64(len(incs)))}
	for _, i := range incs {
		fields = append(fields, I(i.t.Unix()), I(int64(i.n)))
	}
	fields = append(fields, I(int64(len(keys))))
	for _, k := range keys {
		p := strings.SplitN(k, "|", 2)
		fields = append(fields, HS(p[0]), HS(p[1]), U(got[k]))
	}
	out.Note("rotation-fails-once")
	out.Case(true, fields...)
}

// upload: a real counter file, then the real uploader (mode local) with a
// start time relative to the end instant.
func caseUpload() {
	now := genNow()
	if now.Year() < 1971 {
		now = now.AddDate(2, 0, 0)
	}
	wd := rnd.Intn(7)
	dir := setupDir([]byte(fmt.Sprintf("%d\n", wd)), false)
	defer os.RemoveAll(dir)
	telemetry.Default.SetModeAsOf("local", now.Add(-400*24*time.Hour))
	counter.CounterTime = func() time.Time { return now }
	if rnd.Intn(2) == 0 {
		// an earlier life of the same file name in the same process: created under
		// another week-end setting, looked at by an upload run that leaves it (its
		// end is ahead), then the data is reset.  The file made below has the same
		// name and another recorded end; the run below must judge it by that end.
		wd0 := (wd + 1 + rnd.Intn(6)) % 7
		os.WriteFile(filepath.Join(telemetry.Default.LocalDir(), "weekends"), []byte(fmt.Sprintf("%d\n", wd0)), 0666)
		f0 := counter.VerifNewFile()
		f0.Rotate1()
		_, e0 := f0.Span()
		f0.NewCounter("c").Add(1)
		name0 := f0.CurrentName()
		f0.Close()
		runUploader(dir, now)
		_, statErr := os.Stat(name0)
		out.Note("upload-earlier-life-of-the-name")
		out.Case(true, "upload", I(now.Unix()), I(int64(wd0)), I(e0.Unix()), I(now.Unix()), I(int64(now.Nanosecond())),
			B(statErr != nil), I(0), HS(""))
		os.Remove(name0)
		os.WriteFile(filepath.Join(telemetry.Default.LocalDir(), "weekends"), []byte(fmt.Sprintf("%d\n", wd)), 0666)
	}
	f := counter.VerifNewFile()
	f.Rotate1()
	_, e := f.Span()
	c := f.NewCounter("c")
	c.Add(3)
	name := f.CurrentName()
	f.Close()
	var start time.Time
	switch rnd.Intn(6) {
	case 0:
		start = e
	case 1:
		start = e.Add(time.Nanosecond)
	case 2:
		start = e.Add(-time.Nanosecond)
	case 3:
		start = e.Add(time.Second)
	case 4:
		start = e.Add(-time.Second)
	default:
		start = e.Add(time.Duration(rnd.Int63n(int64(20*24*time.Hour))) - 10*24*time.Hour)
	}
	// the same instant on another calendar: the week is named by the UTC date of the recorded end
	if off := Pick(rnd, []int{0, 0, -3, -8, -12, 9, 14, 5}); off != 0 {
		start = start.In(time.FixedZone("z", off*3600+Pick(rnd, []int{0, 1800})))
		out.Note("upload-start-in-other-zone")
	}
	runUploader(dir, start)
	_, statErr := os.Stat(name)
	consumed := statErr != nil
	week := ""
	ents, _ := os.ReadDir(telemetry.Default.LocalDir())
	nrep := 0
	for _, en := range ents {
		if strings.HasPrefix(en.Name(), "local.") && strings.HasSuffix(en.Name(), ".json") {
			nrep++
			var rep telemetry.Report
			data, _ := os.ReadFile(filepath.Join(telemetry.Default.LocalDir(), en.Name()))
			json.Unmarshal(data, &rep)
			week = rep.Week
			if en.Name() != "local."+rep.Week+".json" {
				week = "MISMATCH:" + en.Name() + ":" + rep.Week
			}
		}
	}
	if consumed {
		out.Note("upload-consumed")
	} else {
		out.Note("upload-left")
	}
	out.Case(true, "upload", I(now.Unix()), I(int64(wd)), I(e.Unix()), I(start.Unix()), I(int64(start.Nanosecond())),
		B(consumed), I(int64(nrep)), HS(week))
}

// uploadmulti: several programs, several consecutive weeks, ONE upload run:
// every finished file is reported under the week named by ITS recorded end.
func caseUploadMulti() {
	now0 := genNow()
	if now0.Year() < 1971 {
		now0 = now0.AddDate(2, 0, 0)
	}
	if now0.Year() > 9900 {
		now0 = now0.AddDate(-100, 0, 0)
	}
	wd := rnd.Intn(7)
	dir := setupDir([]byte(fmt.Sprintf("%d\n", wd)), false)
	defer os.RemoveAll(dir)
	telemetry.Default.SetModeAsOf("local", now0.Add(-400*24*time.Hour))
	progs := [][3]string{{"example.com/tools/alpha", "v1.0.0", "go1.22.1"}, {"example.com/tools/beta", "v0.3.1", "go1.23.5"},
		{"example.com/x/gamma", "v2.0.0", "go1.21.0"}}
	np := 2 + rnd.Intn(2)
	nw := 2 + rnd.Intn(2)
	type cf struct {
		p    int
		e    time.Time
		n    int
		name string
	}
	var files []cf
	var lastEnd time.Time
	for w := 0; w < nw; w++ {
		now := now0.Add(time.Duration(w) * 7 * 24 * time.Hour)
		counter.CounterTime = func() time.Time { return now }
		for p := 0; p < np; p++ {
			if rnd.Intn(5) == 0 {
				continue // this program did not run that week
			}
			f := counter.VerifNewFileProg(progs[p][0], progs[p][1], progs[p][2])
			f.Rotate1()
			_, e := f.Span()
			n := 1 + rnd.Intn(9)
			f.NewCounter("c").Add(int64(n))
			files = append(files, cf{p, e, n, f.CurrentName()})
			f.Close()
			lastEnd = e
		}
	}
	if len(files) == 0 {
		return
	}
	start := lastEnd.Add(Pick(rnd, []time.Duration{time.Nanosecond, time.Second, time.Hour, 40 * time.Hour, 0, -time.Second, -8 * 24 * time.Hour}))
	runUploader(dir, start)
	fields := []string{"uploadmulti", I(start.Unix()), I(int64(start.Nanosecond())), I(int64(len(files)))}
	for _, c := range files {
		_, statErr := os.Stat(c.name)
		fields = append(fields, I(int64(c.p)), I(c.e.Unix()), I(int64(c.n)), B(statErr != nil))
	}
	// the reports: (week, program index, value of c)
	type rv struct {
		week string
		p    int
		v    int64
	}
	var rvs []rv
	ents, _ := os.ReadDir(telemetry.Default.LocalDir())
	for _, en := range ents {
		if strings.HasPrefix(en.Name(), "local.") && strings.HasSuffix(en.Name(), ".json") {
			var rep telemetry.Report
			data, _ := os.ReadFile(filepath.Join(telemetry.Default.LocalDir(), en.Name()))
			json.Unmarshal(data, &rep)
			week := rep.Week
			if en.Name() != "local."+rep.Week+".json" {
				week = "MISMATCH:" + en.Name() + ":" + rep.Week
			}
			for _, pr := range rep.Programs {
				pi := -1
				for i := range progs {
					if progs[i][0] == pr.Program {
						pi = i
					}
				}
				rvs = append(rvs, rv{week, pi, pr.Counters["c"]})
			}
		}
	}
	fields = append(fields, I(int64(len(rvs))))
	for _, r := range rvs {
		fields = append(fields, HS(r.week), I(int64(r.p)), I(r.v))
	}
	out.Note("upload-several-programs-and-weeks")
	out.Case(true, fields...)
}

func main() {
	outPath := os.Args[1]
	n, _ := strconv.Atoi(os.Args[2])
	rnd = NewRand(Seed())
	out = NewOut(outPath)
	var err error
	root, err = os.MkdirTemp("", "vh_c09")
	if err != nil {
		panic(err)
	}
	defer os.RemoveAll(root)
	for i := 0; i < n; i++ {
		switch {
		case i%50 == 49:
			caseRealClock()
		case i%25 == 24:
			caseTimer()
		case i%25 == 12:
			caseUploadMulti()
		case i%25 == 6:
			caseRotateFail()
		case i%10 < 4:
			caseSpan()
		case i%10 < 5:
			caseShare()
		case i%10 < 7:
			caseFile()
		case i%10 < 9:
			caseRotate()
		default:
			caseUpload()
		}
	}
	out.Close()
}
