// vh_report: correspondence harness for C01.  Runs the real config.Expand,
// config.NewConfig lookups and the real uploader (findWork + reports =
// createReport, and for a share of the cases the HTTP phase against a local
// server) on generated configurations, counter files and X, and writes the
// observations for the model runner (ocaml/report_main.ml).
package main

import (
	"bytes"
	crand "crypto/rand"
	"encoding/json"
	"fmt"
	"io"
	"math"
	"net/http"
	"net/http/httptest"
	"os"
	"path/filepath"
	"sort"
	"strconv"
	"strings"
	"sync"
	"time"

	"golang.org/x/telemetry/internal/config"
	"golang.org/x/telemetry/internal/configstore"
	"golang.org/x/telemetry/internal/counter"
	"golang.org/x/telemetry/internal/proxy"
	"golang.org/x/telemetry/internal/telemetry"
	"golang.org/x/telemetry/internal/upload"
	. "golang.org/x/telemetry/internal/verifh/vh_replib"
	. "golang.org/x/telemetry/internal/verifh/vhlib"
)

var rnd *Rand
var out *Out
var root string

// ---------------------------------------------------------------- expand

func caseExpand() {
	var name string
	switch rnd.Intn(4) {
	case 0:
		// structured: prefix{b1,...,bn} with optional damage
		n := rnd.Intn(5)
		bs := make([]string, n)
		for i := range bs {
			bs[i] = Pick(rnd, []string{"a", "b", "", "linux", "x y", "a:b", "}", "{", "z}"})
		}
		name = Pick(rnd, []string{"chart:", "", "c", "a/b:", "x}"}) + "{" + strings.Join(bs, ",") + Pick(rnd, []string{"}", "}", "}", "", "}}", "} "})
	case 1:
		alphabet := []byte("ab{},: ")
		b := make([]byte, rnd.Intn(10))
		for i := range b {
			b[i] = Pick(rnd, alphabet)
		}
		name = string(b)
	case 2:
		name = string(rnd.Bytes(rnd.Intn(8)))
	default:
		name = Pick(rnd, []string{"foo", "", "{", "}", "{}", "{,}", "a{", "a{}", "a{}}", "a{b}c", "a{b,c}d}", "p{q{r,s}", ",", "a,b", "x{,}", "x{,,}"})
	}
	got := config.Expand(name)
	if strings.Contains(name, "{") {
		out.Note("expand-buckets")
	} else {
		out.Note("expand-plain")
	}
	f := []string{"expand", HS(name)}
	f = append(f, WStrs(got)...)
	out.Case(true, f...)
}

// ---------------------------------------------------------------- config tables

func caseCfg() {
	x := XOf(GenX(rnd))
	ucfg := GenConfig(rnd, x)
	if !RatesOK(ucfg) {
		panic("generator produced a rate outside the modelled domain")
	}
	cfg := config.NewConfig(ucfg)
	f := []string{"cfg"}
	f = append(f, WConfig(ucfg)...)
	np := 6 + rnd.Intn(6)
	f = append(f, I(int64(np)))
	for i := 0; i < np; i++ {
		prog := Pick(rnd, ucfg.Programs).Name
		if rnd.Chance(15) {
			prog = GenIdent(rnd, ucfg).Program
		}
		name := GenCounterName(rnd, ucfg, prog)
		switch rnd.Intn(5) {
		case 0:
			name = GenIdent(rnd, ucfg).Version
		case 1:
			if i := strings.Index(name, ":"); i >= 0 {
				name = name[:i]
			}
		}
		id := GenIdent(rnd, ucfg)
		f = append(f, HS(prog), HS(name),
			B(cfg.HasProgram(prog)), B(cfg.HasVersion(prog, name)), B(cfg.HasCounter(prog, name)),
			B(cfg.HasCounterPrefix(prog, name)), B(cfg.HasStack(prog, name)), U(bitsOf(cfg.Rate(prog, name))),
			HS(id.GOOS), B(cfg.HasGOOS(id.GOOS)), HS(id.GOARCH), B(cfg.HasGOARCH(id.GOARCH)),
			HS(id.GoVersion), B(cfg.HasGoVersion(id.GoVersion)))
	}
	out.Note(fmt.Sprintf("cfg-programs-%d", len(ucfg.Programs)))
	out.Case(true, f...)
}

func bitsOf(f float64) uint64 { return math.Float64bits(f) }

// ---------------------------------------------------------------- reports

var allowedTop = map[string]bool{"Week": true, "LastWeek": true, "X": true, "Programs": true, "Config": true}
var allowedProg = map[string]bool{"Program": true, "Version": true, "GoVersion": true, "GOOS": true, "GOARCH": true, "Counters": true, "Stacks": true}

// shapeOK: the JSON object has no member besides the report format's.
func shapeOK(data []byte) bool {
	var top map[string]json.RawMessage
	if json.Unmarshal(data, &top) != nil {
		return false
	}
	for k := range top {
		if !allowedTop[k] {
			return false
		}
	}
	var progs []map[string]json.RawMessage
	if p, ok := top["Programs"]; ok && string(p) != "null" {
		if json.Unmarshal(p, &progs) != nil {
			return false
		}
	}
	for _, p := range progs {
		for k := range p {
			if !allowedProg[k] {
				return false
			}
		}
	}
	return true
}

type posted struct {
	mu     sync.Mutex
	bodies map[string][]byte
}

type fileSpec = FileSpec

// a scenario: configuration, X numerator, files; the rest is drawn in runScenario
type scenario struct {
	ucfg  *telemetry.UploadConfig
	m     uint64
	files []fileSpec
	nb    int
	force bool // no gate variation (directed witnesses)
}

func genScenario() scenario {
	var s scenario
	StrayBytes = rnd.Chance(10)
	if StrayBytes {
		StrayString = Pick(rnd, StrayKinds)
		out.Note("names-with-stray-bytes")
	}
	s.m = GenX(rnd)
	x := XOf(s.m)
	if rnd.Chance(6) {
		// programs whose package paths nest, items named so that (program, name) pairs concatenate alike
		BigValues = false
		cfg, files := GenNestedProgramsWeek(rnd, x)
		s.ucfg, s.files, s.nb = cfg, files, 2
		out.Note("nested-programs-week")
		return s
	}
	if rnd.Chance(8) {
		// two different programs with the same base name, version and platform, one of them approved
		BigValues = false
		cfg, files := GenSameBaseWeek(rnd, x)
		s.ucfg, s.files, s.nb = cfg, files, 2
		out.Note("same-base-week")
		return s
	}
	if rnd.Chance(25) {
		// several programs recording items of the same names, approved differently per program
		BigValues = false
		cfg, files := GenSharedNamesWeek(rnd, x)
		s.ucfg = cfg
		progs := map[string]bool{}
		for _, f := range files {
			s.files = append(s.files, f)
			progs[f.ID.Program] = true
		}
		s.nb = len(progs)
		out.Note("shared-names-week")
		return s
	}
	s.ucfg = GenConfig(rnd, x)
	// program builds: the first from the configuration (possibly one field off),
	// the others differ from the first in exactly one field, or are fresh
	s.nb = 1 + rnd.Intn(3)
	builds := []Ident{GenIdent(rnd, s.ucfg)}
	for len(builds) < s.nb {
		b := builds[0]
		switch rnd.Intn(7) {
		case 0:
			b.Program = GenIdent(rnd, s.ucfg).Program
		case 1:
			b.Version = GenIdent(rnd, s.ucfg).Version
		case 2:
			b.GoVersion = GenIdent(rnd, s.ucfg).GoVersion
		case 3:
			b.GOOS = GenIdent(rnd, s.ucfg).GOOS
		case 4:
			b.GOARCH = GenIdent(rnd, s.ucfg).GOARCH
		default:
			b = GenIdent(rnd, s.ucfg)
		}
		builds = append(builds, b)
	}
	nf := 1 + rnd.Intn(6)
	BigValues = rnd.Chance(10)
	if BigValues {
		out.Note("values-near-2^63")
	}
	for i := 0; i < nf; i++ {
		b := Pick(rnd, builds)
		maxn := 8
		if rnd.Chance(10) {
			maxn = 0
		}
		fs := fileSpec{ID: b, Counts: GenCounts(rnd, s.ucfg, b.Program, maxn)}
		if rnd.Chance(4) {
			fs.Omit = 1 + rnd.Intn(5)
			out.Note("meta-line-omitted")
		}
		s.files = append(s.files, fs)
	}
	return s
}

func approvedCfg(counters, stacks []telemetry.CounterConfig) (*telemetry.UploadConfig, Ident) {
	return &telemetry.UploadConfig{
			GOOS: []string{"linux"}, GOARCH: []string{"amd64"}, GoVersion: []string{"go1.22.1"},
			Programs: []*telemetry.ProgramConfig{{Name: "cmd/go", Versions: []string{"go1.22.1"}, Counters: counters, Stacks: stacks}},
		},
		Ident{"cmd/go", "go1.22.1", "go1.22.1", "linux", "amd64"}
}

// known finding 13: counter foo rate 0 + stack foo rate 1, X = 1/2
func witnessRate() scenario {
	cfg, id := approvedCfg([]telemetry.CounterConfig{{Name: "foo", Rate: 0}}, []telemetry.CounterConfig{{Name: "foo", Rate: 1}})
	out.Note("witness-shared-rate-table")
	return scenario{ucfg: cfg, m: 1 << 51, nb: 1, force: true, files: []fileSpec{{ID: id, Counts: []KV{{"foo", 3}}}}}
}

// a name configured as counter AND as stack with rates on either side of X = 1/2; the file records
// it both as a plain counter and as a stack title (the shared rate table of finding 13 decides by the
// last configured rate; any other decision is an ordinary violation)
func witnessBothKinds(counterRate, stackRate float64) scenario {
	cfg, id := approvedCfg([]telemetry.CounterConfig{{Name: "foo", Rate: counterRate}}, []telemetry.CounterConfig{{Name: "foo", Rate: stackRate}})
	out.Note("witness-both-kinds")
	return scenario{ucfg: cfg, m: 1 << 51, nb: 1, force: true, files: []fileSpec{{ID: id, Counts: []KV{{"foo", 3}, {"foo\nmain.f:1", 2}}}}}
}

// known finding 14: value 2^63
func witnessValue() scenario {
	cfg, id := approvedCfg([]telemetry.CounterConfig{{Name: "foo", Rate: 1}}, nil)
	out.Note("witness-value-2^63")
	return scenario{ucfg: cfg, m: 1 << 51, nb: 1, force: true, files: []fileSpec{{ID: id, Counts: []KV{{"foo", 1 << 63}}}}}
}

func caseReport(post bool, s scenario) {
	m := s.m
	x := XOf(m)
	ucfg := s.ucfg
	if !RatesOK(ucfg) {
		panic("generator produced a rate outside the modelled domain")
	}
	dir, err := os.MkdirTemp(root, "t")
	if err != nil {
		panic(err)
	}
	defer os.RemoveAll(dir)
	tdir := telemetry.NewDir(dir)
	os.MkdirAll(tdir.LocalDir(), 0777)
	os.MkdirAll(tdir.UploadDir(), 0777)

	end := time.Date(2001+rnd.Intn(90), time.Month(1+rnd.Intn(12)), 1+rnd.Intn(28), 0, 0, 0, 0, time.UTC)
	begin := end.AddDate(0, 0, -(1 + rnd.Intn(7)))
	start := end.Add(time.Hour + time.Duration(rnd.Int63n(int64(19*24*time.Hour))))
	asof := begin.AddDate(0, 0, -(60 + rnd.Intn(400)))
	mode := "on"
	gate := true
	if !post && !s.force {
		switch rnd.Intn(14) {
		case 0:
			mode, gate = "local", false
			out.Note("gate-mode-local")
		case 1:
			start, gate = end.Add(22*24*time.Hour+time.Duration(rnd.Int63n(int64(100*24*time.Hour)))), false
			out.Note("gate-too-old")
		case 2:
			asof, gate = begin.Add(time.Duration(rnd.Intn(3))*24*time.Hour), false
			out.Note("gate-asof")
		}
	}
	if err := tdir.SetModeAsOf(mode, asof); err != nil {
		panic(err)
	}
	week := end.Format("2006-01-02")
	lastWeek := ""
	if rnd.Chance(30) {
		lastWeek = end.AddDate(0, 0, -7*(1+rnd.Intn(3))).Format("2006-01-02")
		os.WriteFile(filepath.Join(tdir.UploadDir(), lastWeek+".json"), []byte("{}"), 0666)
	}
	cfgVersion := Pick(rnd, []string{"v0.1.0", "v1.2.3", "v0.0.0-0", "v0.33.0"})

	nf := len(s.files)
	f := []string{"report", B(gate)}
	f = append(f, WConfig(ucfg)...)
	f = append(f, HS(cfgVersion), HS(week), HS(lastWeek), I(int64(nf)))
	anyCounts := false
	realistic := rnd.Bool()
	if realistic {
		out.Note("rotate1-file-names")
	}
	for _, fs := range PlaceFiles(rnd, s.files, begin, end, realistic) {
		data := EncodeCountFile(MetaString(fs.Begin.Format(time.RFC3339), end.Format(time.RFC3339), fs.ID, fs.Omit), fs.Counts)
		name := filepath.Join(tdir.LocalDir(), fs.Name)
		if err := os.WriteFile(name, data, 0666); err != nil {
			panic(err)
		}
		pf, err := counter.Parse(name, data)
		if err != nil {
			pf = &counter.File{}
			out.Note("real-parser-rejects-a-valid-file")
		}
		if len(fs.Counts) > 0 {
			anyCounts = true
		}
		f = append(f, WFileRef(fs, pf.Meta, pf.Count, err)...)
	}
	out.Note(fmt.Sprintf("files-%d", nf))
	out.Note(fmt.Sprintf("builds-%d", s.nb))
	out.Note(fmt.Sprintf("programs-%d", len(ucfg.Programs)))
	if !anyCounts {
		out.Note("no-counters-at-all")
	}

	// a second call of computeRandom within the run would see a different X
	crand.Reader = &CycleReader{Data: append(RandBytesFor(rnd, m), RandBytesFor(rnd, m^(1<<uint(rnd.Intn(52))))...)}
	u := upload.VerifNewUploader(dir, "http://127.0.0.1:1", start, ucfg, cfgVersion, nil)
	if _, err := u.Reports(); err != nil {
		panic(err)
	}
	localName := filepath.Join(tdir.LocalDir(), "local."+week+".json")
	uploadName := filepath.Join(tdir.LocalDir(), week+".json")
	localData, errL := os.ReadFile(localName)
	uploadData, errU := os.ReadFile(uploadName)
	remaining := 0
	ents, _ := os.ReadDir(tdir.LocalDir())
	for _, e := range ents {
		if strings.HasSuffix(e.Name(), ".v1.count") {
			remaining++
		}
	}
	f = append(f, U(bitsOf(x)), I(int64(remaining)))
	var local, up telemetry.Report
	switch {
	case errL != nil && errU != nil:
		f = append(f, "none")
		out.Note("outcome-none")
	case errL == nil && errU != nil:
		if err := json.Unmarshal(localData, &local); err != nil {
			panic(err)
		}
		f = append(f, "local", B(shapeOK(localData)))
		f = append(f, WReport(&local)...)
		out.Note("outcome-local-only")
	case errL == nil && errU == nil:
		if err := json.Unmarshal(localData, &local); err != nil {
			panic(err)
		}
		if err := json.Unmarshal(uploadData, &up); err != nil {
			panic(err)
		}
		f = append(f, "both", B(shapeOK(localData) && shapeOK(uploadData)))
		f = append(f, WReport(&local)...)
		f = append(f, WReport(&up)...)
		out.Note("outcome-upload")
		if len(up.Programs) > 0 {
			out.Note("upload-has-programs")
		}
		nk := 0
		for _, p := range up.Programs {
			nk += len(p.Counters) + len(p.Stacks)
		}
		if nk > 0 {
			out.Note("upload-has-counters")
		}
	default:
		f = append(f, "upload-without-local")
	}

	if post && errU == nil {
		// second run: the ready report and a leftover of an "earlier run" are POSTed
		leftDate := end.AddDate(0, 0, -7).Format("2006-01-02")
		if leftDate == lastWeek {
			leftDate = end.AddDate(0, 0, -35).Format("2006-01-02")
		}
		leftover := []byte(`{"Week":"` + leftDate + `","X":0.5,"Programs":[{"Program":"left/over","Counters":{"anything":` +
			strconv.Itoa(rnd.Intn(1000)) + `}}],"Config":"v0.0.1"}` + strings.Repeat(" ", rnd.Intn(4)))
		os.WriteFile(filepath.Join(tdir.LocalDir(), leftDate+".json"), leftover, 0666)
		p := &posted{bodies: map[string][]byte{}}
		srv := httptest.NewServer(http.HandlerFunc(func(w http.ResponseWriter, r *http.Request) {
			b, _ := io.ReadAll(r.Body)
			p.mu.Lock()
			p.bodies[r.Method+" "+r.URL.Path] = b
			p.mu.Unlock()
			w.WriteHeader(200)
		}))
		u2 := upload.VerifNewUploader(dir, srv.URL, start, ucfg, cfgVersion, nil)
		u2.Run()
		srv.Close()
		keys := make([]string, 0)
		for k := range p.bodies {
			keys = append(keys, k)
		}
		sort.Strings(keys)
		okNew := bytes.Equal(p.bodies["POST /"+week], uploadData)
		okOld := bytes.Equal(p.bodies["POST /"+leftDate], leftover)
		f = append(f, "posted", I(int64(len(keys))), B(okNew), B(okOld))
		out.Note("posted")
	} else {
		f = append(f, "noposted")
	}
	out.Case(true, f...)
}

// ---------------------------------------------------------------- several runs of one process on one directory

// observe: the reports of `week` and the count files left, as wire fields
// (same layout as the tail of a "report" case, without the posted part).
func observe(tdir telemetry.Dir, week string) []string {
	localData, errL := os.ReadFile(filepath.Join(tdir.LocalDir(), "local."+week+".json"))
	uploadData, errU := os.ReadFile(filepath.Join(tdir.LocalDir(), week+".json"))
	remaining := 0
	ents, _ := os.ReadDir(tdir.LocalDir())
	for _, e := range ents {
		if strings.HasSuffix(e.Name(), ".v1.count") {
			remaining++
		}
	}
	f := []string{I(int64(remaining))}
	var local, up telemetry.Report
	switch {
	case errL != nil && errU != nil:
		f = append(f, "none")
	case errL == nil && errU != nil:
		if err := json.Unmarshal(localData, &local); err != nil {
			panic(err)
		}
		f = append(f, "local", B(shapeOK(localData)))
		f = append(f, WReport(&local)...)
	case errL == nil && errU == nil:
		if err := json.Unmarshal(localData, &local); err != nil {
			panic(err)
		}
		if err := json.Unmarshal(uploadData, &up); err != nil {
			panic(err)
		}
		f = append(f, "both", B(shapeOK(localData) && shapeOK(uploadData)))
		f = append(f, WReport(&local)...)
		f = append(f, WReport(&up)...)
	default:
		f = append(f, "upload-without-local")
	}
	return f
}

// writeWeek (re)writes the count files 00.., and returns the wire fields of
// the directory's count files as the real parser reads them NOW: name, TimeEnd, parsed file.
func writeWeek(tdir telemetry.Dir, end time.Time, files []fileSpec) []string {
	f := []string{I(int64(len(files)))}
	for _, fs := range files {
		data := EncodeCountFile(MetaString(fs.Begin.Format(time.RFC3339), end.Format(time.RFC3339), fs.ID, fs.Omit), fs.Counts)
		base := fs.Name
		name := filepath.Join(tdir.LocalDir(), base)
		if err := os.WriteFile(name, data, 0666); err != nil {
			panic(err)
		}
		pf, err := counter.Parse(name, data)
		if err != nil {
			pf = &counter.File{}
		}
		f = append(f, HS(base), I(end.Unix()))
		f = append(f, WFileRef(fs, pf.Meta, pf.Count, err)...)
	}
	return f
}

// grow: the same programs kept counting (values grow, new counters appear)
func grow(files []fileSpec, ucfg *telemetry.UploadConfig) []fileSpec {
	var res []fileSpec
	for _, fs := range files {
		n := fileSpec{ID: fs.ID, Omit: fs.Omit, Name: fs.Name, Begin: fs.Begin}
		seen := map[string]bool{}
		for _, kv := range fs.Counts {
			seen[kv.K] = true
			n.Counts = append(n.Counts, KV{kv.K, kv.V + uint64(rnd.Intn(20))})
		}
		for _, kv := range GenCounts(rnd, ucfg, fs.ID.Program, 4) {
			if !seen[kv.K] {
				seen[kv.K] = true
				n.Counts = append(n.Counts, kv)
			}
		}
		res = append(res, n)
	}
	if rnd.Chance(30) {
		id := Pick(rnd, files).ID
		res = append(res, fileSpec{ID: id, Counts: GenCounts(rnd, ucfg, id.Program, 5)})
	}
	return res
}

// caseSeq: ONE process (this one) runs the uploader two or three times on the
// same telemetry directory while the count files change between the runs:
// (a) a run while the week's files are still active, the programs count on,
// the files expire, a second run; (b) a run that consumes a week, the same
// file names are written again for the next week, a second run.  Every run is
// a new uploader (as upload.Run makes one); each run's reports are compared
// with the model on the files as they are at that run.
func caseSeq() {
	s := genScenario()
	BigValues = false
	ucfg := s.ucfg
	dir, err := os.MkdirTemp(root, "t")
	if err != nil {
		panic(err)
	}
	defer os.RemoveAll(dir)
	tdir := telemetry.NewDir(dir)
	os.MkdirAll(tdir.LocalDir(), 0777)
	os.MkdirAll(tdir.UploadDir(), 0777)
	end := time.Date(2001+rnd.Intn(90), time.Month(1+rnd.Intn(12)), 1+rnd.Intn(28), 0, 0, 0, 0, time.UTC)
	begin := end.AddDate(0, 0, -7)
	if err := tdir.SetModeAsOf("on", begin.AddDate(0, 0, -100)); err != nil {
		panic(err)
	}
	cfgVersion := Pick(rnd, []string{"v0.1.0", "v1.2.3"})
	type step struct {
		begin, end, start time.Time
		files             []fileSpec
		clear             bool // count files left over from the previous step are removed first
	}
	var steps []step
	after := func(e time.Time) time.Time { return e.Add(time.Duration(1+rnd.Intn(15*24*3600)) * time.Second) }
	realistic := rnd.Bool()
	files := PlaceFiles(rnd, s.files, begin, end, realistic)
	if rnd.Chance(60) {
		// (a) active, [active again,] expired: the same files (same names) grow
		steps = append(steps, step{begin, end, begin.Add(time.Duration(rnd.Intn(7*24*3600)) * time.Second), files, false})
		if rnd.Chance(30) {
			files = PlaceFiles(rnd, grow(files, ucfg), begin, end, realistic)
			steps = append(steps, step{begin, end, end.Add(-time.Duration(rnd.Intn(3600)) * time.Second), files, false})
		}
		files = PlaceFiles(rnd, grow(files, ucfg), begin, end, realistic)
		steps = append(steps, step{begin, end, after(end), files, false})
		out.Note("seq-active-then-expired")
	} else {
		// (b) consumed, then the next week (neutral names: the same names again; rotate1 names: new dates)
		steps = append(steps, step{begin, end, after(end), files, false})
		end2 := end.AddDate(0, 0, 7)
		next := grow(files, ucfg)
		for i := range next {
			next[i].Name = ""
		}
		files = PlaceFiles(rnd, next, end, end2, realistic)
		steps = append(steps, step{end, end2, after(end2), files, true})
		out.Note("seq-consumed-then-next-week")
	}
	f := []string{"seq"}
	f = append(f, WConfig(ucfg)...)
	f = append(f, HS(cfgVersion), I(int64(len(steps))))
	for _, st := range steps {
		m := GenX(rnd)
		week := st.end.Format("2006-01-02")
		if st.clear {
			// a week without counters leaves its files behind; the user clears them
			ents, _ := os.ReadDir(tdir.LocalDir())
			for _, e := range ents {
				if strings.HasSuffix(e.Name(), ".v1.count") {
					os.Remove(filepath.Join(tdir.LocalDir(), e.Name()))
				}
			}
		}
		f = append(f, I(st.start.Unix()), HS(week), HS(""), U(bitsOf(XOf(m))))
		f = append(f, writeWeek(tdir, st.end, st.files)...)
		crand.Reader = &CycleReader{Data: append(RandBytesFor(rnd, m), RandBytesFor(rnd, m^(1<<uint(rnd.Intn(52))))...)}
		u := upload.VerifNewUploader(dir, "http://127.0.0.1:1", st.start, ucfg, cfgVersion, nil)
		if _, err := u.Reports(); err != nil {
			panic(err)
		}
		f = append(f, observe(tdir, week)...)
	}
	out.Note(fmt.Sprintf("seq-runs-%d", len(steps)))
	out.Case(true, f...)
}

// ---------------------------------------------------------------- one week, many instants; two weeks in one run

// caseWeeks: the expired files of one run end on the same calendar DATE at
// different instants and in different zones (and, in a third of the cases, on
// two dates a week apart): one report per date, built from all files of that date.
func caseWeeks() {
	s := genScenario()
	ucfg := s.ucfg
	dir, err := os.MkdirTemp(root, "w")
	if err != nil {
		panic(err)
	}
	defer os.RemoveAll(dir)
	tdir := telemetry.NewDir(dir)
	os.MkdirAll(tdir.LocalDir(), 0777)
	os.MkdirAll(tdir.UploadDir(), 0777)
	day := time.Date(2001+rnd.Intn(90), time.Month(1+rnd.Intn(12)), 8+rnd.Intn(20), 0, 0, 0, 0, time.UTC)
	if err := tdir.SetModeAsOf("on", day.AddDate(0, 0, -100)); err != nil {
		panic(err)
	}
	start := day.AddDate(0, 0, 2).Add(time.Duration(rnd.Intn(4*24*3600)) * time.Second)
	cfgVersion := Pick(rnd, []string{"v0.1.0", "v1.2.3"})
	two := rnd.Chance(33) && len(s.files) > 1
	ends := []string{"T00:00:00Z", "T00:00:00Z", "T03:00:00Z", "T23:59:59Z", "T00:00:00+02:00", "T05:30:00+05:30", "T12:00:00-08:00", "T00:00:01Z", "T00:00:00-00:30"}
	type lf struct {
		label string
		end   string
		fs    fileSpec
	}
	realistic := rnd.Bool()
	var all []lf
	groups := map[string][]fileSpec{}
	var labels []string
	for i, fs := range s.files {
		d := day
		if two && (i == 1 || (i > 1 && rnd.Bool())) {
			d = day.AddDate(0, 0, -7)
		}
		label := d.Format("2006-01-02")
		if _, ok := groups[label]; !ok {
			labels = append(labels, label)
		}
		groups[label] = append(groups[label], fs)
	}
	// place the files week by week (names as rotate1 gives them carry the begin date)
	for _, label := range labels {
		d, _ := time.Parse("2006-01-02", label)
		for _, fs := range PlaceFiles(rnd, groups[label], d.AddDate(0, 0, -7), d, realistic) {
			all = append(all, lf{label, label + Pick(rnd, ends), fs})
		}
	}
	// neutral names repeat from one week to the other: keep them apart
	seenName := map[string]bool{}
	for i := range all {
		for seenName[all[i].fs.Name] {
			all[i].fs.Name = "w" + all[i].fs.Name
		}
		seenName[all[i].fs.Name] = true
	}
	sort.SliceStable(all, func(a, b int) bool { return all[a].fs.Name < all[b].fs.Name })
	distinct := map[string]bool{}
	f := []string{"weeks"}
	f = append(f, WConfig(ucfg)...)
	m := s.m
	f = append(f, HS(cfgVersion), HS(""), U(bitsOf(XOf(m))), I(int64(len(all))))
	for _, e := range all {
		distinct[e.end] = true
		data := EncodeCountFile(MetaString(e.fs.Begin.Format(time.RFC3339), e.end, e.fs.ID, e.fs.Omit), e.fs.Counts)
		name := filepath.Join(tdir.LocalDir(), e.fs.Name)
		if err := os.WriteFile(name, data, 0666); err != nil {
			panic(err)
		}
		pf, err := counter.Parse(name, data)
		if err != nil {
			pf = &counter.File{}
		}
		f = append(f, HS(e.label))
		f = append(f, WFileRef(e.fs, pf.Meta, pf.Count, err)...)
	}
	if len(distinct) > 1 {
		out.Note("weeks-several-end-instants")
	}
	out.Note(fmt.Sprintf("weeks-labels-%d", len(labels)))
	// every report of this run draws the same X (the order in which the weeks are built is not specified)
	crand.Reader = &CycleReader{Data: RandBytesFor(rnd, m)}
	u := upload.VerifNewUploader(dir, "http://127.0.0.1:1", start, ucfg, cfgVersion, nil)
	if _, err := u.Reports(); err != nil {
		panic(err)
	}
	sort.Strings(labels)
	f = append(f, observe(tdir, labels[0])[0], I(int64(len(labels))))
	for _, label := range labels {
		f = append(f, HS(label))
		f = append(f, observe(tdir, label)[1:]...)
	}
	out.Case(true, f...)
}

// ---------------------------------------------------------------- upload.Run itself, twice in one process

// caseRuns: this process calls the real upload.Run (config download by the go
// command from a file:// proxy, report building, HTTP upload to a local
// server) two or three times on one telemetry directory with the SAME
// RunConfig environment, while the configuration module publishes a new
// version between the Runs (approvals withdrawn or added) and the next week's
// count files expire.  Every Run is compared with the model of a Run that
// fetches the newest version of the store as it is at that Run, and its
// reports are judged by report_check under THAT configuration.
func caseRuns() {
	m0 := GenX(rnd)
	var cfgA *telemetry.UploadConfig
	var files []fileSpec
	BigValues = false
	switch rnd.Intn(3) {
	case 0:
		cfgA, files = GenSharedNamesWeek(rnd, XOf(m0))
	case 1:
		cfgA, files = GenSameBaseWeek(rnd, XOf(m0))
	default:
		cfgA = GenConfig(rnd, XOf(m0))
		for i := 0; i < 1+rnd.Intn(3); i++ {
			b := GenIdent(rnd, cfgA)
			files = append(files, fileSpec{ID: b, Counts: GenCounts(rnd, cfgA, b.Program, 6)})
		}
	}
	cfgA.SampleRate = Pick(rnd, []float64{0, 1})
	cfgB := WithdrawSomething(rnd, cfgA, files)
	nruns := 2 + rnd.Intn(2)
	versions := []string{"v1.0.0", "v1.1.0", "v1.2.0"}
	var cfgs []*telemetry.UploadConfig
	switch rnd.Intn(3) {
	case 0: // approvals withdrawn
		cfgs = []*telemetry.UploadConfig{cfgA, cfgB, cfgA}
	case 1: // approvals added
		cfgs = []*telemetry.UploadConfig{cfgB, cfgA, cfgB}
	default:
		cfgs = []*telemetry.UploadConfig{cfgA, cfgB, GenConfig(rnd, XOf(m0))}
	}
	dir, err := os.MkdirTemp(root, "u")
	if err != nil {
		panic(err)
	}
	defer func() {
		filepath.Walk(dir, func(p string, info os.FileInfo, err error) error {
			if err == nil && info.IsDir() {
				os.Chmod(p, 0777)
			}
			return nil
		})
		os.RemoveAll(dir)
	}()
	tele := filepath.Join(dir, "tele")
	tdir := telemetry.NewDir(tele)
	os.MkdirAll(tdir.LocalDir(), 0777)
	os.MkdirAll(tdir.UploadDir(), 0777)
	end := time.Date(2001+rnd.Intn(90), time.Month(1+rnd.Intn(12)), 1+rnd.Intn(28), 0, 0, 0, 0, time.UTC)
	if err := tdir.SetModeAsOf("on", end.AddDate(0, 0, -100)); err != nil {
		panic(err)
	}
	proxyDir := filepath.Join(dir, "proxy")
	var env []string // the same for every Run of the process
	var mu sync.Mutex
	bodies := map[string][]byte{}
	srv := httptest.NewServer(http.HandlerFunc(func(w http.ResponseWriter, r *http.Request) {
		b, _ := io.ReadAll(r.Body)
		mu.Lock()
		bodies[r.URL.Path] = b
		mu.Unlock()
		w.WriteHeader(200)
	}))
	defer srv.Close()
	f := []string{"runs", I(int64(nruns))}
	realistic := rnd.Bool()
	for k := 0; k < nruns; k++ {
		// the configuration module as published so far
		pfiles := map[string][]byte{}
		f = append(f, I(int64(k+1)))
		for j := 0; j <= k; j++ {
			enc, _ := json.Marshal(cfgs[j])
			dp := fmt.Sprintf("%v@%v/", configstore.ModulePath, versions[j])
			pfiles[dp+"go.mod"] = []byte("module " + configstore.ModulePath + "\n\ngo 1.20\n")
			pfiles[dp+"config.json"] = enc
			f = append(f, HS(versions[j]))
			f = append(f, WConfig(cfgs[j])...)
		}
		os.RemoveAll(proxyDir)
		uri, err := proxy.WriteProxy(proxyDir, pfiles)
		if err != nil {
			panic(err)
		}
		if env == nil {
			env = []string{"GOPROXY=" + uri, "GONOSUMDB=*", "GOSUMDB=off", "GOFLAGS=", "GOMODCACHE=" + filepath.Join(dir, "modcache")}
		}
		// this week's files
		wend := end.AddDate(0, 0, 7*k)
		wbegin := wend.AddDate(0, 0, -7)
		week := wend.Format("2006-01-02")
		wfiles := files
		if k > 0 {
			wfiles = grow(files, cfgA)
			for i := range wfiles {
				wfiles[i].Name = ""
			}
		}
		wfiles = PlaceFiles(rnd, wfiles, wbegin, wend, realistic)
		ents, _ := os.ReadDir(tdir.LocalDir())
		for _, e := range ents {
			if strings.HasSuffix(e.Name(), ".v1.count") {
				os.Remove(filepath.Join(tdir.LocalDir(), e.Name()))
			}
		}
		lastWeek := ""
		ups, _ := os.ReadDir(tdir.UploadDir())
		for _, e := range ups {
			if strings.HasSuffix(e.Name(), ".json") && strings.TrimSuffix(e.Name(), ".json") > lastWeek {
				lastWeek = strings.TrimSuffix(e.Name(), ".json")
			}
		}
		start := wend.Add(time.Duration(1+rnd.Intn(6*24*3600)) * time.Second)
		m := GenX(rnd)
		f = append(f, I(start.Unix()), HS(week), HS(lastWeek), U(bitsOf(XOf(m))))
		f = append(f, writeWeek(tdir, wend, wfiles)...)
		crand.Reader = &CycleReader{Data: append(RandBytesFor(rnd, m), RandBytesFor(rnd, m^(1<<uint(rnd.Intn(52))))...)}
		if err := upload.Run(upload.RunConfig{TelemetryDir: tele, UploadURL: srv.URL, Env: env, StartTime: start}); err != nil {
			panic(fmt.Sprintf("upload.Run: %v", err))
		}
		// the uploaded copy stands for the upload report; the POSTed bytes must be the same
		upName := filepath.Join(tdir.UploadDir(), week+".json")
		if data, err := os.ReadFile(upName); err == nil {
			mu.Lock()
			same := bytes.Equal(bodies["/"+week], data)
			mu.Unlock()
			os.WriteFile(filepath.Join(tdir.LocalDir(), week+".json"), data, 0666) // where observe() looks
			f = append(f, B(same))
			f = append(f, observe(tdir, week)...)
			os.Remove(filepath.Join(tdir.LocalDir(), week+".json"))
		} else {
			f = append(f, B(true))
			f = append(f, observe(tdir, week)...)
		}
	}
	out.Note(fmt.Sprintf("runs-%d", nruns))
	out.Case(true, f...)
}

// countFDs: open file descriptors of this process
func countFDs() int {
	ents, err := os.ReadDir("/proc/self/fd")
	if err != nil {
		return 0
	}
	return len(ents)
}

func main() {
	outPath := os.Args[1]
	n, _ := strconv.Atoi(os.Args[2])
	rnd = NewRand(Seed())
	out = NewOut(outPath)
	var err error
	root, err = os.MkdirTemp("", "vh_report")
	if err != nil {
		panic(err)
	}
	defer os.RemoveAll(root)
	fds0 := countFDs()
	for i := 0; i < n; i++ {
		// watchdog: a case that does not come back is reported with its number, not left to the outer timeout
		done := make(chan struct{})
		go func() {
			defer close(done)
			switch {
			case i%10 < 2:
				caseExpand()
			case i%10 < 4:
				caseCfg()
			case i == 5:
				caseReport(false, witnessRate())
			case i == 6:
				caseReport(false, witnessValue())
			case i == 7:
				caseReport(false, witnessBothKinds(1, 0))
			case i == 8:
				caseReport(false, witnessBothKinds(0, 1))
			case i%50 == 19:
				caseRuns()
			case i%20 == 8 && i > 8:
				caseWeeks()
			case i%10 == 9:
				caseSeq()
			case i%10 == 4:
				caseReport(true, genScenario())
			default:
				caseReport(false, genScenario())
			}
		}()
		select {
		case <-done:
		case <-time.After(120 * time.Second):
			out.Case(true, "hang", I(int64(i)))
			out.Close()
			os.RemoveAll(root)
			os.Exit(0)
		}
	}
	out.Case(true, "fds", I(int64(fds0)), I(int64(countFDs())))
	out.Close()
}
