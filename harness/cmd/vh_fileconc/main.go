// vh_fileconc: correspondence harness for C04.  "Processes" are independent
// handles (openMapped) on ONE counter file in one address space; each runs a
// list of newCounter(name) / Counter.add operations by calling the real
// mappedFile methods of an import-rewritten copy of internal/counter
// (sync/atomic -> vatomic, sync -> vsync) under the deterministic scheduler
// with fine granularity: one atomic operation per step.  File-system calls
// (Stat, WriteAt, mmap) and the name copy are not yield points: they run
// inside the step of the preceding atomic operation.
//
// After every step the REAL file is read back (os.ReadFile) and decoded by
// the independent decoder below (own FNV-1a, own record walk, own raw scan
// of the record area); the decoded view travels to the OCaml runner, which
// steps Model/FileConc on the same schedule and evaluates the C04 oracles on
// the decoded real bytes.
package main

import (
	"encoding/binary"
	"fmt"
	"os"
	"path/filepath"
	"sort"
	"strconv"
	"strings"
	"time"
	"unsafe"

	"golang.org/x/telemetry/internal/counter"
	"golang.org/x/telemetry/internal/telemetry"
	"golang.org/x/telemetry/internal/verifh/shim/vatomic"
	"golang.org/x/telemetry/internal/verifh/shim/vsched"
	. "golang.org/x/telemetry/internal/verifh/vhlib"
)

var rnd *Rand
var out *Out
var root string
var debug = os.Getenv("VH_DEBUG") != ""

const (
	pageSize = 16384
	numHash  = 512
	unit     = 32
)

// ---- independent FNV-1a (the file format's hash) ----
func fnv(name string) uint32 {
	h := uint32(2166136261)
	for i := 0; i < len(name); i++ {
		h ^= uint32(name[i])
		h *= 16777619
	}
	return (h ^ (h >> 16)) % numHash
}

func roundUp(x, u uint32) uint32 { return (x + u - 1) / u * u }

// ---- name pool ----
type pool struct {
	names []string       // id -> name (id 0 unused)
	ids   map[string]int // name -> id
}

var base pool
var hotBucket, hotBucket2 uint32

func (p *pool) add(s string) int {
	if id, ok := p.ids[s]; ok {
		return id
	}
	p.names = append(p.names, s)
	p.ids[s] = len(p.names) - 1
	return len(p.names) - 1
}

func (p *pool) clone() *pool {
	q := &pool{names: append([]string(nil), p.names...), ids: map[string]int{}}
	for k, v := range p.ids {
		q.ids[k] = v
	}
	return q
}

// find a name of exactly n bytes, starting with prefix, in bucket b (b < 0: any
// bucket not in avoid)
func findName(prefix string, n int, b int, avoid map[uint32]bool) string {
	for k := 0; ; k++ {
		s := prefix + strconv.Itoa(k)
		if len(s) > n {
			panic("findName: prefix too long")
		}
		s += strings.Repeat("q", n-len(s))
		h := fnv(s)
		if (b >= 0 && h == uint32(b)) || (b < 0 && !avoid[h]) {
			return s
		}
	}
}

// ids of the base pool
const (
	idHot1 = 1 + iota // three short names in the hot bucket
	idHot2
	idHot3
	idHotLong // 4080 bytes, hot bucket
	idHotMid  // 1000 bytes, hot bucket
	idLong1   // 4080 bytes, other buckets
	idLong2
	idLong3
	idLong4
	idShort1 // short names, other buckets
	idShort2
	idShort3
	idShort4
	idMax     // 4096 bytes
	idTooLong // 4097 bytes
	idEmpty   // ""
	idCold1   // two short names in a second common bucket
	idCold2
	idOne // one byte
	nBase
)

func buildPool() {
	base = pool{names: []string{"\x00unused"}, ids: map[string]int{}}
	hotBucket = fnv("a0")
	used := map[uint32]bool{hotBucket: true}
	must := func(id int, s string) {
		if got := base.add(s); got != id {
			panic(fmt.Sprintf("pool id %d != %d", got, id))
		}
		if counter.VerifNameHash(s) != fnv(s) {
			panic("independent FNV-1a differs from the package's hash")
		}
	}
	must(idHot1, "a0")
	must(idHot2, findName("b", 11, int(hotBucket), nil))
	must(idHot3, findName("cc", 37, int(hotBucket), nil))
	must(idHotLong, findName("HL", 4080, int(hotBucket), nil))
	must(idHotMid, findName("HM", 1000, int(hotBucket), nil))
	for i, id := range []int{idLong1, idLong2, idLong3, idLong4} {
		s := findName("L"+strconv.Itoa(i)+"-", 4080, -1, used)
		used[fnv(s)] = true
		must(id, s)
	}
	for i, id := range []int{idShort1, idShort2, idShort3, idShort4} {
		s := findName("s"+strconv.Itoa(i)+"-", 5+7*i, -1, used)
		used[fnv(s)] = true
		must(id, s)
	}
	must(idMax, findName("MX", 4096, -1, used))
	must(idTooLong, findName("TL", 4097, -1, used))
	must(idEmpty, "")
	s := findName("d", 6, -1, used)
	hotBucket2 = fnv(s)
	must(idCold1, s)
	must(idCold2, findName("e", 20, int(hotBucket2), nil))
	must(idOne, "z")
}

// ---- independent decoder of the real file ----
type ent struct {
	off  uint32
	id   int
	val  uint64
	next uint32
}

type view struct {
	size, limit uint32
	corrupt     string
	buckets     []uint32
	chains      map[uint32][]ent
	scan        []ent
	stray       []uint32
}

func le32(d []byte, off uint32) uint32 { return binary.LittleEndian.Uint32(d[off:]) }

func decode(d []byte, H uint32, p *pool) view {
	v := view{size: uint32(len(d)), chains: map[uint32][]ent{}}
	v.limit = le32(d, H)
	nameID := func(b []byte) int { return p.add(string(b)) }
	for b := uint32(0); b < numHash; b++ {
		off := le32(d, H+4+4*b)
		if off == 0 {
			continue
		}
		v.buckets = append(v.buckets, b)
		n := 0
		for off != 0 {
			if n > len(d)/unit {
				v.corrupt = "cycle"
				break
			}
			n++
			if off < H+4+4*numHash || off%8 != 0 || uint64(off)+16 > uint64(len(d)) {
				v.corrupt = "pointer" // out of bounds or (fix a01a83c) not 8-byte aligned
				break
			}
			nl := le32(d, off+8) & 0x00ffffff
			if uint64(off)+16+uint64(nl) > uint64(len(d)) {
				v.corrupt = "length"
				break
			}
			e := ent{off: off, id: nameID(d[off+16 : off+16+nl]), val: binary.LittleEndian.Uint64(d[off:]), next: le32(d, off+12)}
			v.chains[b] = append(v.chains[b], e)
			off = e.next
		}
	}
	// raw scan of the record area: a unit whose byte 11 is 0xff starts a
	// written record (names never contain 0xff); other non-zero units that are
	// not inside such a record are reported as stray
	for off := roundUp(H+4+4*numHash, unit); off+unit <= uint32(len(d)); {
		if d[off+11] == 0xff {
			nl := le32(d, off+8) & 0x00ffffff
			if uint64(off)+16+uint64(nl) <= uint64(len(d)) {
				v.scan = append(v.scan, ent{off: off, id: nameID(d[off+16 : off+16+nl]), val: binary.LittleEndian.Uint64(d[off:]), next: le32(d, off+12)})
				off += roundUp(16+nl, unit)
				continue
			}
		}
		for _, c := range d[off : off+unit] {
			if c != 0 {
				v.stray = append(v.stray, off)
				break
			}
		}
		off += unit
	}
	return v
}

func (v view) tokens() []string {
	t := []string{U(uint64(v.size)), U(uint64(v.limit))}
	if v.corrupt == "" {
		t = append(t, "wfwalk")
	} else {
		t = append(t, "badwalk-"+v.corrupt)
	}
	t = append(t, I(int64(len(v.buckets))))
	for _, b := range v.buckets {
		t = append(t, U(uint64(b)), I(int64(len(v.chains[b]))))
		for _, e := range v.chains[b] {
			t = append(t, U(uint64(e.off)), I(int64(e.id)), U(e.val), U(uint64(e.next)))
		}
	}
	t = append(t, I(int64(len(v.scan))))
	for _, e := range v.scan {
		t = append(t, U(uint64(e.off)), I(int64(e.id)), U(e.val), U(uint64(e.next)))
	}
	// stray units as runs (first unit offset, number of consecutive units)
	var runs [][2]uint32
	for _, o := range v.stray {
		if k := len(runs); k > 0 && runs[k-1][0]+unit*runs[k-1][1] == o {
			runs[k-1][1]++
		} else {
			runs = append(runs, [2]uint32{o, 1})
		}
	}
	t = append(t, I(int64(len(runs))))
	for _, r := range runs {
		t = append(t, U(uint64(r[0])), U(uint64(r[1])))
	}
	return t
}

// ---- programs ----
type op struct {
	isNew bool
	name  int
	k     uint64
}

type tstate struct {
	h         *counter.VerifHandle
	cell      *vatomic.Uint64
	cellName  int
	results   []string
	begun     [][2]uint64
	completed [][2]uint64
	sentB     int
	sentC     int
	killAt    int
	openLate  bool
	// observations about the newCounter call in progress (implementation side only)
	callMaps     int  // mappings created by the call (re-maps and extensions)
	callReserved bool // the call's CAS on the limit word moved the limit (it has reserved a record)
	nres         int  // results logged
	// the mapping the process held when it called newCounter was closed by the CALLEE (the process's other
	// goroutines may still hold pointers into it: only the caller may close it, after invalidating them)
	callerClosed int
}

type mapping struct{ base, n uintptr }

var maps []mapping
var curT *tstate // the process whose step is running

func fileOff(addr uintptr) (uint32, bool) {
	for _, m := range maps {
		if addr >= m.base && addr < m.base+m.n {
			return uint32(addr - m.base), true
		}
	}
	return 0, false
}

var kindOf = map[string]int64{"load32": 1, "cas32": 2, "store32": 3, "load64": 4, "cas64": 5}

var amounts = []uint64{1, 1, 1, 2, 3, 5}

type scen struct {
	kind    string
	meta    string
	progs   [][]op
	solo    int   // thread 0 runs alone for this many of its own steps first (-1: to completion)
	fixed   []int // fixed schedule prefix (thread indices), then random
	late    []bool
	kills   []int // per thread: kill before its k-th own step (-1 never)
	swCas   int   // percent: switch away when parked before a CAS
	stay    int   // percent: stay with the last thread otherwise
	pl      *pool
	exhaust []int                       // preemption plan (exhaustive kind)
	setup   []op                        // run sequentially by a setup handle before the processes start
	damage  func(path string, H uint32) // then applied to the file (damaged-start scenarios)
	// driver, when set, chooses the next thread from the decoded file and the
	// operation each spawned thread is parked before (label, file offset)
	driver func(v view, pending func(i int) (string, uint32, bool), runnable func(i int) bool) int
}

func newProg(names []int, nops int, adds int) []op {
	var p []op
	for i := 0; i < nops; i++ {
		p = append(p, op{isNew: true, name: Pick(rnd, names)})
		na := rnd.Intn(adds + 1)
		for j := 0; j < na; j++ {
			p = append(p, op{k: Pick(rnd, amounts)})
		}
	}
	return p
}

func metaOfLen(n int) string {
	s := "TimeBegin: 2024-01-03T00:00:00Z\nTimeEnd: 2024-01-10T00:00:00Z\nProgram: p\n"
	if n < len(s)+2 {
		return s[:n]
	}
	return s + "X: " + strings.Repeat("m", n-len(s)-5) + "\n\n"
}

func hdrLenOf(meta string) uint32 { return roundUp(uint32(28+4+len(meta)), 32) }

// the known finding (DESIGN section 8, #4): B reserves and writes its record
// on page 1 and is about to link; A fills page 1, extends the file and links
// a record of B's bucket on page 2; B's head CAS fails and its duplicate walk
// meets a record beyond its one-page mapping
func witness4() scen {
	sc := scen{kind: "witness4", meta: metaOfLen(60), pl: base.clone(), swCas: 0, stay: 100}
	sc.progs = [][]op{
		{{isNew: true, name: idLong1}, {isNew: true, name: idLong2}, {isNew: true, name: idLong3}, {isNew: true, name: idHotLong}, {k: 1}},
		{{isNew: true, name: idHot1}, {k: 2}},
	}
	sc.late = []bool{false, false}
	sc.kills = []int{-1, -1}
	// B: load head, load limit, cas limit, store len, store next  (parked before the head CAS)
	sc.fixed = []int{1, 1, 1, 1, 1}
	for i := 0; i < 200; i++ {
		sc.fixed = append(sc.fixed, 0)
	}
	return sc
}

func randomScen() scen {
	sc := scen{pl: base.clone()}
	sc.kind = Pick(rnd, []string{"fresh", "fresh", "hot", "hot", "pre", "pre", "grow", "grow", "tail", "mixed", "mixed", "big"})
	sc.meta = metaOfLen(Pick(rnd, []int{10, 30, 60, 93, 200, 480, 512}))
	H := hdrLenOf(sc.meta)
	nth := 2 + rnd.Intn(3)
	hot := []int{idHot1, idHot2, idHot3}
	cold := []int{idCold1, idCold2}
	shorts := []int{idShort1, idShort2, idShort3, idShort4, idOne}
	longs := []int{idLong1, idLong2, idLong3, idLong4, idHotLong, idMax}
	sc.solo = 0
	switch sc.kind {
	case "fresh":
		// everybody starts on the empty file; mostly the same few names
		names := append(append([]int{}, hot...), idCold1, idShort1)
		for i := 0; i < nth; i++ {
			sc.progs = append(sc.progs, newProg(names, 1+rnd.Intn(2), 2))
		}
	case "hot":
		// same name / same bucket races only
		names := hot
		if rnd.Chance(30) {
			names = []int{idHot1}
		}
		if rnd.Chance(20) {
			names = append(append([]int{}, hot...), idHotMid)
		}
		for i := 0; i < nth; i++ {
			sc.progs = append(sc.progs, newProg(names, 1+rnd.Intn(2), 2))
		}
	case "pre":
		// thread 0 populates the file alone (possibly growing it), the others
		// opened before or after that
		names := append(append(append([]int{}, hot...), cold...), longs...)
		sc.progs = append(sc.progs, newProg(names, 3+rnd.Intn(4), 1))
		sc.solo = -1
		if rnd.Chance(40) {
			sc.solo = 5 + rnd.Intn(40)
		}
		names2 := append(append(append([]int{}, hot...), cold...), idHotLong, idHotMid, idShort2)
		for i := 1; i < nth; i++ {
			sc.progs = append(sc.progs, newProg(names2, 1+rnd.Intn(2), 2))
		}
	case "grow":
		// long names: extension races, stale mappings, same-bucket records on later pages
		names := append(append([]int{}, longs...), idHot1, idHot2, idHotMid)
		for i := 0; i < nth; i++ {
			sc.progs = append(sc.progs, newProg(names, 2+rnd.Intn(3), 1))
		}
	case "tail":
		// records sized to end exactly at / one unit before the end of page 1
		first := roundUp(H+4+4*numHash, unit)
		room := pageSize - first // multiple of 32
		// three fillers of 4096 bytes, then a name that would end exactly at the page end
		fill := 3 * 4096                                         // record size of a 4080-byte name
		rest := int(room) - fill                                 // bytes left on page 1
		exact := sc.pl.add(findName("TE", rest-16, -1, nil))     // record size == rest: reaches the page end -> next page
		fits := sc.pl.add(findName("TF", rest-16-32, -1, nil))   // one unit less: last record that fits
		almost := sc.pl.add(findName("TA", rest-16-31, -1, nil)) // rounds up to rest: next page
		sc.progs = append(sc.progs, []op{{isNew: true, name: idLong1}, {isNew: true, name: idLong2}, {isNew: true, name: idLong3}})
		sc.solo = -1
		cands := []int{exact, fits, almost, idShort1, idHot1}
		for i := 1; i < nth; i++ {
			pr := newProg(cands, 1+rnd.Intn(2), 1)
			if i == 1 && rnd.Chance(60) {
				// the first record after the fillers is the one that would end exactly at the page end
				pr[0].name = exact
			}
			sc.progs = append(sc.progs, pr)
		}
	case "mixed":
		names := append(append(append(append([]int{}, hot...), cold...), shorts...), longs...)
		names = append(names, idHotMid, idTooLong, idEmpty)
		for i := 0; i < nth; i++ {
			sc.progs = append(sc.progs, newProg(names, 1+rnd.Intn(4), 2))
		}
	case "big":
		// saturating amounts on one cell
		for i := 0; i < nth; i++ {
			sc.progs = append(sc.progs, []op{{isNew: true, name: idHot1}, {k: 1 << 63}, {k: Pick(rnd, []uint64{1 << 63, 1<<63 - 1, 1})}})
		}
	}
	sc.late = make([]bool, len(sc.progs))
	sc.kills = make([]int, len(sc.progs))
	killing := rnd.Chance(45)
	for i := range sc.progs {
		sc.late[i] = rnd.Chance(40)
		sc.kills[i] = -1
		if killing && rnd.Chance(50) {
			sc.kills[i] = rnd.Intn(30)
		}
	}
	sc.swCas = Pick(rnd, []int{20, 60, 90})
	sc.stay = Pick(rnd, []int{30, 60, 85})
	return sc
}

// the empty counter name (known finding "empty-name")
func emptyScen() scen {
	sc := scen{kind: "empty", meta: metaOfLen(60), pl: base.clone(), swCas: 50, stay: 50}
	sc.progs = [][]op{
		{{isNew: true, name: idEmpty}, {k: 1}},
		{{isNew: true, name: idShort1}, {k: 1}, {isNew: true, name: idEmpty}},
	}
	sc.late = []bool{false, false}
	sc.kills = []int{-1, -1}
	sc.solo = -1
	return sc
}

// the second route to a survivor's errCorrupt (model witness t_sched of
// Proofs/FileConcWitness.v): P0 keeps creating long records of the hot
// bucket; P1, on a one-page mapping, looks up a name of that bucket; each
// time P1 has re-mapped, P0 links a record beyond P1's new mapping before P1
// reads the bucket head again.  After the tenth remap newCounter gives up.
func witnessTries() scen { return witnessRemap("witness-tries", 48) }

// remap-twice: the same race, but the extending process stops after the file has grown twice under the
// other's feet: the looking-up process must re-map twice and then succeed
func remapTwice() scen {
	sc := witnessRemap("remap-twice", 9)
	sc.progs[1] = append(sc.progs[1], op{k: 3})
	return sc
}

func witnessRemap(kind string, nlong int) scen {
	sc := scen{kind: kind, meta: metaOfLen(60), pl: base.clone(), swCas: 0, stay: 100}
	var p0 []op
	for k := 0; k < nlong; k++ {
		p0 = append(p0, op{isNew: true, name: sc.pl.add(findName("WT"+strconv.Itoa(k)+"-", 4080, int(hotBucket), nil))})
	}
	sc.progs = [][]op{p0, {{isNew: true, name: idHot1}}}
	sc.late = []bool{false, false}
	sc.kills = []int{-1, -1}
	H := hdrLenOf(sc.meta)
	headOff := H + 4 + 4*hotBucket
	mapLen := uint32(pageSize) // P1's current mapping length
	burst := 0                 // P1 steps taken in the current burst (0: P0's turn)
	sc.driver = func(v view, pending func(i int) (string, uint32, bool), runnable func(i int) bool) int {
		if !runnable(1) {
			return 0
		}
		if !runnable(0) {
			return 1
		}
		_, _, spawned := pending(1)
		if !spawned {
			return 1
		}
		if burst > 0 {
			// P1 runs until it is parked before the next load of the bucket head
			lab, off, _ := pending(1)
			if lab == "load32" && off == headOff && burst >= 2 {
				burst = 0
				mapLen = v.size // it has just re-mapped the whole file
			} else {
				burst++
				return 1
			}
		}
		head := uint32(0)
		if c := v.chains[hotBucket]; len(c) > 0 {
			head = c[0].off
		}
		if head >= mapLen {
			burst = 1
			return 1
		}
		return 0
	}
	return sc
}

// shrink-race: the file size is state that extend may only grow.  P0 fills page 1 and starts
// page 2; P2 (opened after that) needs a third page for a long record: it extends the file and is
// parked before its limit CAS; P1, still on its one-page mapping, records a small counter that
// fits page 2: its extend must not set the file back to two pages.
func shrinkRace() scen {
	sc := scen{kind: "shrink-race", meta: metaOfLen(60), pl: base.clone(), swCas: 0, stay: 100}
	long := func(k int) int { return sc.pl.add(findName("SR"+strconv.Itoa(k)+"-", 4080, -1, nil)) }
	sc.progs = [][]op{
		{{isNew: true, name: long(0)}, {isNew: true, name: long(1)}, {isNew: true, name: long(2)}, {isNew: true, name: long(3)}},
		{{isNew: true, name: idShort1}, {k: 2}},
		{{isNew: true, name: long(4)}, {isNew: true, name: long(5)}, {isNew: true, name: long(6)}, {k: 1}},
	}
	sc.late = []bool{false, false, true}
	sc.kills = []int{-1, -1, -1}
	sc.driver = func(v view, pending func(i int) (string, uint32, bool), runnable func(i int) bool) int {
		switch {
		case runnable(0):
			return 0
		case runnable(2) && v.size < 3*pageSize:
			return 2 // until it has extended the file to three pages
		case runnable(1):
			return 1
		default:
			return 2
		}
	}
	return sc
}

// ---- one PROCESS with two goroutines (the real `file`: f.mu, f.current, Counter.Add) sharing its
// counter file with another process (an independent handle) that has extended the file.  Goroutine
// A's first Add of a counter needs the extended part: under f.mu it re-maps / extends, publishes the
// new mapping, invalidates the counters and closes the old mapping.  Goroutine B makes the first Add
// of another counter.  B is run for k steps, then A to completion, then B to completion, for every k
// (and the other way round): B's call straddles A's critical section at every possible point.
// Oracle only (no model in this suite; the model of f.mu / lookup is C03's): no panic, no hang, no
// access through a closed mapping, counts not invented.
func twoGoroutinesCase(k int, first int, foreign string) {
	if tooLong() {
		return
	}
	dir, err := os.MkdirTemp(root, "g")
	if err != nil {
		panic(err)
	}
	defer os.RemoveAll(dir)
	telemetry.Default = telemetry.NewDir(dir)
	now := time.Date(2024, 1, 3, 10, 0, 0, 0, time.UTC)
	counter.CounterTime = func() time.Time { return now }
	os.MkdirAll(telemetry.Default.LocalDir(), 0777)
	os.WriteFile(filepath.Join(telemetry.Default.LocalDir(), "weekends"), []byte("0\n"), 0666)
	vatomic.ResetClosed()
	maps = nil
	f := counter.VerifNewFile()
	f.Rotate1()
	// the other process
	hp, err := counter.VerifForeignHandle(f)
	if err != nil {
		panic(err)
	}
	switch foreign {
	case "extended": // it has grown the file: the limit lies beyond this process's mapping
		for i := 0; i < 4; i++ {
			_, m1, err := hp.NewCounter(base.names[idLong1+i])
			if err != nil {
				panic(err)
			}
			if m1 != nil {
				hp = m1
			}
		}
	case "extended-same-bucket": // ... and linked a record of A's bucket beyond this process's mapping
		for _, id := range []int{idLong1, idLong2, idLong3, idHotLong} {
			_, m1, err := hp.NewCounter(base.names[id])
			if err != nil {
				panic(err)
			}
			if m1 != nil {
				hp = m1
			}
		}
	case "none":
	}
	cA := f.NewCounter(base.names[idHot1])
	cB := f.NewCounter(base.names[idShort1])
	s := vsched.New(false)
	tA := s.Go(func() { cA.Add(1) })
	tB := s.Go(func() { cB.Add(2) })
	order := []int{tB, tA}
	if first == 1 {
		order = []int{tA, tB}
	}
	steps := 0
	run := func(tid int) bool {
		if s.Done(tid) {
			return false
		}
		s.Step(tid)
		steps++
		return true
	}
	for i := 0; i < k && !s.Done(order[0]); i++ {
		run(order[0])
		if s.Last(order[0]).Blocked {
			break
		}
	}
	budget := 20000
	for !s.Done(order[1]) && budget > 0 {
		budget--
		run(order[1])
		if !s.Done(order[1]) && s.Last(order[1]).Blocked {
			if !run(order[0]) {
				break
			}
		}
	}
	for !s.Done(order[0]) && budget > 0 {
		budget--
		run(order[0])
	}
	status := "ok"
	if budget == 0 {
		status = "hang"
		nHangs++
	}
	for _, tid := range []int{tA, tB} {
		if p := s.Last(tid).Panic; p != "" {
			status = "panic"
			if debug {
				fmt.Fprintln(os.Stderr, p)
			}
		}
	}
	nuse := 0
	for _, e := range s.Events {
		if strings.HasPrefix(e, "USE-AFTER-UNMAP") {
			nuse++
		}
	}
	vsched.Stop()
	var extraA, extraB, persA, persB uint64
	if status == "ok" {
		extraA, extraB = counter.VerifExtra(cA), counter.VerifExtra(cB)
		if name := f.CurrentName(); name != "" {
			if d, err := os.ReadFile(name); err == nil {
				v := decode(d, le32(d, 28), base.clone())
				for _, ch := range v.chains {
					for _, e := range ch {
						switch e.id {
						case idHot1:
							persA = e.val
						case idShort1:
							persB = e.val
						}
					}
				}
			}
		}
	}
	out.Case(true, "fp", foreign, I(int64(k)), I(int64(first)), status, I(int64(nuse)), U(extraA), U(persA), U(extraB), U(persB), I(int64(steps)))
	out.Note("two-goroutines-" + foreign)
	hp.Close()
	f.Close()
}

func twoGoroutinesCases(thorough bool) int {
	n := 0
	maxK := 30
	if thorough {
		maxK = 70
	}
	for _, fg := range []string{"extended", "extended-same-bucket", "none"} {
		for first := 0; first < 2; first++ {
			for k := 0; k <= maxK; k++ {
				twoGoroutinesCase(k, first, fg)
				n++
			}
		}
	}
	return n
}

// damaged-start scenarios (outside the model: the initial file is NOT well
// formed).  Only the oracles hang / panic / "a damaged file is not made
// worse" are evaluated; they exercise the guards of newCounter that the
// theorem C04_failures_classified shows to be dead code on well-formed files.
func dmgLimitScen() scen {
	sc := scen{kind: "dmg-limit", meta: metaOfLen(60), pl: base.clone(), swCas: 50, stay: 50}
	sc.setup = []op{{isNew: true, name: idShort1}, {k: 5}}
	sc.damage = func(path string, H uint32) {
		f, err := os.OpenFile(path, os.O_RDWR, 0)
		if err != nil {
			panic(err)
		}
		defer f.Close()
		var b [4]byte
		binary.LittleEndian.PutUint32(b[:], 40) // a small, non-zero allocation limit
		if _, err := f.WriteAt(b[:], int64(H)); err != nil {
			panic(err)
		}
	}
	names := []int{idHot1, idHot2, idHot3, idCold1, idCold2, idShort2, idShort3, idShort4, idOne, idHotMid,
		sc.pl.add(findName("dl", 9, -1, nil)), sc.pl.add(findName("dm", 12, -1, nil))}
	var p0, p1 []op
	for i, n := range names {
		if i%2 == 0 {
			p0 = append(p0, op{isNew: true, name: n})
		} else {
			p1 = append(p1, op{isNew: true, name: n})
		}
	}
	sc.progs = [][]op{p0, p1}
	sc.late = []bool{true, true}
	sc.kills = []int{-1, -1}
	return sc
}

func dmgCycleScen() scen {
	sc := scen{kind: "dmg-cycle", meta: metaOfLen(60), pl: base.clone(), swCas: 50, stay: 50}
	sc.setup = []op{{isNew: true, name: idHot1}, {k: 3}}
	sc.damage = func(path string, H uint32) {
		d, err := os.ReadFile(path)
		if err != nil {
			panic(err)
		}
		off := le32(d, H+4+4*hotBucket) // the record of idHot1
		f, err := os.OpenFile(path, os.O_RDWR, 0)
		if err != nil {
			panic(err)
		}
		defer f.Close()
		var b [4]byte
		binary.LittleEndian.PutUint32(b[:], off) // next := itself
		if _, err := f.WriteAt(b[:], int64(off+12)); err != nil {
			panic(err)
		}
	}
	sc.progs = [][]op{{{isNew: true, name: idHot2}}, {{isNew: true, name: idHot1}, {k: 1}, {isNew: true, name: idHot3}}}
	sc.late = []bool{true, true}
	sc.kills = []int{-1, -1}
	return sc
}

// a bucket head that points into the middle of a record (not 8-byte aligned):
// entryAt rejects it since fix a01a83c
func dmgUnalignedScen() scen {
	sc := dmgCycleScen()
	sc.kind = "dmg-unaligned"
	sc.damage = func(path string, H uint32) {
		d, err := os.ReadFile(path)
		if err != nil {
			panic(err)
		}
		off := le32(d, H+4+4*hotBucket)
		f, err := os.OpenFile(path, os.O_RDWR, 0)
		if err != nil {
			panic(err)
		}
		defer f.Close()
		var b [4]byte
		binary.LittleEndian.PutUint32(b[:], off+4)
		if _, err := f.WriteAt(b[:], int64(H+4+4*hotBucket)); err != nil {
			panic(err)
		}
	}
	return sc
}

// exhaustive: every schedule of two tiny same-bucket programs with at most
// three preemptions, optionally killing one of them at a given step
type exhState struct {
	plans [][]int
	next  int
}

var exh exhState

func buildExhaustive() {
	// a plan: [variant, killThread(-1/0/1), killAt, p1, p2, p3] ; preemption
	// points are positions in the global step sequence at which the running
	// thread changes (ascending, 0 = unused)
	const maxPos = 14
	for variant := 0; variant < 3; variant++ {
		for p1 := 0; p1 <= maxPos; p1++ {
			for p2 := 0; p2 <= maxPos; p2++ {
				if p2 != 0 && p2 <= p1 {
					continue
				}
				if p1 == 0 && p2 != 0 {
					continue
				}
				for p3 := 0; p3 <= maxPos; p3++ {
					if p3 != 0 && p3 <= p2 {
						continue
					}
					if p2 == 0 && p3 != 0 {
						continue
					}
					for first := 0; first < 2; first++ {
						exh.plans = append(exh.plans, []int{variant, -1, 0, p1, p2, p3, first})
					}
				}
			}
		}
		// kills: thread 0 killed before its k-th step, the other runs after/before with one preemption
		for k := 0; k <= 12; k++ {
			for p1 := 0; p1 <= maxPos; p1++ {
				exh.plans = append(exh.plans, []int{variant, 0, k, p1, 0, 0, 0})
				exh.plans = append(exh.plans, []int{variant, 0, k, p1, 0, 0, 1})
			}
		}
	}
}

func exhScen(plan []int) scen {
	sc := scen{kind: "exh", meta: metaOfLen(30), pl: base.clone(), swCas: 0, stay: 100}
	switch plan[0] {
	case 0: // same name
		sc.progs = [][]op{{{isNew: true, name: idHot1}, {k: 1}}, {{isNew: true, name: idHot1}, {k: 2}}}
	case 1: // same bucket, different names
		sc.progs = [][]op{{{isNew: true, name: idHot1}, {k: 1}}, {{isNew: true, name: idHot2}, {k: 2}}}
	case 2: // different buckets (limit race only)
		sc.progs = [][]op{{{isNew: true, name: idHot1}, {k: 1}}, {{isNew: true, name: idShort1}, {k: 2}}}
	}
	sc.late = []bool{false, false}
	sc.kills = []int{-1, -1}
	if plan[1] >= 0 {
		sc.kills[plan[1]] = plan[2]
	}
	sc.exhaust = plan
	return sc
}

var nHangs int
var startWall = time.Now()

// tooLong: the code under test misbehaves widely (scenarios run into their step budget, or everything is
// slow): stop generating, so that the quick tier stays bounded; what has been found is reported
func tooLong() bool {
	return nHangs >= 4 || time.Since(startWall) > 150*time.Second
}

func runScen(sc scen) {
	if tooLong() {
		out.Note("skipped-after-hangs")
		return
	}
	dir, err := os.MkdirTemp(root, "f")
	if err != nil {
		panic(err)
	}
	defer os.RemoveAll(dir)
	path := filepath.Join(dir, "c.count")
	maps = nil
	vatomic.ResetClosed()
	H := hdrLenOf(sc.meta)
	out.Note("kind-" + sc.kind)
	out.Note(fmt.Sprintf("threads-%d", len(sc.progs)))

	// the file exists from the start (created by a handle that is then dropped)
	h0, err := counter.VerifOpenHandle(path, sc.meta)
	if err != nil {
		panic(err)
	}
	if h0.HdrLen() != H {
		panic(fmt.Sprintf("hdrLen %d != %d", h0.HdrLen(), H))
	}
	if sc.setup != nil {
		var cell *vatomic.Uint64
		for _, o := range sc.setup {
			if o.isNew {
				c, m1, err := h0.NewCounter(sc.pl.names[o.name])
				if err != nil || m1 != nil {
					panic("setup newCounter")
				}
				cell = c
			} else {
				counter.VerifCellAdd(h0, cell, o.k)
			}
		}
	}
	if sc.damage != nil {
		sc.damage(path, H)
	}

	n := len(sc.progs)
	ts := make([]*tstate, n)
	tids := make([]int, n)
	own := make([]int, n) // own steps taken
	for i := range ts {
		ts[i] = &tstate{killAt: sc.kills[i], openLate: sc.late[i]}
		tids[i] = -1
	}
	s := vsched.New(false)
	defer vsched.Stop()

	var events []string
	nevents := 0
	emit := func(f ...string) { events = append(events, f...); nevents++ }

	curLimit := uint32(0)
	curSize, maxSize := uint32(0), uint32(0)
	observe := func() view {
		d, err := os.ReadFile(path)
		if err != nil {
			panic(err)
		}
		v := decode(d, H, sc.pl)
		curLimit = v.limit
		curSize = v.size
		return v
	}
	lastObs := ""
	obsTokens := func() []string {
		t := observe().tokens()
		j := strings.Join(t, " ")
		if j == lastObs {
			return []string{"="}
		}
		lastObs = j
		return append([]string{"o"}, t...)
	}

	open := func(i int) {
		h, err := counter.VerifOpenHandle(path, sc.meta)
		if err != nil {
			panic(err)
		}
		ts[i].h = h
		emit("o", I(int64(i)), I(int64(h.Len())))
	}
	spawn := func(i int) {
		if ts[i].h == nil {
			open(i)
		}
		st := ts[i]
		prog := sc.progs[i]
		tids[i] = s.Go(func() {
			for _, o := range prog {
				if o.isNew {
					st.cell = nil
					st.callMaps, st.callReserved = 0, false
					held := st.h
					heldBase := held.Base()
					cell, m1, err := st.h.NewCounter(sc.pl.names[o.name])
					cls := counter.VerifErrClass(err)
					if held.Closed() || (heldBase != 0 && vatomic.IsClosedAddr(heldBase)) {
						st.callerClosed++
					}
					if err == nil {
						hh := st.h
						if m1 != nil {
							hh = m1
						}
						off := uint64(uintptr(unsafe.Pointer(cell)) - hh.Base())
						st.results = append(st.results, "cell", U(off))
						st.nres++
						st.cell = cell
						st.cellName = o.name
					} else {
						st.results = append(st.results, "err", cls, I(int64(st.callMaps)), B(st.callReserved))
						st.nres++
					}
					if m1 != nil {
						old := st.h
						st.h = m1
						old.Close()
					}
				} else if st.cell != nil {
					st.begun = append(st.begun, [2]uint64{uint64(st.cellName), o.k})
					counter.VerifCellAdd(st.h, st.cell, o.k)
					st.completed = append(st.completed, [2]uint64{uint64(st.cellName), o.k})
				}
			}
		})
	}
	// handles that are not "late" are opened now, on the one-page file
	for i := range ts {
		if !ts[i].openLate {
			open(i)
		}
	}
	initObs := obsTokens()[1:] // initial observation (always full)

	runnable := func(i int) bool {
		if tids[i] < 0 {
			return true
		}
		return !s.Done(tids[i]) && !s.Killed(tids[i])
	}
	anyRunnable := func() bool {
		for i := range ts {
			if runnable(i) {
				return true
			}
		}
		return false
	}
	budget := 6000
	hang := false
	shrunk := false
	panicked := ""
	last := -1
	fixedPos := 0
	soloLeft := sc.solo
	gstep := 0 // global count of steps taken (exhaustive plans)
	cur := 0
	if sc.exhaust != nil {
		cur = sc.exhaust[6]
	}
	for anyRunnable() {
		if budget == 0 {
			hang = true
			break
		}
		budget--
		// ---- choose ----
		i := -1
		switch {
		case sc.driver != nil:
			i = sc.driver(observe(), func(j int) (string, uint32, bool) {
				if tids[j] < 0 {
					return "", 0, false
				}
				l := s.Last(tids[j])
				off, _ := fileOff(l.Addr)
				return l.Label, off, true
			}, runnable)
		case sc.exhaust != nil:
			for _, p := range sc.exhaust[3:6] {
				if p != 0 && p == gstep {
					cur = 1 - cur
				}
			}
			if !runnable(cur) {
				cur = 1 - cur
			}
			i = cur
		case fixedPos < len(sc.fixed):
			i = sc.fixed[fixedPos]
			fixedPos++
			if !runnable(i) {
				continue
			}
		case soloLeft != 0 && runnable(0):
			i = 0
			if soloLeft > 0 {
				soloLeft--
			}
		default:
			soloLeft = 0
			var cand []int
			for j := range ts {
				if runnable(j) {
					cand = append(cand, j)
				}
			}
			i = cand[rnd.Intn(len(cand))]
			if last >= 0 && runnable(last) {
				atCas := tids[last] >= 0 && strings.HasPrefix(s.Last(tids[last]).Label, "cas")
				if atCas {
					if !rnd.Chance(sc.swCas) {
						i = last
					}
				} else if rnd.Chance(sc.stay) {
					i = last
				}
			}
		}
		last = i
		if tids[i] < 0 {
			spawn(i)
			if info := s.Last(tids[i]); info.Panic != "" {
				panicked = info.Panic
				break
			}
			continue
		}
		if ts[i].killAt >= 0 && own[i] >= ts[i].killAt {
			s.Kill(tids[i])
			emit("k", I(int64(i)))
			out.Note("kill")
			continue
		}
		pre := s.Last(tids[i])
		limBefore := curLimit
		curT = ts[i]
		info := s.Step(tids[i])
		curT = nil
		own[i]++
		gstep++
		if info.Panic != "" {
			panicked = info.Panic
		}
		off, inFile := fileOff(pre.Addr)
		ot := obsTokens()
		if inFile && pre.Label == "cas32" && off == H && curLimit != limBefore {
			ts[i].callReserved = true
		}
		if !inFile && ot[0] == "=" {
			// a yield point outside the file (sync.Once in mappedFile.close): no file effect
			if debug {
				fmt.Fprintf(os.Stderr, "  t%d %s (not in file)\n", i, pre.Label)
			}
			if panicked != "" {
				break
			}
			continue
		}
		kind := kindOf[pre.Label]
		if !inFile {
			kind = 0
		}
		st := ts[i]
		f := []string{"s", I(int64(i)), I(kind), U(uint64(off))}
		f = append(f, ot...)
		f = append(f, I(int64(len(st.begun)-st.sentB)))
		for _, b := range st.begun[st.sentB:] {
			f = append(f, U(b[0]), U(b[1]))
		}
		st.sentB = len(st.begun)
		f = append(f, I(int64(len(st.completed)-st.sentC)))
		for _, b := range st.completed[st.sentC:] {
			f = append(f, U(b[0]), U(b[1]))
		}
		st.sentC = len(st.completed)
		f = append(f, B(s.Done(tids[i])))
		emit(f...)
		if debug {
			fmt.Fprintf(os.Stderr, "  t%d %s@%#x -> next %s done=%v results=%v\n", i, pre.Label, off, info.Label, info.Done, st.results)
		}
		if curSize < maxSize {
			// the file has become SHORTER: stop here (an access through a mapping of the former
			// length would fault); the runner reports the decrease
			shrunk = true
			break
		}
		maxSize = curSize
		if panicked != "" {
			break
		}
	}
	status := "ok"
	if shrunk {
		status = "shrunk"
	} else if hang {
		nHangs++
		status = "hang"
	} else if panicked != "" {
		status = "panic"
		fmt.Fprintln(os.Stderr, panicked)
	}
	nuse := 0
	for _, e := range s.Events {
		if strings.HasPrefix(e, "USE-AFTER-UNMAP") {
			nuse++
		}
	}
	// ---- the case line ----
	fields := []string{"fc", sc.kind, status, U(uint64(H)), I(int64(nuse))}
	// name table: every name seen (pool + decoded), sorted by id
	ids := make([]int, 0, len(sc.pl.names))
	for id := 1; id < len(sc.pl.names); id++ {
		ids = append(ids, id)
	}
	sort.Ints(ids)
	fields = append(fields, I(int64(len(ids))))
	for _, id := range ids {
		nm := sc.pl.names[id]
		fields = append(fields, I(int64(id)), I(int64(len(nm))), U(uint64(fnv(nm))))
	}
	fields = append(fields, I(int64(n)))
	for i := range sc.progs {
		fields = append(fields, I(int64(len(sc.progs[i]))))
		for _, o := range sc.progs[i] {
			if o.isNew {
				fields = append(fields, "new", I(int64(o.name)))
			} else {
				fields = append(fields, "add", U(o.k))
			}
		}
	}
	fields = append(fields, initObs...) // initial observation
	fields = append(fields, I(int64(nevents)))
	fields = append(fields, events...)
	for i := range ts {
		killed := tids[i] >= 0 && s.Killed(tids[i])
		done := tids[i] >= 0 && s.Done(tids[i])
		ml := int64(0)
		if ts[i].h != nil {
			ml = int64(ts[i].h.Len())
		}
		fields = append(fields, B(killed), B(done), I(ml), I(int64(ts[i].callerClosed)), I(int64(ts[i].nres)))
		fields = append(fields, ts[i].results...)
	}
	out.Case(true, fields...)
	if debug {
		fmt.Fprintln(os.Stderr, "---- "+sc.kind+" "+status)
	}
	for i := range ts {
		if ts[i].h != nil {
			ts[i].h.Close()
		}
	}
	h0.Close()
}

func main() {
	outPath := os.Args[1]
	n, _ := strconv.Atoi(os.Args[2])
	rnd = NewRand(Seed())
	out = NewOut(outPath)
	var err error
	root, err = os.MkdirTemp("", "vh_fileconc")
	if err != nil {
		panic(err)
	}
	defer os.RemoveAll(root)
	counter.VerifConcInit()
	counter.VerifMemmapHook(func(base uintptr, n int) {
		maps = append(maps, mapping{base, uintptr(n)})
		if curT != nil {
			curT.callMaps++
		}
	})
	buildPool()
	buildExhaustive()
	thorough := os.Getenv("VERIF_TIER") == "thorough" || n >= 3000
	runScen(witness4())
	runScen(witnessTries())
	runScen(remapTwice())
	runScen(shrinkRace())
	runScen(emptyScen())
	runScen(dmgLimitScen())
	runScen(dmgCycleScen())
	runScen(dmgUnalignedScen())
	nfp := twoGoroutinesCases(thorough)
	nexh := n / 4
	if thorough {
		nexh = len(exh.plans)
	}
	if nexh > len(exh.plans) {
		nexh = len(exh.plans)
	}
	// quick: a deterministic sample of the plans (stride), thorough: all of them
	stride := 1
	if nexh > 0 {
		stride = len(exh.plans) / nexh
	}
	for k := 0; k < nexh; k++ {
		off := 0
		if stride > 1 {
			off = int(Seed() % uint64(stride))
		}
		runScen(exhScen(exh.plans[(k*stride+off)%len(exh.plans)]))
	}
	for i := 8 + nexh + nfp; i < n; i++ {
		runScen(randomScen())
	}
	out.Close()
}
