// vh_fault: correspondence harness for the counter-file half of C05.
//
// (a) "rest" cases: a counter file is built with the real code, damaged at
// rest (targeted damage of the limit, bucket heads, record lengths, next
// links, truncation, random bytes), opened with the real openMapped, and a few
// lookups / newCounter / add calls run on it, each as a managed thread under
// the deterministic scheduler with a step budget and a recover().  The file
// bytes before the calls and the byte changes made by every call travel to
// the OCaml runner, which runs Model/FileRest on the same bytes.
//
// (b) "plan" cases: the real rotate1 / openMapped / extend / weekEnd run with
// a fault plan (call index -> error kind) installed in the os shim vosc.
package main

import (
	"encoding/binary"
	"fmt"
	mrand "math/rand"
	"os"
	"os/exec"
	"path/filepath"
	"sort"
	"strconv"
	"strings"
	"time"
	"unsafe"

	"golang.org/x/telemetry/internal/counter"
	"golang.org/x/telemetry/internal/telemetry"
	"golang.org/x/telemetry/internal/verifh/shim/vatomic"
	"golang.org/x/telemetry/internal/verifh/shim/vosc"
	"golang.org/x/telemetry/internal/verifh/shim/vsched"
	. "golang.org/x/telemetry/internal/verifh/vhlib"
)

var rnd *Rand
var out *Out
var root string
var debug = os.Getenv("VH_DEBUG") != ""

const (
	pageSize = 16384
	numHash  = 512
	unit     = 32
	maxRead  = 1 << 20 // bytes of the file that are compared
)

func fnv(name string) uint32 {
	h := uint32(2166136261)
	for i := 0; i < len(name); i++ {
		h ^= uint32(name[i])
		h *= 16777619
	}
	return (h ^ (h >> 16)) % numHash
}

func roundUp(x, u uint32) uint32 { return (x + u - 1) / u * u }
func le32(d []byte, off uint32) uint32 {
	if int(off)+4 > len(d) {
		return 0
	}
	return binary.LittleEndian.Uint32(d[off:])
}
func put32(d []byte, off uint32, v uint32) {
	if int(off)+4 <= len(d) {
		binary.LittleEndian.PutUint32(d[off:], v)
	}
}

func findName(prefix string, n int, b int) string {
	for k := 0; ; k++ {
		s := prefix + strconv.Itoa(k)
		if len(s) < n {
			s += strings.Repeat("q", n-len(s))
		}
		if b < 0 || fnv(s) == uint32(b) {
			return s
		}
	}
}

func metaOfLen(n int) string {
	s := "TimeBegin: 2024-01-03T00:00:00Z\nTimeEnd: 2024-01-10T00:00:00Z\nProgram: p\n"
	if n < len(s)+2 {
		return s[:n]
	}
	return s + "X: " + strings.Repeat("m", n-len(s)-5) + "\n\n"
}
func hdrLenOf(meta string) uint32 { return roundUp(uint32(28+4+len(meta)), 32) }

// ---- independent decoder: well-formed linked records of a byte image ----
type rec struct {
	off  uint32
	name string
	val  uint64
}

// farPath: when set, records beyond the part of the file that was read (the first maxRead bytes) are
// fetched from this file with ReadAt (a damaged limit can place a record just below 4 GiB)
var farPath string

func fetchFar(off uint32, n uint32) []byte {
	if farPath == "" {
		return nil
	}
	f, err := os.Open(farPath)
	if err != nil {
		return nil
	}
	defer f.Close()
	b := make([]byte, n)
	if _, err := f.ReadAt(b, int64(off)); err != nil {
		return nil
	}
	return b
}

func linked(d []byte, H uint32) []rec {
	var rs []rec
	seen := map[uint32]bool{}
	for b := uint32(0); b < numHash; b++ {
		off := le32(d, H+4+4*b)
		for n := 0; off != 0 && n <= len(d)/unit; n++ {
			if off < H+4+4*numHash || off%8 != 0 || seen[off] {
				break
			}
			var hd []byte // the 16 bytes value, length, next
			if uint64(off)+16 <= uint64(len(d)) {
				hd = d[off : off+16]
			} else if hd = fetchFar(off, 16); hd == nil {
				break
			}
			nl := binary.LittleEndian.Uint32(hd[8:]) & 0x00ffffff
			if nl == 0 || nl > 1<<20 {
				break
			}
			var nb []byte
			if uint64(off)+16+uint64(nl) <= uint64(len(d)) {
				nb = d[off+16 : off+16+nl]
			} else if nb = fetchFar(off+16, nl); nb == nil {
				break
			}
			seen[off] = true
			nm := string(nb)
			if fnv(nm) == b {
				rs = append(rs, rec{off, nm, binary.LittleEndian.Uint64(hd)})
			}
			off = binary.LittleEndian.Uint32(hd[12:])
		}
	}
	return rs
}

func readFile(path string) []byte {
	f, err := os.Open(path)
	if err != nil {
		panic(err)
	}
	defer f.Close()
	st, _ := f.Stat()
	n := st.Size()
	if n > maxRead {
		n = maxRead
	}
	b := make([]byte, n)
	if _, err := f.ReadAt(b, 0); err != nil && n > 0 {
		panic(err)
	}
	return b
}
func fileLen(path string) int64 {
	st, err := os.Stat(path)
	if err != nil {
		return -1
	}
	return st.Size()
}

// sparse image: runs of non-zero 32-byte units
func imageTokens(d []byte) []string {
	var t []string
	nruns := 0
	i := 0
	for i < len(d) {
		j := i + unit
		if j > len(d) {
			j = len(d)
		}
		zero := true
		for _, c := range d[i:j] {
			if c != 0 {
				zero = false
				break
			}
		}
		if zero {
			i = j
			continue
		}
		k := j
		for k < len(d) {
			e := k + unit
			if e > len(d) {
				e = len(d)
			}
			z := true
			for _, c := range d[k:e] {
				if c != 0 {
					z = false
					break
				}
			}
			if z {
				break
			}
			k = e
		}
		t = append(t, U(uint64(i)), H(d[i:k]))
		nruns++
		i = k
	}
	return append([]string{I(int64(nruns))}, t...)
}

// byte changes from a to b (b may be longer or shorter; missing bytes count as 0)
func diffTokens(a, b []byte) []string {
	var t []string
	n := len(a)
	if len(b) > n {
		n = len(b)
	}
	at := func(d []byte, i int) byte {
		if i < len(d) {
			return d[i]
		}
		return 0
	}
	nruns := 0
	for i := 0; i < n; {
		if at(a, i) == at(b, i) {
			i++
			continue
		}
		j := i
		var run []byte
		for j < n && (at(a, j) != at(b, j)) {
			run = append(run, at(b, j))
			j++
		}
		t = append(t, U(uint64(i)), H(run))
		nruns++
		i = j
	}
	return append([]string{I(int64(nruns))}, t...)
}

// ---- managed execution with a step budget ----
type mapping struct{ base, n uintptr }

var maps []mapping

var nHangs int

// widely hanging code: stop generating cases so that the run stays bounded
func tooManyHangs() bool { return nHangs >= 8 }

func runManaged(budget int, fn func()) (status string, steps int) {
	s := vsched.New(false)
	defer vsched.Stop()
	tid := s.Go(fn)
	for !s.Done(tid) {
		if steps >= budget {
			s.Kill(tid)
			nHangs++
			return "hang", steps
		}
		s.Step(tid)
		steps++
	}
	if p := s.Last(tid).Panic; p != "" {
		if debug {
			fmt.Fprintln(os.Stderr, p)
		}
		return "panic", steps
	}
	return "ok", steps
}

// ---- (a) damaged files at rest ----
type ropt struct {
	kind string // lookup | new | add
	name string
	k    uint64
}

var restNames []string // pool: existing and new names
var hotB uint32

func buildNames() {
	hotB = fnv("a0")
	restNames = []string{
		"a0", findName("b", 9, int(hotB)), findName("c", 20, int(hotB)), // same bucket
		"other/name", "x", findName("L", 4080, -1), findName("M", 1000, int(hotB)),
		findName("n", 7, -1), findName("new-hot", 12, int(hotB)), "zz-new", findName("N", 4080, -1),
	}
}

func restCase() {
	if tooManyHangs() {
		return
	}
	defer func() { farPath = "" }()
	dir, err := os.MkdirTemp(root, "r")
	if err != nil {
		panic(err)
	}
	defer os.RemoveAll(dir)
	path := filepath.Join(dir, "c.count")
	farPath = path
	meta := metaOfLen(Pick(rnd, []int{10, 60, 200, 512}))
	H := hdrLenOf(meta)
	maps = nil
	vatomic.ResetClosed()
	vosc.Reset(nil)

	// a clean file with some counters, made by the real code
	h, err := counter.VerifOpenHandle(path, meta)
	if err != nil {
		panic(err)
	}
	nexist := 1 + rnd.Intn(6)
	var existing []string
	for i := 0; i < nexist; i++ {
		nm := restNames[rnd.Intn(8)]
		if len(nm) > 100 && rnd.Chance(70) {
			nm = restNames[rnd.Intn(5)]
		}
		c, m1, err := h.NewCounter(nm)
		if err != nil {
			panic(err)
		}
		if m1 != nil {
			h.Close()
			h = m1
		}
		counter.VerifCellAdd(h, c, uint64(1+rnd.Intn(9)))
		existing = append(existing, nm)
	}
	h.Close()
	d := readFile(path)
	recs := linked(d, H)
	limit := le32(d, H)

	// ---- damage ----
	kind := Pick(rnd, []string{"none", "limit", "limit", "limit", "limit-huge", "head", "head", "reclen", "next", "next", "next", "shifted", "shifted",
		"trunc", "trunc", "random-tail", "random-all", "random-spot", "hdrlen"})
	out.Note("damage-" + kind)
	pickRec := func() rec {
		if len(recs) == 0 {
			return rec{off: roundUp(H+4+4*numHash, unit)}
		}
		return recs[rnd.Intn(len(recs))]
	}
	size := uint32(len(d))
	switch kind {
	case "limit":
		r := pickRec()
		v := Pick(rnd, []uint32{0, 40, H + 4, H + 100, H + 4 + 4*numHash, r.off, r.off + 8, r.off + 4, limit - 32, limit + 32,
			limit + 4, size - 32, size, size + 1, size + pageSize, size + 3*pageSize, 0xFFFFFF00, 0xFFFFC000, 0xFFFFFFF0, 0xFFFFC100})
		put32(d, H, v)
	case "limit-huge":
		// limits within 64 KiB .. 16 KiB of 4 GiB: no 32-bit overflow yet (the overflow test of fix 633eed3
		// passes), the record is placed just below 4 GiB and the file becomes a sparse 4 GiB file
		put32(d, H, Pick(rnd, []uint32{0xFFFF0000, 0xFFFF4000, 0xFFFF8020, 0xFFFFA000, 0xFFFFBF00, 0xFFFE0000}))
	case "head":
		r := pickRec()
		b := Pick(rnd, []uint32{fnv(r.name), hotB, fnv("zz-new"), uint32(rnd.Intn(numHash))})
		v := Pick(rnd, []uint32{0, r.off, pickRec().off, 8, H + 8, size + 32, size - 8, r.off + 4, r.off + 16, H + 4 + 4*b, limit, 0xFFFFFFFF})
		put32(d, H+4+4*b, v)
	case "reclen":
		r := pickRec()
		v := Pick(rnd, []uint32{0, 0xff000000, 0x00ffffff, 0xffffffff, size, uint32(len(r.name)) + 1, uint32(len(r.name)) - 1 | 0xff000000, 0xff000000 | (size - r.off)})
		put32(d, r.off+8, v)
	case "next":
		r := pickRec()
		o := pickRec()
		v := Pick(rnd, []uint32{r.off, o.off, 8, H + 8, size + 64, size - 4, r.off + 4, o.off + 12, 0xFFFFFFFF, limit})
		put32(d, r.off+12, v)
		if rnd.Chance(40) { // close a 2-cycle / a cycle through another bucket
			put32(d, o.off+12, r.off)
		}
	case "shifted":
		// a copy of a record at an offset that is not 32-byte aligned (4 mod 8: rejected since fix a01a83c;
		// 8 or 16 mod 32: accepted), linked from its bucket
		r := pickRec()
		if len(recs) > 0 {
			n := uint32(16 + len(r.name))
			dst := roundUp(limit, unit) + Pick(rnd, []uint32{4, 4, 12, 8, 16, 20})
			if dst+n+unit <= size {
				copy(d[dst:dst+n], d[r.off:r.off+n])
				put32(d, H+4+4*fnv(r.name), dst)
				put32(d, H, roundUp(dst+n, unit))
			}
		}
	case "trunc":
		k := rnd.Intn(len(d)/unit + 1)
		d = d[:k*unit]
	case "random-tail":
		copy(d[H:], rnd.Bytes(len(d)-int(H)))
		put32(d, H, Pick(rnd, []uint32{0, H + 4 + 4*numHash, size / 2, size, uint32(rnd.Intn(int(size)))}))
	case "random-all":
		d = rnd.Bytes(len(d))
	case "random-spot":
		o := rnd.Intn(len(d) - 64)
		copy(d[o:], rnd.Bytes(64))
		if lim := le32(d, H); lim > size+4*pageSize && lim < 0xFFFF0000 {
			put32(d, H, size) // keep the file small (a huge limit makes the code create a multi-GiB sparse file)
		}
	case "hdrlen":
		put32(d, 28, Pick(rnd, []uint32{0, 16, 31, 32, H + 32, 0xffffffff}))
	}
	if err := os.WriteFile(path, d, 0666); err != nil {
		panic(err)
	}

	// ---- open the damaged file with the real code ----
	var hd *counter.VerifHandle
	var openErr error
	st, _ := runManaged(20000, func() { hd, openErr = counter.VerifOpenHandle(path, meta) })
	fields := []string{"rest", kind, U(uint64(H))}
	if st != "ok" || openErr != nil {
		cls := st
		if st == "ok" {
			cls = "openerr"
		}
		fields = append(fields, cls)
		out.Case(true, fields...)
		return
	}
	fields = append(fields, "opened")
	cur := readFile(path)
	fields = append(fields, U(uint64(fileLen(path))))
	fields = append(fields, imageTokens(cur)...)

	// ---- calls ----
	nops := 1 + rnd.Intn(3)
	if kind == "limit-huge" {
		nops = 1 // the file may be 4 GiB long afterwards
	}
	var opsTok []string
	nrun := 0
	var cell *vatomic.Uint64
	cellName := ""
	for i := 0; i < nops; i++ {
		var o ropt
		switch {
		case cell != nil && rnd.Chance(45):
			o = ropt{kind: "add", name: cellName, k: Pick(rnd, []uint64{1, 2, 7, 1 << 63})}
		case rnd.Chance(25):
			o = ropt{kind: "lookup"}
		default:
			o = ropt{kind: "new"}
		}
		if o.kind != "add" {
			switch {
			case len(existing) > 0 && rnd.Chance(45):
				o.name = Pick(rnd, existing)
			default:
				o.name = Pick(rnd, restNames)
				if len(o.name) > 100 && rnd.Chance(60) {
					o.name = restNames[rnd.Intn(5)]
				}
			}
		}
		before := linked(cur, H)
		var res []string
		var m1 *counter.VerifHandle
		status, _ := runManaged(30000, func() {
			switch o.kind {
			case "lookup":
				c, ok := hd.Lookup(o.name)
				switch {
				case !ok:
					res = []string{"bad"}
				case c == nil:
					res = []string{"notfound"}
				default:
					res = []string{"cell", U(uint64(uintptr(unsafe.Pointer(c)) - hd.Base()))}
				}
			case "new":
				c, mm, err := hd.NewCounter(o.name)
				m1 = mm
				if err != nil {
					res = []string{"err", counter.VerifErrClass(err)}
					cell = nil
				} else {
					base := hd
					if mm != nil {
						base = mm
					}
					res = []string{"cell", U(uint64(uintptr(unsafe.Pointer(c)) - base.Base()))}
					cell, cellName = c, o.name
				}
			case "add":
				counter.VerifCellAdd(hd, cell, o.k)
				res = []string{"added"}
			}
		})
		if m1 != nil && status == "ok" {
			hd.Close()
			hd = m1
		}
		after := readFile(path)
		nrun++
		opsTok = append(opsTok, o.kind, HS(o.name), U(o.k), status)
		if status == "ok" {
			opsTok = append(opsTok, I(int64(len(res))))
			opsTok = append(opsTok, res...)
		}
		opsTok = append(opsTok, U(uint64(fileLen(path))))
		opsTok = append(opsTok, diffTokens(cur, after)...)
		// other counters: value cells of the well-formed linked records of other names
		var changed []string
		nch := 0
		still := map[string]bool{}
		for _, r := range linked(after, H) {
			still[r.name+"@"+strconv.Itoa(int(r.off))] = true
		}
		for _, r := range before {
			if r.name == o.name || int(r.off)+8 > len(after) {
				continue
			}
			v := binary.LittleEndian.Uint64(after[r.off:])
			switch {
			case v != r.val:
				changed = append(changed, "value", HS(r.name), U(uint64(r.off)), U(uint64(len(r.name))), U(r.val), U(v))
				nch++
			case !still[r.name+"@"+strconv.Itoa(int(r.off))]:
				// same value but no longer reachable as a well-formed record of its bucket
				changed = append(changed, "lost", HS(r.name), U(uint64(r.off)), U(uint64(len(r.name))), U(r.val), U(v))
				nch++
			}
		}
		maxEnd := uint64(0)
		for _, r := range before {
			if e := uint64(r.off) + 16 + uint64(len(r.name)); e > maxEnd {
				maxEnd = e
			}
		}
		opsTok = append(opsTok, U(maxEnd), I(int64(nch)))
		opsTok = append(opsTok, changed...)
		cur = after
		if status != "ok" {
			break
		}
	}
	fields = append(fields, I(int64(nrun)))
	fields = append(fields, opsTok...)
	out.Case(true, fields...)
	if hd != nil {
		hd.Close()
	}
}

// ---- (b) fault plans ----
type planStep struct{ idx, kind int }

// one run of the public flow under a plan
// modeStates: contents of the telemetry mode file (nil = no file)
var modeStates = []struct {
	name    string
	content []byte
}{
	{"absent", nil}, {"empty", []byte{}}, {"blank", []byte(" \n")}, {"tabs", []byte("\t\n \n")}, {"garbage", []byte("xyz")},
	{"off", []byte("off")}, {"off-nl", []byte("off\n")}, {"off-date", []byte("off 2024-01-01\n")}, {"on-date", []byte("on 2024-01-01")},
	{"local", []byte("local")}, {"long", []byte(strings.Repeat("a", 1500))}, {"spaces-off", []byte("   off   ")},
}

func planCase(variant string, steps []planStep) { planCaseMode(variant, 0, steps) }

func planCaseMode(variant string, modeIdx int, steps []planStep) {
	if tooManyHangs() {
		return
	}
	dir, err := os.MkdirTemp(root, "p")
	if err != nil {
		panic(err)
	}
	defer func() {
		os.Chmod(dir, 0777)
		os.RemoveAll(dir)
	}()
	telemetry.Default = telemetry.NewDir(dir)
	now := time.Date(2024, 1, 3, 10, 0, 0, 0, time.UTC)
	counter.CounterTime = func() time.Time { return now }
	planSeq++
	mrand.Seed(int64(Seed())*1000003 + planSeq) // weekEnd draws the weekday from math/rand
	maps = nil
	vatomic.ResetClosed()
	vosc.Reset(nil)
	local := telemetry.Default.LocalDir()
	mode := modeStates[modeIdx]
	// initial state of the directory
	wk := "absent"
	cf := "absent"
	switch variant {
	case "fresh":
	case "weekends-ok":
		os.MkdirAll(local, 0777)
		os.WriteFile(filepath.Join(local, "weekends"), []byte("2\n"), 0666)
		wk = "day"
	case "weekends-empty":
		os.MkdirAll(local, 0777)
		os.WriteFile(filepath.Join(local, "weekends"), []byte(" \n"), 0666)
		wk = "empty"
	case "weekends-garbage":
		os.MkdirAll(local, 0777)
		os.WriteFile(filepath.Join(local, "weekends"), []byte("x\n"), 0666)
		wk = "day"
	case "existing", "existing-short", "existing-badhdr":
		// a first, fault-free, run creates the file
		f0 := counter.VerifNewFile()
		f0.Rotate1()
		c0 := f0.NewCounter("seed")
		c0.Add(1)
		name := f0.CurrentName()
		f0.Close()
		wk = "day"
		cf = "valid"
		if variant == "existing-short" {
			os.Truncate(name, 100)
			cf = "short"
		}
		if variant == "existing-badhdr" {
			fd, _ := os.OpenFile(name, os.O_RDWR, 0)
			fd.WriteAt([]byte("garbage!"), 40)
			fd.Close()
			cf = "badhdr"
		}
	}
	// the mode file is put in place after the (fault-free, mode-less) preparation above
	if mode.content != nil {
		os.MkdirAll(filepath.Dir(telemetry.Default.ModeFile()), 0777)
		if err := os.WriteFile(telemetry.Default.ModeFile(), mode.content, 0666); err != nil {
			panic(err)
		}
	}
	day0, _ := os.ReadFile(filepath.Join(local, "weekends"))
	plan := map[int]int{}
	for _, s := range steps {
		plan[s.idx] = s.kind
	}
	f := counter.VerifNewFile()
	var openCalls int
	var parked, hasCur bool
	total := uint64(0)
	var extra, extraL uint64
	c := f.NewCounter("a")
	cl := []*counter.Counter{}
	vosc.Reset(plan)
	status, _ := runManaged(200000, func() {
		f.Rotate1()
		openCalls = vosc.Calls
		parked, hasCur = f.VerifParked()
		c.Add(3)
		c.Add(4)
		total = 7
		// four long names: the last one needs a second page (extend)
		for i := 0; i < 4; i++ {
			lc := f.NewCounter(restNames[5] + strconv.Itoa(i))
			cl = append(cl, lc)
			lc.Add(1)
		}
		c.Add(5)
		total = 12
	})
	calls := vosc.Calls
	log := append([]string(nil), vosc.Log...)
	fired := append([]int(nil), vosc.Fired...)
	vosc.Reset(nil)
	parked2, hasCur2 := false, false
	persisted := uint64(0)
	persistedL := uint64(0)
	if status == "ok" {
		parked2, hasCur2 = f.VerifParked()
		extra = counter.VerifExtra(c)
		for _, lc := range cl {
			extraL += counter.VerifExtra(lc)
		}
		if name := f.CurrentName(); name != "" {
			if d, err := os.ReadFile(name); err == nil {
				H := hdrLenOf(counter.VerifMeta(f))
				for _, r := range linked(d, H) {
					if r.name == "a" {
						persisted = r.val
					}
					if strings.HasPrefix(r.name, restNames[5]) {
						persistedL += r.val
					}
				}
			}
		}
	}
	fields := []string{"plan", variant, wk, cf, status, I(int64(len(steps)))}
	for _, s := range steps {
		fields = append(fields, I(int64(s.idx)), vosc.KindName[s.kind])
	}
	fields = append(fields, I(int64(openCalls)), B(parked), B(hasCur), I(int64(calls)), B(parked2), B(hasCur2),
		U(total), U(extra), U(persisted), U(extraL), U(persistedL), I(int64(len(fired))))
	fields = append(fields, I(int64(len(log))))
	fields = append(fields, log...)
	day1, _ := os.ReadFile(filepath.Join(local, "weekends"))
	fields = append(fields, B(len(day0) == 0 || len(day1) == 0 || day0[0] == day1[0]))
	if mode.content == nil {
		fields = append(fields, "nomode")
	} else {
		fields = append(fields, "mode", H(mode.content))
	}
	out.Case(true, fields...)
	out.Note("plan-" + variant)
	out.Note("mode-" + mode.name)
	if status == "ok" {
		f.Close()
	}
}

// ---- (c) a rotation that FAILS while an Add is under way ----
// One goroutine runs Counter.Add on a mapped file, another runs rotate1 in a
// situation in which it fails (telemetry switched off, weekends unreadable, a
// new week whose file cannot be opened / mapped / whose directory cannot be
// made) and parks the file (current = nil).  The failing rotation is run to
// completion after the first k scheduler steps of the Add, for every k: every
// point of the Add at which the mapping can disappear is covered.
var failKinds = []string{"mode-off", "weekends-read", "mkdir", "open", "mmap", "short-header"}

func concFailCase(k int, fkind string, hasPtr bool) { concFailCaseJ(k, -1, fkind, hasPtr) }

// j >= 0: the rotation is stopped after j of its steps; a LATE Add (one that begins only now) runs to
// completion; then the rotation and the first Add finish.  An Add that begins after the old mapping
// has been closed must not go through it.
func concFailCaseJ(k, j int, fkind string, hasPtr bool) {
	if tooManyHangs() {
		return
	}
	dir, err := os.MkdirTemp(root, "f")
	if err != nil {
		panic(err)
	}
	defer os.RemoveAll(dir)
	telemetry.Default = telemetry.NewDir(dir)
	now := time.Date(2024, 1, 3, 10, 0, 0, 0, time.UTC)
	counter.CounterTime = func() time.Time { return now }
	planSeq++
	mrand.Seed(int64(Seed())*1000003 + planSeq)
	maps = nil
	vatomic.ResetClosed()
	vosc.Reset(nil)
	counter.VerifMunmapMark(true)
	defer counter.VerifMunmapMark(false)

	f := counter.VerifNewFile()
	f.Rotate1()
	c := f.NewCounter("a")
	total := uint64(0)
	if hasPtr {
		c.Add(1)
		total++
	}
	plan := map[int]int{}
	switch fkind {
	case "mode-off":
		os.MkdirAll(filepath.Dir(telemetry.Default.ModeFile()), 0777)
		os.WriteFile(telemetry.Default.ModeFile(), []byte("off"), 0666)
	case "weekends-read":
		plan[1] = vosc.KEIO // the second ReadFile of weekEnd
	default:
		now = now.Add(8 * 24 * time.Hour) // a new week: rotate1 opens a new file
		switch fkind {
		case "mkdir":
			plan[2] = vosc.KEACCES
		case "open":
			plan[3] = vosc.KEIO
		case "mmap":
			plan[8] = vosc.KENOSPC
		case "short-header":
			plan[5] = vosc.KShort
		}
	}
	vosc.Reset(plan)
	s := vsched.New(false)
	status := "ok"
	t0 := s.Go(func() { c.Add(5) })
	t1 := s.Go(func() { f.Rotate1() })
	total += 5
	steps := 0
	run := func(tid int) bool { // one step; false when it cannot run
		if s.Done(tid) {
			return false
		}
		s.Step(tid)
		steps++
		return true
	}
	for i := 0; i < k && !s.Done(t0); i++ {
		run(t0)
	}
	budget := 20000
	lateUse := 0
	if j >= 0 {
		for i := 0; i < j && !s.Done(t1); i++ {
			run(t1)
			if !s.Done(t1) && s.Last(t1).Blocked {
				break
			}
		}
		closedBefore := vatomic.NClosed()
		evBefore := len(s.Events)
		t2 := s.Go(func() { c.Add(7) })
		total += 7
		for !s.Done(t2) && budget > 0 {
			budget--
			run(t2)
			if !s.Done(t2) && s.Last(t2).Blocked {
				if !run(t1) && !run(t0) {
					break
				}
			}
		}
		if p := s.Last(t2).Panic; p != "" {
			status = "panic"
		}
		if closedBefore > 0 {
			for _, e := range s.Events[evBefore:] {
				if strings.HasPrefix(e, "USE-AFTER-UNMAP") {
					lateUse++
				}
			}
		}
	}
	for !s.Done(t1) && budget > 0 {
		budget--
		run(t1)
		if !s.Done(t1) && s.Last(t1).Blocked { // waits for a lock the adder holds
			if !run(t0) {
				break
			}
		}
	}
	for !s.Done(t0) && budget > 0 {
		budget--
		run(t0)
	}
	if budget == 0 {
		status = "hang"
	}
	for _, tid := range []int{t0, t1} {
		if p := s.Last(tid).Panic; p != "" {
			status = "panic"
			if debug {
				fmt.Fprintln(os.Stderr, p)
			}
		}
	}
	vsched.Stop()
	calls := vosc.Calls
	vosc.Reset(nil)
	extra := uint64(0)
	persisted := uint64(0)
	parked := false
	if status == "ok" {
		extra = counter.VerifExtra(c)
		parked, _ = f.VerifParked()
		files, _ := filepath.Glob(filepath.Join(telemetry.Default.LocalDir(), "*.count"))
		for _, fn := range files {
			d, err := os.ReadFile(fn)
			if err != nil || len(d) < 64 {
				continue
			}
			H := le32(d, 28)
			for _, r := range linked(d, H) {
				if r.name == "a" {
					persisted += r.val
				}
			}
		}
	}
	out.Case(true, "cfail", fkind, I(int64(k)), I(int64(j)), B(hasPtr), status, B(parked), U(total), U(extra), U(persisted), I(int64(calls)), I(int64(steps)), I(int64(lateUse)))
	out.Note("cfail-" + fkind)
}

func concFailCases(thorough bool) int {
	n := 0
	maxK := 24
	if thorough {
		maxK = 60
	}
	for _, fk := range failKinds {
		for _, hp := range []bool{false, true} {
			for k := 0; k <= maxK; k++ {
				concFailCase(k, fk, hp)
				n++
			}
		}
		// the rotation stopped at each of its steps, with a late Add of a counter that has a pointer
		for j := 0; j <= maxK+20; j++ {
			concFailCaseJ(0, j, fk, true)
			n++
		}
	}
	return n
}

var planSeq int64

var variants = []string{"fresh", "weekends-ok", "weekends-empty", "weekends-garbage", "existing", "existing-short", "existing-badhdr"}

func planCases(thorough bool, budget int) int {
	n := 0
	const maxIdx = 40
	// no fault, then every single call index x kind
	for _, v := range variants {
		planCase(v, nil)
		n++
	}
	// every state of the mode file, without fault and with one fault early / late
	for mi := 1; mi < len(modeStates); mi++ {
		for _, v := range []string{"fresh", "existing"} {
			planCaseMode(v, mi, nil)
			planCaseMode(v, mi, []planStep{{0, vosc.KEIO}})
			planCaseMode(v, mi, []planStep{{7, vosc.KShort}})
			n += 3
		}
	}
	for _, v := range variants {
		for i := 0; i < maxIdx; i++ {
			for k := 1; k < vosc.NKinds; k++ {
				if !thorough && n >= budget {
					return n
				}
				if !thorough && v != "fresh" && v != "existing" && k != vosc.KEIO && k != vosc.KShort {
					continue // quick: all kinds on two variants, EIO and short on the others
				}
				planCase(v, []planStep{{i, k}})
				n++
			}
		}
	}
	if thorough {
		// all pairs of call indices (kinds EIO / short) on the two main variants
		for _, v := range []string{"fresh", "existing"} {
			for i := 0; i < 26; i++ {
				for j := i + 1; j < 30; j++ {
					for _, k1 := range []int{vosc.KEIO, vosc.KShort} {
						for _, k2 := range []int{vosc.KENOSPC, vosc.KShort} {
							planCase(v, []planStep{{i, k1}, {j, k2}})
							n++
						}
					}
				}
			}
		}
	}
	return n
}

// ---- (e) two processes create the SAME counter while the file has to grow ----
// Two file objects (two instances of one program) have the same counter file
// mapped; its first page is nearly full.  Both record the same new long name at
// the same time: both extend / re-map, one links its record, the other finds
// the duplicate after its re-map.  Afterwards (everything has returned) each
// adds once more: these adds must not go through a closed mapping, and the
// record holds every count.  sched: k >= 0: instance `first` runs k steps,
// the other one to completion, then the first finishes; k < 0: random.
func dupCase(first, k int) {
	if tooManyHangs() {
		return
	}
	dir, err := os.MkdirTemp(root, "d")
	if err != nil {
		panic(err)
	}
	defer os.RemoveAll(dir)
	telemetry.Default = telemetry.NewDir(dir)
	now := time.Date(2024, 1, 3, 10, 0, 0, 0, time.UTC)
	counter.CounterTime = func() time.Time { return now }
	planSeq++
	mrand.Seed(int64(Seed())*1000003 + planSeq)
	maps = nil
	vatomic.ResetClosed()
	vosc.Reset(nil)
	counter.VerifMunmapMark(true)
	defer counter.VerifMunmapMark(false)
	fs := []*counter.VerifFile{counter.VerifNewFile(), counter.VerifNewFile()}
	fs[0].Rotate1()
	for i := 0; i < 3; i++ {
		fs[0].NewCounter(restNames[5] + strconv.Itoa(i)).Add(1)
	}
	fs[1].Rotate1()
	same := fs[0].CurrentName() == fs[1].CurrentName() && fs[0].CurrentName() != ""
	name := restNames[5] + "dup"
	cs := []*counter.Counter{fs[0].NewCounter(name), fs[1].NewCounter(name)}
	amounts := []int64{2, 3}
	s := vsched.New(false)
	status := "ok"
	tids := []int{
		s.Go(func() { cs[0].Add(amounts[0]) }),
		s.Go(func() { cs[1].Add(amounts[1]) }),
	}
	total := uint64(amounts[0] + amounts[1])
	steps := 0
	budget := 40000
	run := func(i int) bool {
		if s.Done(tids[i]) || budget == 0 {
			return false
		}
		budget--
		s.Step(tids[i])
		steps++
		return true
	}
	if k >= 0 {
		for i := 0; i < k && run(first); i++ {
		}
		for run(1 - first) {
		}
		for run(first) {
		}
	} else {
		for !s.Done(tids[0]) || !s.Done(tids[1]) {
			i := rnd.Intn(2)
			if !run(i) && !run(1-i) {
				break
			}
		}
	}
	if budget == 0 {
		status = "hang"
		nHangs++
	}
	for _, tid := range tids {
		if p := s.Last(tid).Panic; p != "" {
			status = "panic"
			if debug {
				fmt.Fprintln(os.Stderr, p)
			}
		}
	}
	vsched.Stop()
	// quiescent: one more add each
	lateUse := 0
	if status == "ok" {
		for i := range cs {
			evBefore := 0
			st, _ := runManagedEvents(20000, func() { cs[i].Add(1) }, &evBefore, &lateUse)
			total++
			if st != "ok" {
				status = st
				break
			}
		}
	}
	extra := uint64(0)
	persisted := uint64(0)
	nrec := 0
	if status == "ok" {
		for _, c := range cs {
			extra += counter.VerifExtra(c)
		}
		if d, err := os.ReadFile(fs[0].CurrentName()); err == nil && len(d) >= 64 {
			for _, r := range linked(d, le32(d, 28)) {
				if r.name == name {
					persisted += r.val
					nrec++
				}
			}
		}
	}
	out.Case(true, "dup", I(int64(first)), I(int64(k)), B(same), status, U(total), U(extra), U(persisted), I(int64(nrec)), I(int64(steps)), I(int64(lateUse)))
	out.Note("dup")
	if status == "ok" {
		fs[0].Close()
		fs[1].Close()
	}
}

// runManagedEvents: runManaged, counting the accesses through closed mappings made by fn
func runManagedEvents(budget int, fn func(), evBefore *int, lateUse *int) (string, int) {
	s := vsched.New(false)
	defer vsched.Stop()
	tid := s.Go(fn)
	steps := 0
	for !s.Done(tid) {
		if steps >= budget {
			s.Kill(tid)
			nHangs++
			return "hang", steps
		}
		s.Step(tid)
		steps++
	}
	for _, e := range s.Events {
		if strings.HasPrefix(e, "USE-AFTER-UNMAP") {
			*lateUse++
		}
	}
	if p := s.Last(tid).Panic; p != "" {
		return "panic", steps
	}
	return "ok", steps
}

func dupCases(thorough bool) int {
	n := 0
	maxK, nrand := 70, 30
	if thorough {
		maxK, nrand = 400, 400
	}
	for first := 0; first < 2; first++ {
		for k := 0; k <= maxK; k++ {
			dupCase(first, k)
			n++
		}
	}
	for i := 0; i < nrand; i++ {
		dupCase(0, -1)
		n++
	}
	return n
}

// ---- (f) hostile directory states ----
// local/weekends exists but cannot be read (a directory, a dangling symbolic
// link); the counter file is deleted, or replaced by an empty file, while the
// program has it mapped, and then a counter needs an extension.  Every
// file-system call is a scheduling point here, so a loop over failing calls
// runs into the step budget (hang) instead of blocking the harness.
var envKinds = []string{"weekends-dir", "weekends-dangling", "file-deleted", "file-replaced"}

func envCase(kind string) {
	if tooManyHangs() {
		return
	}
	dir, err := os.MkdirTemp(root, "e")
	if err != nil {
		panic(err)
	}
	defer os.RemoveAll(dir)
	telemetry.Default = telemetry.NewDir(dir)
	now := time.Date(2024, 1, 3, 10, 0, 0, 0, time.UTC)
	counter.CounterTime = func() time.Time { return now }
	planSeq++
	mrand.Seed(int64(Seed())*1000003 + planSeq)
	maps = nil
	vatomic.ResetClosed()
	vosc.Reset(nil)
	local := telemetry.Default.LocalDir()
	f := counter.VerifNewFile()
	c := f.NewCounter("a")
	total := uint64(0)
	switch kind {
	case "weekends-dir":
		os.MkdirAll(filepath.Join(local, "weekends"), 0777)
	case "weekends-dangling":
		os.MkdirAll(local, 0777)
		if err := os.Symlink(filepath.Join(local, "no-such-target", "x"), filepath.Join(local, "weekends")); err != nil {
			panic(err)
		}
	case "file-deleted", "file-replaced":
		f.Rotate1()
		c.Add(1)
		total = 1
		name := f.CurrentName()
		if err := os.Remove(name); err != nil {
			panic(err)
		}
		if kind == "file-replaced" {
			os.WriteFile(name, nil, 0666)
		}
	}
	vosc.Yielding = true
	status, _ := runManaged(6000, func() {
		f.Rotate1()
		c.Add(3)
		total += 3
		for i := 0; i < 4; i++ {
			f.NewCounter(restNames[5] + strconv.Itoa(i)).Add(1)
		}
		c.Add(5)
		total += 5
	})
	vosc.Yielding = false
	calls := vosc.Calls
	vosc.Reset(nil)
	extra, persisted := uint64(0), uint64(0)
	parked := false
	if status == "ok" {
		parked, _ = f.VerifParked()
		extra = counter.VerifExtra(c)
		if name := f.CurrentName(); name != "" {
			if d, err := os.ReadFile(name); err == nil && len(d) >= 64 {
				for _, r := range linked(d, hdrLenOf(counter.VerifMeta(f))) {
					if r.name == "a" {
						persisted = r.val
					}
				}
			}
		}
		f.Close()
	}
	out.Case(true, "env", kind, status, B(parked), U(total), U(extra), U(persisted), I(int64(calls)))
	out.Note("env-" + kind)
}

func envCases() int {
	for _, k := range envKinds {
		envCase(k)
	}
	return len(envKinds)
}

// ---- (d) the package-level Open API ----
// counter.Open(rotate) is once-per-process (sync.Once, package variables), so
// each case is a child process of this binary: the telemetry directory is
// prepared with one state of the mode file (or there is no configuration
// directory at all: zero telemetry.Dir), the child calls Open(rotate) twice
// with the same value (a program and a library it uses both open the
// counters), increments a counter and calls the returned close function.
func openAPIChild(dir string, rotate bool) {
	status := "ok"
	func() {
		defer func() {
			if r := recover(); r != nil {
				status = "panic"
				fmt.Fprintln(os.Stderr, "openapi child:", r)
			}
		}()
		if dir == "-" {
			telemetry.Default = telemetry.Dir{}
		} else {
			telemetry.Default = telemetry.NewDir(dir)
		}
		counter.VerifFaultInit(func(base uintptr, n int) {})
		vsched.Stop()
		closeFn := counter.Open(rotate)
		closeFn2 := counter.Open(rotate)
		counter.New("openapi/x").Inc()
		closeFn2()
		closeFn()
	}()
	fmt.Println(status)
}

func openAPICases() int {
	n := 0
	one := func(state string, content []byte, noconfig bool, rotate bool) {
		dir, err := os.MkdirTemp(root, "o")
		if err != nil {
			panic(err)
		}
		defer os.RemoveAll(dir)
		arg := dir
		if noconfig {
			arg = "-"
		} else if content != nil {
			if err := os.WriteFile(filepath.Join(dir, "mode"), content, 0666); err != nil {
				panic(err)
			}
		}
		cmd := exec.Command(os.Args[0], "openapi-child", arg, B(rotate))
		cmd.Env = append(os.Environ(), "VERIF_SEED=1")
		o, err := cmd.Output()
		status := strings.TrimSpace(string(o))
		if status != "ok" && status != "panic" {
			status = "crash" // the child died without reaching its report
		}
		created := false
		if es, err := os.ReadDir(filepath.Join(dir, "local")); err == nil {
			for _, e := range es {
				if strings.HasSuffix(e.Name(), ".count") {
					created = true
				}
			}
		}
		fields := []string{"openapi", state, B(rotate), status, B(created)}
		if noconfig {
			fields = append(fields, "noconfig")
		} else if content == nil {
			fields = append(fields, "nomode")
		} else {
			fields = append(fields, "mode", H(content))
		}
		out.Case(true, fields...)
		out.Note("openapi-" + state)
		n++
	}
	for _, rotate := range []bool{false, true} {
		for _, m := range modeStates {
			one(m.name, m.content, false, rotate)
		}
		one("no-config-dir", nil, true, rotate)
	}
	return n
}

func main() {
	if len(os.Args) == 4 && os.Args[1] == "openapi-child" {
		openAPIChild(os.Args[2], os.Args[3] == B(true))
		return
	}
	outPath := os.Args[1]
	n, _ := strconv.Atoi(os.Args[2])
	rnd = NewRand(Seed())
	out = NewOut(outPath)
	var err error
	root, err = os.MkdirTemp("", "vh_fault")
	if err != nil {
		panic(err)
	}
	defer os.RemoveAll(root)
	os.MkdirAll(filepath.Join(root, "cfg"), 0777)
	counter.VerifFaultInit(func(base uintptr, n int) { maps = append(maps, mapping{base, uintptr(n)}) })
	buildNames()
	thorough := os.Getenv("VERIF_TIER") == "thorough"
	budget := n / 3
	if !thorough && budget < 800 {
		budget = 800 // the single-fault grid of the quick tier does not shrink with the number of damaged-file cases
	}
	np := planCases(thorough, budget)
	np += concFailCases(thorough)
	np += openAPICases()
	np += dupCases(thorough)
	np += envCases()
	for i := np; i < n; i++ {
		restCase()
	}
	_ = sort.Ints
	out.Close()
}
