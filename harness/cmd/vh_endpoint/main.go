// vh_endpoint: launcher of the C12 correspondence harness.  handleUpload and
// validate are unexported in package main of godev/cmd/telemetrygodev, so the
// harness proper lives in that package (zz_verif_endpoint.go, build tag
// verif, injected into the scratch copy).  This program builds that package
// with the tag inside the scratch copy and runs it with the same arguments.
package main

import (
	"fmt"
	"os"
	"os/exec"
	"path/filepath"
)

func main() {
	if len(os.Args) < 3 {
		fmt.Fprintln(os.Stderr, "usage: vh_endpoint <cases file> <n>")
		os.Exit(2)
	}
	// the driver runs us with the module directory (<copy>/godev) as cwd
	cwd, err := os.Getwd()
	if err != nil {
		panic(err)
	}
	if _, err := os.Stat(filepath.Join(cwd, "cmd", "telemetrygodev", "zz_verif_endpoint.go")); err != nil {
		fmt.Fprintln(os.Stderr, "vh_endpoint: injected harness not found below", cwd, err)
		os.Exit(2)
	}
	tmp, err := os.MkdirTemp("", "vh_endpoint_bin")
	if err != nil {
		panic(err)
	}
	defer os.RemoveAll(tmp)
	bin := filepath.Join(tmp, "telemetrygodev-verif")
	build := exec.Command("go", "build", "-tags", "verif", "-o", bin, "./cmd/telemetrygodev")
	build.Dir = cwd
	build.Stdout, build.Stderr = os.Stderr, os.Stderr
	if err := build.Run(); err != nil {
		fmt.Fprintln(os.Stderr, "vh_endpoint: building cmd/telemetrygodev with -tags verif failed:", err)
		os.RemoveAll(tmp)
		os.Exit(3)
	}
	run := exec.Command(bin, os.Args[1:]...)
	run.Dir = cwd
	run.Env = append(os.Environ(), "VERIF_HARNESS=endpoint")
	run.Stdout, run.Stderr = nil, os.Stderr // stdout: stack traces printed by the Recover middleware
	if err := run.Run(); err != nil {
		fmt.Fprintln(os.Stderr, "vh_endpoint: harness run failed:", err)
		os.RemoveAll(tmp)
		os.Exit(4)
	}
}
