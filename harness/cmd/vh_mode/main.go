// vh_mode: correspondence harness for C02, mode file part.  Runs the real
// telemetry.Dir.Mode / SetModeAsOf (and the public telemetry.Mode / SetMode)
// on generated mode-file contents and arguments and writes the observations
// for the model runner (ocaml/c02_main.ml).
package main

import (
	"bytes"
	"fmt"
	"os"
	"path/filepath"
	"strconv"
	"time"

	telemetry "golang.org/x/telemetry"
	itelemetry "golang.org/x/telemetry/internal/telemetry"
	. "golang.org/x/telemetry/internal/verifh/vhlib"
)

var rnd *Rand
var out *Out
var root string

var spaces = [][]byte{
	[]byte(" "), []byte("\n"), []byte("\r\n"), []byte("\t"), []byte("\v"), []byte("\f"),
	{0xC2, 0xA0}, {0xC2, 0x85}, {0xE2, 0x80, 0x80}, {0xE2, 0x80, 0xA8}, {0xE3, 0x80, 0x80}, {0xE1, 0x9A, 0x80},
	{0xE2, 0x81, 0x9F}, {0xE2, 0x80, 0xAF},
}

// byte sequences that look like white space but are not (lone continuation
// bytes, truncated or over-long encodings, NUL)
var nearSpaces = [][]byte{
	{0x85}, {0xA0}, {0xC2}, {0xE2, 0x80}, {0x80, 0x80}, {0}, {0xE2, 0x80, 0x80, 0x80}, {0xC2, 0x85, 0x85},
	{0xE2, 0x80, 0x8B}, {0xEF, 0xBB, 0xBF}, {0xC0, 0xA0}, {0xE0, 0x80, 0xA0}, {0x1f}, {0x1c},
}

func genDateString() (string, string) {
	switch rnd.Intn(14) {
	case 0:
		return "", "date-empty"
	case 1:
		return "0001-01-01", "date-zero"
	case 2:
		return Pick(rnd, []string{"2024-02-30", "2023-02-29", "2024-13-01", "2024-00-10", "2024-04-31", "2024-01-00", "2024-01-32", "1900-02-29"}), "date-bad-day"
	case 3:
		return Pick(rnd, []string{"2024-1-05", "24-01-05", "2024/01/05", "2024-01-5", "2024-01-05T00:00:00Z", "2024-01-05 ", "2024-01-05x", "+024-01-05", "-024-01-05", "2024-01-055", "20240105", "10000-01-01", "2024-01-05 10:00"}), "date-bad-shape"
	case 4:
		return Pick(rnd, []string{"2024-02-29", "2000-02-29", "0000-01-01", "9999-12-31", "0000-02-29", "2400-02-29", "1970-01-01", "1969-12-31"}), "date-edge"
	case 5:
		b := []byte("2024-01-05")
		b[rnd.Intn(len(b))] = byte(rnd.Uint64())
		return string(b), "date-mutated"
	default:
		y := rnd.Intn(10000)
		t := time.Date(y, time.Month(1+rnd.Intn(12)), 1+rnd.Intn(28), 0, 0, 0, 0, time.UTC)
		s := fmt.Sprintf("%04d-%02d-%02d", t.Year(), int(t.Month()), t.Day())
		return s, "date-valid"
	}
}

func genModeWord() (string, string) {
	switch rnd.Intn(12) {
	case 0:
		return Pick(rnd, []string{"ON", "On", "OFF", "Off", "LOCAL", "Local", "oN"}), "word-upper"
	case 1:
		return Pick(rnd, []string{"", "onn", "of", "offf", "loca", "locall", "o", "n", "true", "1", "on,", "on\x00", "\x00on", "o\x00n", "on-2024-01-05"}), "word-other"
	case 2:
		return string(rnd.Bytes(1 + rnd.Intn(5))), "word-random"
	default:
		return Pick(rnd, []string{"on", "off", "local"}), "word-valid"
	}
}

func genContent() []byte {
	switch rnd.Intn(20) {
	case 0:
		out.Note("content-empty")
		return []byte{}
	case 1:
		out.Note("content-random-4k")
		return rnd.Bytes(4096)
	case 2:
		out.Note("content-random-short")
		return rnd.Bytes(1 + rnd.Intn(24))
	case 3:
		out.Note("content-only-space")
		var b []byte
		for i := rnd.Intn(4); i >= 0; i-- {
			b = append(b, Pick(rnd, spaces)...)
		}
		return b
	}
	var b []byte
	// leading
	switch rnd.Intn(8) {
	case 0:
		b = append(b, Pick(rnd, spaces)...)
		out.Note("lead-space")
	case 1:
		b = append(b, Pick(rnd, nearSpaces)...)
		out.Note("lead-nearspace")
	}
	w, wn := genModeWord()
	out.Note(wn)
	b = append(b, w...)
	// separator + date
	switch rnd.Intn(10) {
	case 0, 1:
		out.Note("no-date")
	case 2:
		out.Note("sep-two-spaces")
		d, dn := genDateString()
		out.Note(dn)
		b = append(b, "  "...)
		b = append(b, d...)
	case 3:
		out.Note("sep-other")
		d, dn := genDateString()
		out.Note(dn)
		b = append(b, Pick(rnd, [][]byte{[]byte("\t"), []byte("\n"), {0xC2, 0xA0}, []byte("-"), []byte(",")})...)
		b = append(b, d...)
	default:
		d, dn := genDateString()
		out.Note(dn)
		b = append(b, ' ')
		b = append(b, d...)
	}
	// trailing
	switch rnd.Intn(10) {
	case 0:
		b = append(b, '\n')
		out.Note("trail-newline")
	case 1:
		b = append(b, "\r\n"...)
		out.Note("trail-crlf")
	case 2:
		b = append(b, 0xC2, 0xA0)
		out.Note("trail-nbsp")
	case 3:
		b = append(b, 0xC2, 0x85)
		out.Note("trail-u0085")
	case 4:
		b = append(b, Pick(rnd, nearSpaces)...)
		out.Note("trail-nearspace")
	case 5:
		b = append(b, Pick(rnd, spaces)...)
		b = append(b, Pick(rnd, spaces)...)
		out.Note("trail-spaces")
	case 6:
		b = append(b, " extra"...)
		out.Note("trail-extra-field")
	case 7:
		b = append(b, 0)
		out.Note("trail-nul")
	}
	return b
}

func newDir() string {
	dir, err := os.MkdirTemp(root, "t")
	if err != nil {
		panic(err)
	}
	return dir
}

func dayOf(t time.Time) int64 {
	s := t.Unix()
	d := s / 86400
	if s%86400 < 0 {
		d--
	}
	return d
}

// file state tags: "absent", "isdir", "file"
func writeState(dir string) (tag string, content []byte) {
	mf := filepath.Join(dir, "mode")
	switch rnd.Intn(16) {
	case 0:
		out.Note("file-absent")
		return "absent", nil
	case 1:
		out.Note("file-is-directory")
		os.Mkdir(mf, 0777)
		return "isdir", nil
	}
	c := genContent()
	if err := os.WriteFile(mf, c, 0666); err != nil {
		panic(err)
	}
	return "file", c
}

func readState(dir string) (tag string, content []byte) {
	mf := filepath.Join(dir, "mode")
	fi, err := os.Stat(mf)
	if err != nil {
		return "absent", nil
	}
	if fi.IsDir() {
		return "isdir", nil
	}
	c, err := os.ReadFile(mf)
	if err != nil {
		panic(err)
	}
	return "file", c
}

// mode: Dir.Mode() on a generated file
func caseMode() {
	dir := newDir()
	defer os.RemoveAll(dir)
	tag, c := writeState(dir)
	d := itelemetry.NewDir(dir)
	m, t := d.Mode()
	// the public API reads the same file through telemetry.Default
	itelemetry.Default = d
	pub := telemetry.Mode()
	tag2, c2 := readState(dir)
	same := tag == tag2 && bytes.Equal(c, c2)
	out.Case(true, "mode", tag, H(c), HS(m), I(dayOf(t)), B(t.IsZero()), HS(pub), B(same))
}

// nopath: the zero Dir (telemetry.Default never initialised)
func caseNoPath() {
	var d itelemetry.Dir
	m, t := d.Mode()
	err := d.SetModeAsOf("on", time.Unix(1700000000, 0))
	out.Case(true, "nopath", HS(m), B(t.IsZero()), B(err != nil))
}

func genModeArg() string {
	switch rnd.Intn(10) {
	case 0:
		out.Note("set-arg-upper")
		return Pick(rnd, []string{"ON", "Off", "LOCAL"})
	case 1:
		out.Note("set-arg-invalid")
		return Pick(rnd, []string{"", "onn", "o n", "on off", "on 2024-01-05", "of", "local.", "\x00on", "on\x00", "yes", "lo cal"})
	case 2:
		out.Note("set-arg-spaced")
		return string(Pick(rnd, spaces)) + Pick(rnd, []string{"on", "off", "local"}) + string(Pick(rnd, spaces))
	case 3:
		out.Note("set-arg-nearspace")
		if rnd.Bool() {
			return string(Pick(rnd, nearSpaces)) + Pick(rnd, []string{"on", "off", "local"})
		}
		return Pick(rnd, []string{"on", "off", "local"}) + string(Pick(rnd, nearSpaces))
	case 4:
		out.Note("set-arg-random")
		return string(rnd.Bytes(rnd.Intn(6)))
	default:
		out.Note("set-arg-valid")
		return Pick(rnd, []string{"on", "off", "local"})
	}
}

func genAsof() time.Time {
	var t time.Time
	switch rnd.Intn(12) {
	case 0:
		out.Note("asof-year-negative")
		t = time.Date(-1-rnd.Intn(300), time.Month(1+rnd.Intn(12)), 1+rnd.Intn(28), rnd.Intn(24), rnd.Intn(60), rnd.Intn(60), rnd.Intn(1e9), time.UTC)
	case 1:
		out.Note("asof-year-over-9999")
		t = time.Date(10000+rnd.Intn(2000), time.Month(1+rnd.Intn(12)), 1+rnd.Intn(28), rnd.Intn(24), rnd.Intn(60), rnd.Intn(60), rnd.Intn(1e9), time.UTC)
	case 2:
		out.Note("asof-year-boundary")
		t = Pick(rnd, []time.Time{
			time.Date(0, 1, 1, 0, 0, 0, 0, time.UTC), time.Date(-1, 12, 31, 23, 59, 59, 999999999, time.UTC),
			time.Date(9999, 12, 31, 23, 59, 59, 999999999, time.UTC), time.Date(10000, 1, 1, 0, 0, 0, 0, time.UTC),
			time.Date(1, 1, 1, 0, 0, 0, 0, time.UTC), time.Date(1, 1, 1, 12, 0, 0, 0, time.UTC), time.Date(1, 1, 2, 0, 0, 0, 0, time.UTC),
			time.Date(0, 12, 31, 23, 59, 59, 0, time.UTC), time.Date(1970, 1, 1, 0, 0, 0, 0, time.UTC), time.Date(1969, 12, 31, 23, 59, 59, 0, time.UTC),
		})
	case 3:
		out.Note("asof-leap-or-month-end")
		y := Pick(rnd, []int{2024, 2000, 1900, 2100, 2023, 0, 400})
		t = time.Date(y, time.Month(Pick(rnd, []int{2, 2, 3, 12, 1})), Pick(rnd, []int{28, 29, 30, 31, 1}), rnd.Intn(24), rnd.Intn(60), rnd.Intn(60), 0, time.UTC)
	default:
		out.Note("asof-ordinary")
		t = time.Date(rnd.Intn(10000), time.Month(1+rnd.Intn(12)), 1+rnd.Intn(31), rnd.Intn(24), rnd.Intn(60), rnd.Intn(60), rnd.Intn(1e9), time.UTC)
	}
	// the code converts to UTC itself: hand it the instant in another zone
	switch rnd.Intn(4) {
	case 0:
		t = t.In(time.FixedZone("east", 14*3600))
	case 1:
		t = t.In(time.FixedZone("west", -12*3600))
	}
	return t
}

// set: SetModeAsOf on a generated previous state, then Mode()
func caseSet() {
	dir := newDir()
	defer os.RemoveAll(dir)
	tag, c := writeState(dir)
	if tag == "isdir" { // WriteFile onto a directory fails for reasons outside the model
		os.Remove(filepath.Join(dir, "mode"))
		tag = "absent"
	}
	d := itelemetry.NewDir(dir)
	arg := genModeArg()
	asof := genAsof()
	err := d.SetModeAsOf(arg, asof)
	tag2, c2 := readState(dir)
	m, t := d.Mode()
	out.Case(true, "set", tag, H(c), HS(arg), I(asof.Unix()), B(err == nil), tag2, H(c2), HS(m), I(dayOf(t)), B(t.IsZero()))
}

// pubset: the public SetMode (date = today, not compared) and Mode
func casePubSet() {
	dir := newDir()
	defer os.RemoveAll(dir)
	tag, c := writeState(dir)
	if tag == "isdir" {
		os.Remove(filepath.Join(dir, "mode"))
		tag = "absent"
	}
	itelemetry.Default = itelemetry.NewDir(dir)
	arg := genModeArg()
	err := telemetry.SetMode(arg)
	tag2, c2 := readState(dir)
	same := tag == tag2 && bytes.Equal(c, c2)
	_, t := itelemetry.Default.Mode()
	out.Case(true, "pubset", tag, H(c), HS(arg), B(err == nil), B(same), HS(telemetry.Mode()), B(t.IsZero()))
}

func main() {
	outPath := os.Args[1]
	n, _ := strconv.Atoi(os.Args[2])
	rnd = NewRand(Seed())
	out = NewOut(outPath)
	var err error
	root, err = os.MkdirTemp("", "vh_mode")
	if err != nil {
		panic(err)
	}
	defer os.RemoveAll(root)
	for i := 0; i < n; i++ {
		var fn func()
		switch {
		case i%100 == 99:
			fn = caseNoPath
		case i%10 < 6:
			fn = caseMode
		case i%10 < 9:
			fn = caseSet
		default:
			fn = casePubSet
		}
		// watchdog: a call that does not come back is reported as a case, not as a dead harness
		done := make(chan struct{})
		go func() { defer close(done); fn() }()
		select {
		case <-done:
		case <-time.After(60 * time.Second):
			out.Note("hang")
			out.Case(true, "hang", HS("mode-case"), I(int64(i)))
			out.Close()
			os.Exit(0)
		}
	}
	out.Close()
}
