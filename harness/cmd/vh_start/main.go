// vh_start: correspondence harness for C16 (telemetry.Start).
//
// The technique is start_test.go's: this binary re-executes itself as an
// instrumented application main (environment switch X_VERIF_ROLE) that
// appends a line to a process-start log and then calls the REAL
// telemetry.Start with the telemetry directory redirected.  When Start
// launches the sidecar (os.Executable, i.e. this binary again, with the
// environment inherited) the sidecar logs its own start line with the marker
// variables it finds, and so does everything the sidecar runs: a symlink named
// "go", first on PATH, points at this binary, so the `go mod download` the
// uploader issues in mode "on" lands here, logs the marker it inherited and
// itself calls telemetry.Start with uploading and crash reporting enabled,
// like the go command does.  The application enters telemetry either by
// calling Start first thing or (X_VERIF_ENTRY=maybechild) by calling
// telemetry.MaybeChild first and telemetry.Start later, the documented pattern
// that cmd/go follows; the sidecar is the same program and so follows the
// same pattern; the fake go command always uses the MaybeChild pattern.  The
// telemetry directory comes from Config.TelemetryDir (cfg), or - no
// TelemetryDir - from os.UserConfigDir via XDG_CONFIG_HOME (env), or from
// nowhere (none: HOME and XDG_CONFIG_HOME unset, so
// that os.UserConfigDir fails and telemetry.Default stays the zero Dir); every
// process runs in an empty working directory that is watched for writes.  A depth counter in the environment stops a
// (mutated) recursion after four generations.  All descendants hold the write
// end of a pipe; the driver waits for EOF on it, so a case is complete when
// every process it caused has exited.
//
// Case kinds
//
//	start <dir source: cfg | env | none> <entry: start | maybechild> <marker set> <marker> <upload var set> <crash> <upload> <upload start: Z | O seconds ahead of now> <mode file: N | F bytes>
//	      <local dir reachable> <token: A | P <age ns>> <exit> <returned>
//	      <n procs> (<S|G> <depth> <marker set> <marker> <upload var>)* <token exists after>
//	      <token (re)created> <dir changed>
//	race  <n starters> <token: A | P age> <upload start: Z | O s> <n procs> (...)*
//	tokrace <n goroutines> <token: A | P age> <upload start: Z | O s> <number of uploading sidecars>
//	      (telemetry.Start called concurrently by goroutines of the driver process itself)
//	history <token: A | P age> <k> (<token aged by ns before this start> <upload start: Z | O s> <mode file rewritten by Dir.SetMode before this start>
//	      <uploading sidecar launched> <token (re)created>)*
//	      (k starts one after the other on one directory; between starts the token's
//	      modification time is moved back, which is what the passage of real time does)
package main

import (
	"encoding/hex"
	"fmt"
	"io"
	"io/fs"
	"os"
	"os/exec"
	"path/filepath"
	"sort"
	"strconv"
	"strings"
	"sync"
	"time"

	"golang.org/x/telemetry"
	it "golang.org/x/telemetry/internal/telemetry"
	. "golang.org/x/telemetry/internal/verifh/vhlib"
)

const (
	roleEnv    = "X_VERIF_ROLE"
	logEnv     = "X_VERIF_LOG"
	depthEnv   = "X_VERIF_DEPTH"
	tdirEnv    = "X_VERIF_TDIR"
	crashEnv   = "X_VERIF_CRASH"
	uploadEnv  = "X_VERIF_UPLOAD"
	barrierEnv = "X_VERIF_BARRIER"
	entryEnv   = "X_VERIF_ENTRY"
	asofEnv    = "X_VERIF_ASOF" // Config.UploadStartTime = now + this many seconds ("" = zero time)
	childVar   = "GO_TELEMETRY_CHILD"
	uploadVar  = "GO_TELEMETRY_CHILD_UPLOAD"
	maxDepth   = 4
)

// ------------------------------------------------ instrumented main

func appendLog(line string) {
	f, err := os.OpenFile(os.Getenv(logEnv), os.O_WRONLY|os.O_APPEND|os.O_CREATE, 0666)
	if err != nil {
		os.Exit(97)
	}
	f.WriteString(line + "\n")
	f.Close()
}

func instrumented(role string) {
	depth, _ := strconv.Atoi(os.Getenv(depthEnv))
	marker, set := os.LookupEnv(childVar)
	uv := os.Getenv(uploadVar)
	s := "0"
	if set {
		s = "1"
	}
	appendLog(fmt.Sprintf("S %s %d %s h%s h%s", role, depth, s, hex.EncodeToString([]byte(marker)), hex.EncodeToString([]byte(uv))))
	if depth >= maxDepth {
		os.Exit(0)
	}
	os.Setenv(depthEnv, strconv.Itoa(depth+1))
	if b := os.Getenv(barrierEnv); b != "" {
		// concurrent starters: block until the driver releases all of them
		fd, _ := strconv.Atoi(b)
		f := os.NewFile(uintptr(fd), "barrier")
		appendLog(fmt.Sprintf("W %d", depth))
		io.ReadAll(f)
		f.Close()
		os.Unsetenv(barrierEnv)
	}
	cfg := telemetry.Config{
		TelemetryDir:  os.Getenv(tdirEnv),
		ReportCrashes: os.Getenv(crashEnv) == "1",
		Upload:        os.Getenv(uploadEnv) == "1",
		UploadURL:     "http://127.0.0.1:1/",
	}
	if a := os.Getenv(asofEnv); a != "" {
		secs, _ := strconv.ParseInt(a, 10, 64)
		cfg.UploadStartTime = time.Now().Add(time.Duration(secs) * time.Second)
	}
	if role == "go" {
		cfg.ReportCrashes = true
		cfg.Upload = true
	}
	if role == "go" || os.Getenv(entryEnv) == "maybechild" {
		// the cmd/go pattern: MaybeChild first, (flag parsing etc.,) Start later
		telemetry.MaybeChild(cfg)
		appendLog(fmt.Sprintf("M %s %d", role, depth))
	}
	telemetry.Start(cfg)
	appendLog(fmt.Sprintf("R %s %d", role, depth))
	if role == "go" {
		os.Exit(1) // no module downloaded
	}
	os.Exit(0)
}

// ------------------------------------------------------- driver

var out *Out
var root string
var self string
var fakebin string

type tokenSpec struct {
	present bool
	age     time.Duration
}

type startCase struct {
	asof       *int64 // Config.UploadStartTime = now + *asof seconds; nil: zero time
	dirSrc     int    // where the telemetry directory comes from (dirCfg ...)
	maybeChild bool   // the application calls MaybeChild first, Start later
	markerSet  bool
	marker     string
	uvSet      bool
	crash      bool
	upload     bool
	modeFile   *string // nil: no mode file
	localPre   bool
	debugDir   bool
	broken     bool // the telemetry directory lies below a regular file
	token      tokenSpec
}

type procRec struct {
	role      string
	depth     int
	markerSet bool
	marker    string
	uv        string
}

type snapEnt struct {
	size  int64
	mtime int64
	dir   bool
}

func snapshot(dir string) map[string]snapEnt {
	m := map[string]snapEnt{}
	filepath.WalkDir(dir, func(p string, d fs.DirEntry, err error) error {
		if err != nil {
			return nil
		}
		fi, err := d.Info()
		if err != nil {
			return nil
		}
		m[p] = snapEnt{fi.Size(), fi.ModTime().UnixNano(), fi.IsDir()}
		return nil
	})
	return m
}

func sameSnap(a, b map[string]snapEnt) bool {
	if len(a) != len(b) {
		return false
	}
	for k, v := range a {
		if w, ok := b[k]; !ok || w != v {
			return false
		}
	}
	return true
}

func parseLog(path string) (recs []procRec, returned map[string]bool, ready int) {
	returned = map[string]bool{}
	data, _ := os.ReadFile(path)
	for _, line := range strings.Split(string(data), "\n") {
		f := strings.Fields(line)
		if len(f) == 0 {
			continue
		}
		switch f[0] {
		case "S":
			d, _ := strconv.Atoi(f[2])
			mk, _ := hex.DecodeString(f[4][1:])
			uv, _ := hex.DecodeString(f[5][1:])
			recs = append(recs, procRec{f[1], d, f[3] == "1", string(mk), string(uv)})
		case "R":
			returned[f[1]+"/"+f[2]] = true
		case "W":
			ready++
		}
	}
	return
}

const (
	dirCfg  = 0 // Config.TelemetryDir
	dirEnv  = 1 // default directory below $XDG_CONFIG_HOME, no TelemetryDir
	dirNone = 2 // no TelemetryDir, HOME and XDG_CONFIG_HOME unset: os.UserConfigDir fails
	// (a relative XDG_CONFIG_HOME is rejected by os.UserConfigDir only by newer toolchains; with go1.23
	// it yields a directory relative to the working directory, which is a known directory)
)

func baseEnvSrc(dir, tdir string, src int) []string {
	env := []string{
		"PATH=" + fakebin + string(os.PathListSeparator) + os.Getenv("PATH"),
		roleEnv + "=app",
		logEnv + "=" + filepath.Join(dir, "log"),
		depthEnv + "=0",
	}
	switch src {
	case dirCfg:
		env = append(env, "HOME="+filepath.Join(dir, "home"), "XDG_CONFIG_HOME="+filepath.Join(dir, "home", "cfg"), tdirEnv+"="+tdir)
	case dirEnv:
		env = append(env, "HOME="+filepath.Join(dir, "home"), "XDG_CONFIG_HOME="+filepath.Join(dir, "home", "cfg"))
	case dirNone:
	}
	return env
}

func baseEnv(dir, tdir string) []string { return baseEnvSrc(dir, tdir, dirCfg) }

// waitAll: EOF on the done pipe = every descendant has exited
func waitAll(r *os.File) bool {
	done := make(chan struct{})
	go func() { io.Copy(io.Discard, r); close(done) }()
	select {
	case <-done:
		return true
	case <-time.After(30 * time.Second):
		return false
	}
}

func procFields(recs []procRec) []string {
	// all records but the top-level application's own
	var ps []procRec
	for _, r := range recs {
		if r.role == "app" && r.depth == 0 {
			continue
		}
		ps = append(ps, r)
	}
	sort.Slice(ps, func(i, j int) bool {
		a, b := ps[i], ps[j]
		if a.depth != b.depth {
			return a.depth < b.depth
		}
		if a.role != b.role {
			return a.role < b.role
		}
		if a.marker != b.marker {
			return a.marker < b.marker
		}
		return a.uv < b.uv
	})
	f := []string{I(int64(len(ps)))}
	for _, p := range ps {
		kind := "S"
		if p.role == "go" {
			kind = "G"
		}
		f = append(f, kind, I(int64(p.depth)), B(p.markerSet), HS(p.marker), B(p.uv == "1"))
	}
	return f
}

func setupDir(dir string, c startCase) (tdir string) {
	os.MkdirAll(filepath.Join(dir, "home"), 0777)
	if c.broken {
		os.MkdirAll(filepath.Join(dir, "cwd"), 0777)
		os.WriteFile(filepath.Join(dir, "afile"), []byte("x"), 0666)
		return filepath.Join(dir, "afile", "t")
	}
	os.MkdirAll(filepath.Join(dir, "cwd"), 0777)
	switch c.dirSrc {
	case dirNone:
		return filepath.Join(dir, "nowhere")
	case dirEnv:
		tdir = filepath.Join(dir, "home", "cfg", "go", "telemetry")
	default:
		tdir = filepath.Join(dir, "t")
	}
	os.MkdirAll(tdir, 0777)
	if c.modeFile != nil {
		os.WriteFile(filepath.Join(tdir, "mode"), []byte(*c.modeFile), 0666)
	}
	if c.localPre || c.token.present {
		os.MkdirAll(filepath.Join(tdir, "local"), 0777)
	}
	if c.debugDir {
		os.MkdirAll(filepath.Join(tdir, "debug"), 0777)
	}
	if c.token.present {
		tf := filepath.Join(tdir, "local", "upload.token")
		os.WriteFile(tf, nil, 0666)
		t := time.Now().Add(-c.token.age)
		os.Chtimes(tf, t, t)
	}
	return tdir
}

func asofFields(a *int64) []string {
	if a == nil {
		return []string{"Z"}
	}
	return []string{"O", I(*a)}
}

func tokenFields(t tokenSpec) []string {
	if !t.present {
		return []string{"A"}
	}
	return []string{"P", I(int64(t.age))}
}

func runStart(idx int, c startCase) []string {
	dir := filepath.Join(root, fmt.Sprintf("c%d", idx))
	os.MkdirAll(dir, 0777)
	defer os.RemoveAll(dir)
	tdir := setupDir(dir, c)
	// the mode FILE is the input (the model does its own reading of it); N = missing / unreadable
	modeFile := []string{"N"}
	if data, err := os.ReadFile(filepath.Join(tdir, "mode")); err == nil && c.dirSrc != dirNone {
		modeFile = []string{"F", H(data)}
	}
	tf := filepath.Join(tdir, "local", "upload.token")
	var tokBefore int64
	if fi, err := os.Stat(tf); err == nil {
		tokBefore = fi.ModTime().UnixNano()
	}
	cwd := filepath.Join(dir, "cwd")
	before, beforeCwd := snapshot(tdir), snapshot(cwd)

	pr, pw, err := os.Pipe()
	if err != nil {
		panic(err)
	}
	cmd := exec.Command(self, "** vh_start app **")
	cmd.Env = baseEnvSrc(dir, tdir, c.dirSrc)
	cmd.Dir = cwd
	if c.maybeChild {
		cmd.Env = append(cmd.Env, entryEnv+"=maybechild")
	}
	if c.asof != nil {
		cmd.Env = append(cmd.Env, asofEnv+"="+strconv.FormatInt(*c.asof, 10))
	}
	if c.markerSet {
		cmd.Env = append(cmd.Env, childVar+"="+c.marker)
	}
	if c.uvSet {
		cmd.Env = append(cmd.Env, uploadVar+"=1")
	}
	if c.crash {
		cmd.Env = append(cmd.Env, crashEnv+"=1")
	}
	if c.upload {
		cmd.Env = append(cmd.Env, uploadEnv+"=1")
	}
	cmd.ExtraFiles = []*os.File{pw}
	exit := 0
	if err := cmd.Run(); err != nil {
		if ee, ok := err.(*exec.ExitError); ok {
			exit = ee.ExitCode()
		} else {
			panic(err)
		}
	}
	pw.Close()
	if !waitAll(pr) {
		fmt.Fprintf(os.Stderr, "vh_start: descendants of case %d did not exit\n", idx)
		os.Exit(3)
	}
	pr.Close()
	after, afterCwd := snapshot(tdir), snapshot(cwd)
	recs, returned, _ := parseLog(filepath.Join(dir, "log"))

	tokExists, tokCreated := false, false
	if fi, err := os.Stat(tf); err == nil {
		tokExists = true
		tokCreated = !c.token.present || fi.ModTime().UnixNano() != tokBefore
	}
	entry := "start"
	if c.maybeChild {
		entry = "maybechild"
	}
	f := []string{"start", []string{"cfg", "env", "none"}[c.dirSrc], entry, B(c.markerSet), HS(c.marker), B(c.uvSet), B(c.crash), B(c.upload)}
	f = append(f, asofFields(c.asof)...)
	f = append(f, modeFile...)
	f = append(f, B(!c.broken))
	f = append(f, tokenFields(c.token)...)
	f = append(f, I(int64(exit)), B(returned["app/0"]))
	f = append(f, procFields(recs)...)
	f = append(f, B(tokExists), B(tokCreated), B(!sameSnap(before, after) || !sameSnap(beforeCwd, afterCwd)))
	return f
}

func runRace(idx, n int, tok tokenSpec, asof *int64) []string {
	dir := filepath.Join(root, fmt.Sprintf("r%d", idx))
	os.MkdirAll(dir, 0777)
	defer os.RemoveAll(dir)
	local := "local"
	tdir := setupDir(dir, startCase{modeFile: &local, token: tok})
	pr, pw, _ := os.Pipe()
	br, bw, _ := os.Pipe()
	cmds := make([]*exec.Cmd, n)
	for i := range cmds {
		cmd := exec.Command(self, "** vh_start racer **")
		cmd.Env = append(baseEnv(dir, tdir), uploadEnv+"=1", barrierEnv+"=4")
		if asof != nil {
			cmd.Env = append(cmd.Env, asofEnv+"="+strconv.FormatInt(*asof, 10))
		}
		cmd.ExtraFiles = []*os.File{pw, br}
		if err := cmd.Start(); err != nil {
			panic(err)
		}
		cmds[i] = cmd
	}
	pw.Close()
	br.Close()
	// release when all starters are at the barrier (or after 5 s)
	for t0 := time.Now(); time.Since(t0) < 5*time.Second; time.Sleep(2 * time.Millisecond) {
		if _, _, ready := parseLog(filepath.Join(dir, "log")); ready >= n {
			break
		}
	}
	bw.Close()
	for _, cmd := range cmds {
		cmd.Wait()
	}
	if !waitAll(pr) {
		fmt.Fprintf(os.Stderr, "vh_start: descendants of race %d did not exit\n", idx)
		os.Exit(3)
	}
	pr.Close()
	recs, _, _ := parseLog(filepath.Join(dir, "log"))
	f := []string{"race", I(int64(n))}
	f = append(f, tokenFields(tok)...)
	f = append(f, asofFields(asof)...)
	f = append(f, procFields(recs)...)
	return f
}

// tokRace: n goroutines of THIS process call telemetry.Start (Upload set) at
// once; a goroutine that acquires the token launches the sidecar, which is this
// binary again and logs its start.  The number of uploading sidecars is the
// number of acquisitions.
func tokRace(idx, n int, tok tokenSpec, asof *int64) []string {
	dir := filepath.Join(root, fmt.Sprintf("k%d", idx))
	os.MkdirAll(dir, 0777)
	defer os.RemoveAll(dir)
	local := "local"
	tdir := setupDir(dir, startCase{modeFile: &local, localPre: true, token: tok})
	// what the sidecars inherit
	os.Setenv(roleEnv, "app")
	os.Setenv(logEnv, filepath.Join(dir, "log"))
	os.Setenv(depthEnv, "1")
	os.Setenv(tdirEnv, tdir)
	os.Setenv(uploadEnv, "1")
	defer os.Unsetenv(roleEnv)
	cfg := telemetry.Config{TelemetryDir: tdir, Upload: true, UploadURL: "http://127.0.0.1:1/"}
	if asof != nil {
		cfg.UploadStartTime = time.Now().Add(time.Duration(*asof) * time.Second)
	}
	start := make(chan struct{})
	var wg sync.WaitGroup
	for i := 0; i < n; i++ {
		wg.Add(1)
		go func() {
			defer wg.Done()
			<-start
			telemetry.Start(cfg).Wait()
		}()
	}
	close(start)
	wg.Wait()
	recs, _, _ := parseLog(filepath.Join(dir, "log"))
	won := 0
	for _, r := range recs {
		if r.marker == "1" && r.uv == "1" {
			won++
		}
	}
	f := []string{"tokrace", I(int64(n))}
	f = append(f, tokenFields(tok)...)
	f = append(f, asofFields(asof)...)
	return append(f, I(int64(won)))
}

// runHistory: k starts one after the other on one directory (Upload set, mode
// local).  Before each start the token, if there is one, is aged: its
// modification time is moved back by a generated amount - exactly what the
// passage of that much real time does to its age.
func runHistory(idx int, rnd *Rand) []string {
	dir := filepath.Join(root, fmt.Sprintf("h%d", idx))
	os.MkdirAll(dir, 0777)
	defer os.RemoveAll(dir)
	local := "local"
	var tok tokenSpec
	if rnd.Chance(40) {
		tok = tokenSpec{true, Pick(rnd, []time.Duration{time.Minute, 13 * time.Hour, 23*time.Hour + 50*time.Minute, 24*time.Hour + 10*time.Minute, 72 * time.Hour})}
	}
	tdir := setupDir(dir, startCase{modeFile: &local, localPre: true, token: tok})
	tf := filepath.Join(tdir, "local", "upload.token")
	k := 3 + rnd.Intn(4)
	f := []string{"history"}
	f = append(f, tokenFields(tok)...)
	f = append(f, I(int64(k)))
	for i := 0; i < k; i++ {
		delta := Pick(rnd, []time.Duration{0, 0, time.Hour, 11 * time.Hour, 13 * time.Hour, 23*time.Hour + 50*time.Minute,
			24*time.Hour + 10*time.Minute, 25 * time.Hour, 72 * time.Hour})
		if i == 0 {
			delta = 0
		}
		var before int64
		if fi, err := os.Stat(tf); err == nil {
			t := fi.ModTime().Add(-delta)
			os.Chtimes(tf, t, t)
			before = t.UnixNano()
		}
		var asof *int64
		if rnd.Chance(45) {
			a := Pick(rnd, []int64{0, 25 * 3600, 8 * 86400, 400 * 86400, -25 * 3600, 3600})
			asof = &a
		}
		// between two starts the user (or a tool) may set the mode again, to the
		// same or another non-off value: that is no reason for a new token
		setMode := i > 0 && rnd.Chance(50)
		if setMode {
			if err := it.NewDir(tdir).SetMode(Pick(rnd, []string{"local", "local", "on"})); err != nil {
				panic(err)
			}
			if fi, err := os.Stat(tf); err == nil {
				before = fi.ModTime().UnixNano()
			} else {
				before = 0
			}
		}
		os.Remove(filepath.Join(dir, "log"))
		pr, pw, _ := os.Pipe()
		cmd := exec.Command(self, "** vh_start history **")
		cmd.Env = append(baseEnv(dir, tdir), uploadEnv+"=1")
		if asof != nil {
			cmd.Env = append(cmd.Env, asofEnv+"="+strconv.FormatInt(*asof, 10))
		}
		cmd.Dir = filepath.Join(dir, "cwd")
		cmd.ExtraFiles = []*os.File{pw}
		cmd.Run()
		pw.Close()
		if !waitAll(pr) {
			fmt.Fprintf(os.Stderr, "vh_start: descendants of history %d did not exit\n", idx)
			os.Exit(3)
		}
		pr.Close()
		recs, _, _ := parseLog(filepath.Join(dir, "log"))
		launched := false
		for _, r := range recs {
			if r.depth >= 1 && r.marker == "1" && r.uv == "1" {
				launched = true
			}
		}
		created := false
		if fi, err := os.Stat(tf); err == nil {
			created = fi.ModTime().UnixNano() != before
		}
		f = append(f, I(int64(delta)))
		f = append(f, asofFields(asof)...)
		f = append(f, B(setMode), B(launched), B(created))
	}
	return f
}

func sp(s string) *string { return &s }

func main() {
	if filepath.Base(os.Args[0]) == "go" {
		instrumented("go")
		return
	}
	if os.Getenv(roleEnv) != "" {
		instrumented("app")
		return
	}
	outPath := os.Args[1]
	n, _ := strconv.Atoi(os.Args[2])
	rnd := NewRand(Seed())
	out = NewOut(outPath)
	var err error
	root, err = os.MkdirTemp("", "vh_start")
	if err != nil {
		panic(err)
	}
	defer os.RemoveAll(root)
	self, err = os.Executable()
	if err != nil {
		panic(err)
	}
	fakebin = filepath.Join(root, "fakebin")
	os.MkdirAll(fakebin, 0777)
	if err := os.Symlink(self, filepath.Join(fakebin, "go")); err != nil {
		panic(err)
	}

	// the full table first, then generated cases with the remaining dimensions
	type markerSpec struct {
		set bool
		v   string
	}
	markers := []markerSpec{{false, ""}, {true, ""}, {true, "1"}, {true, "2"}, {true, "x"}}
	// as SetMode writes them, and as a user's `echo off > mode` does (no date, line end)
	modes := []*string{sp("on 2024-01-05"), sp("local 2024-01-05"), sp("off 2024-01-05"), sp("garbage"), sp("off\n"), sp("on\n")}
	tokens := []tokenSpec{{false, 0}, {true, time.Hour}, {true, 25 * time.Hour}}
	var cases []startCase
	for _, mc := range []bool{false, true} {
		for _, mk := range markers {
			for _, crash := range []bool{false, true} {
				for _, upload := range []bool{false, true} {
					for _, md := range modes {
						for _, tk := range tokens {
							cases = append(cases, startCase{maybeChild: mc, markerSet: mk.set, marker: mk.v, crash: crash, upload: upload,
								modeFile: md, token: tk, localPre: rnd.Bool(), debugDir: rnd.Chance(25)})
						}
					}
				}
			}
		}
	}
	// no telemetry directory at all (os.UserConfigDir fails, no TelemetryDir)
	for _, mc := range []bool{false, true} {
		for _, mk := range markers {
			for _, crash := range []bool{false, true} {
				for _, upload := range []bool{false, true} {
					cases = append(cases, startCase{dirSrc: dirNone, maybeChild: mc, markerSet: mk.set, marker: mk.v,
						crash: crash, upload: upload})
				}
			}
		}
	}
	// the default directory below the user configuration directory
	for _, mk := range []markerSpec{{false, ""}, {true, "1"}} {
		for _, crash := range []bool{false, true} {
			for _, upload := range []bool{false, true} {
				for _, md := range modes {
					for _, tk := range []tokenSpec{{false, 0}, {true, 25 * time.Hour}} {
						cases = append(cases, startCase{dirSrc: dirEnv, markerSet: mk.set, marker: mk.v, crash: crash, upload: upload,
							modeFile: md, token: tk, localPre: rnd.Bool()})
					}
				}
			}
		}
	}
	// Config.UploadStartTime more than a period ahead of the real clock (its documented use)
	for _, ahead := range []int64{25 * 3600, 8 * 86400} {
		for _, crash := range []bool{false, true} {
			for _, md := range []*string{sp("on 2024-01-05"), sp("local 2024-01-05")} {
				for _, tk := range tokens {
					a := ahead
					cases = append(cases, startCase{asof: &a, crash: crash, upload: true, modeFile: md, token: tk, localPre: true})
				}
			}
		}
	}
	moreMarkers := []markerSpec{{false, ""}, {true, ""}, {true, "1"}, {true, "2"}, {true, "x"}, {true, "0"}, {true, "11"},
		{true, " 1"}, {true, "true"}, {true, "3"}}
	moreModes := []*string{nil, sp("on"), sp("on 2024-01-05"), sp("local"), sp("off"), sp("off 2024-01-05\n"), sp(" off"),
		sp("Off"), sp("offf"), sp("of"), sp("garbage"), sp(""), sp("on 2024-13-45"), sp("local 2024-01-05"),
		// hand-written files: line ends, blanks, tabs, CRLF, NBSP, no date, date on the next line
		sp("off\n"), sp("off\r\n"), sp("off  "), sp("\toff\n"), sp("off 2024-01-05\r\n"), sp("off  2024-01-05"), sp("off garbage"),
		sp("off\u00a0"), sp("\n\noff\n\n"), sp("off\n2024-01-05"), sp("off\t2024-01-05"), sp("off\x00"), sp("o ff"), sp("OFF\n"),
		sp("on\n"), sp("on \n"), sp("local\n"), sp("local\r\n"), sp(" on 2024-01-05 \n"), sp("\n"), sp("off\n\n"), sp("off \n")}
	ages := []time.Duration{0, time.Minute, time.Hour, 23*time.Hour + 50*time.Minute, -time.Hour,
		24*time.Hour + 10*time.Minute, 25 * time.Hour, 365 * 24 * time.Hour}
	for len(cases) < n {
		mk := Pick(rnd, moreMarkers)
		if rnd.Chance(50) {
			mk = markerSpec{rnd.Bool(), ""}
		}
		c := startCase{maybeChild: rnd.Bool(), markerSet: mk.set, marker: mk.v, uvSet: rnd.Chance(20), crash: rnd.Bool(), upload: rnd.Chance(65),
			modeFile: Pick(rnd, moreModes), localPre: rnd.Bool(), debugDir: rnd.Chance(30), broken: rnd.Chance(6)}
		if rnd.Chance(70) {
			c.token = tokenSpec{true, Pick(rnd, ages)}
		}
		if c.broken { // nothing can exist below a regular file
			c.token = tokenSpec{}
		}
		if rnd.Chance(35) {
			a := Pick(rnd, []int64{0, 3600, 25 * 3600, 8 * 86400, 400 * 86400, -25 * 3600, -8 * 86400})
			c.asof = &a
		}
		switch r := rnd.Intn(100); {
		case r < 12:
			c.dirSrc, c.broken = dirEnv, false
		case r < 24:
			c.dirSrc, c.broken = dirNone, false
			c.token, c.modeFile, c.localPre, c.debugDir = tokenSpec{}, nil, false, false
		}
		cases = append(cases, c)
	}

	const workers = 6
	results := make([][]string, len(cases))
	var wg sync.WaitGroup
	next := make(chan int)
	for w := 0; w < workers; w++ {
		wg.Add(1)
		go func() {
			defer wg.Done()
			for i := range next {
				results[i] = runStart(i, cases[i])
			}
		}()
	}
	for i := range cases {
		next <- i
	}
	close(next)
	wg.Wait()
	for i, f := range results {
		c := cases[i]
		if c.broken {
			out.Note("telemetry-dir-unreachable")
		}
		out.Note("dir-source-" + []string{"config", "user-config-dir", "none-env-unset"}[c.dirSrc])
		if c.asof != nil && *c.asof >= 24*3600 {
			out.Note("upload-start-time-over-a-period-ahead")
		} else if c.asof != nil {
			out.Note("upload-start-time-set")
		}
		if c.maybeChild {
			out.Note("entry-maybechild-then-start")
		} else {
			out.Note("entry-start")
		}
		if c.uvSet {
			out.Note("upload-var-preset")
		}
		if c.modeFile == nil {
			out.Note("mode-file-absent")
		}
		if !c.token.present {
			out.Note("token-absent")
		} else if c.token.age < 24*time.Hour {
			out.Note("token-fresh")
		} else {
			out.Note("token-stale")
		}
		if !c.markerSet {
			out.Note("marker-unset")
		} else {
			out.Note("marker=" + strconv.Quote(c.marker))
		}
		out.Case(true, f...)
	}

	// concurrent starters racing for the token (run one race at a time)
	races := 12
	if os.Getenv("VERIF_TIER") == "thorough" {
		races = 80
	}
	raceTokens := []tokenSpec{{false, 0}, {false, 0}, {true, time.Hour}, {true, 25 * time.Hour}}
	for i := 0; i < races; i++ {
		tk := raceTokens[i%len(raceTokens)]
		var asof *int64
		if i%2 == 1 {
			a := Pick(rnd, []int64{25 * 3600, 8 * 86400, 400 * 86400})
			asof = &a
		}
		f := runRace(i, 8, tk, asof)
		out.Note("race")
		out.Case(true, f...)
	}
	// telemetry.Start raced by goroutines of this process
	rounds := 400
	if os.Getenv("VERIF_TIER") == "thorough" {
		rounds = 6000
	}
	for i := 0; i < rounds; i++ {
		var tk tokenSpec
		switch i % 8 {
		case 6:
			tk = tokenSpec{true, Pick(rnd, ages[:5])}
		case 7:
			tk = tokenSpec{true, Pick(rnd, ages[5:])}
		}
		var asof *int64
		if i%3 == 1 {
			a := Pick(rnd, []int64{0, 25 * 3600, 8 * 86400, 400 * 86400, -25 * 3600})
			asof = &a
		}
		f := tokRace(i, 4+rnd.Intn(13), tk, asof)
		out.Note("tokrace")
		if tk.present && tk.age >= 24*time.Hour && f[len(f)-1] != "i1" {
			out.Note("tokrace-stale-token-winners-not-1")
		}
		out.Case(true, f...)
	}
	// histories of starts on one directory, real time passing in between
	hist := 60
	if os.Getenv("VERIF_TIER") == "thorough" {
		hist = 600
	}
	for i := 0; i < hist; i++ {
		out.Note("history")
		out.Case(true, runHistory(i, rnd)...)
	}
	out.Close()
}
