package main

// GENERATED (see git history of the C14 harness): functions with very long
// names, so that 16 frames of them encode to more than the 4096-byte counter
// name limit.  prog = [which, count, which, count, ...]; each function
// recurses count times, then hands the rest of prog to longDispatch; at the end
// leaf is called.

//go:noinline
func longDispatch(prog []int, leaf func()) int {
	if len(prog) < 2 {
		leaf()
		return 0
	}
	switch prog[0] % 6 {
	case 0:
		return L60_VeryLongFunctionNameSegmentForStackCounterTruncationTest(prog[1], prog[2:], leaf)
	case 1:
		return L120_VeryLongFunctionNameSegmentForStackCounterTruncationTestsVeryLongFunctionNameSegmentForStackCounterTruncationTestsV(prog[1], prog[2:], leaf)
	case 2:
		return L200_VeryLongFunctionNameSegmentForStackCounterTruncationTestsVeryLongFunctionNameSegmentForStackCounterTruncationTestsVeryLongFunctionNameSegmentForStackCounterTruncationTestsVeryLongFunctionNameSegm(prog[1], prog[2:], leaf)
	case 3:
		return L250_VeryLongFunctionNameSegmentForStackCounterTruncationTestsVeryLongFunctionNameSegmentForStackCounterTruncationTestsVeryLongFunctionNameSegmentForStackCounterTruncationTestsVeryLongFunctionNameSegmentForStackCounterTruncationTestsVeryLongFunctionN(prog[1], prog[2:], leaf)
	case 4:
		return L300_VeryLongFunctionNameSegmentForStackCounterTruncationTestsVeryLongFunctionNameSegmentForStackCounterTruncationTestsVeryLongFunctionNameSegmentForStackCounterTruncationTestsVeryLongFunctionNameSegmentForStackCounterTruncationTestsVeryLongFunctionNameSegmentForStackCounterTruncationTestsVeryLongFu(prog[1], prog[2:], leaf)
	case 5:
		return L400u_世界你好Ωμέγα世界你好Ωμέγα世界你好Ωμέγα世界你好Ωμέγα世界你好Ωμέγα世界你好Ωμέγα世界你好Ωμέγα世界你好Ωμέγα世界你好Ωμέγα世界你好Ωμέγα世界你好Ωμέγα世界你好Ωμέγα世界你好Ωμέγα世界你好Ωμέγα世界你好Ωμέγα世界你好Ωμέγα世界你好Ωμ(prog[1], prog[2:], leaf)
	}
	return 0
}

//go:noinline
func L60_VeryLongFunctionNameSegmentForStackCounterTruncationTest(k int, rest []int, leaf func()) int {
	if k > 1 {
		return L60_VeryLongFunctionNameSegmentForStackCounterTruncationTest(k-1, rest, leaf) + 1
	}
	return longDispatch(rest, leaf) + 1
}

//go:noinline
func L120_VeryLongFunctionNameSegmentForStackCounterTruncationTestsVeryLongFunctionNameSegmentForStackCounterTruncationTestsV(k int, rest []int, leaf func()) int {
	if k > 1 {
		return L120_VeryLongFunctionNameSegmentForStackCounterTruncationTestsVeryLongFunctionNameSegmentForStackCounterTruncationTestsV(k-1, rest, leaf) + 1
	}
	return longDispatch(rest, leaf) + 1
}

//go:noinline
func L200_VeryLongFunctionNameSegmentForStackCounterTruncationTestsVeryLongFunctionNameSegmentForStackCounterTruncationTestsVeryLongFunctionNameSegmentForStackCounterTruncationTestsVeryLongFunctionNameSegm(k int, rest []int, leaf func()) int {
	if k > 1 {
		return L200_VeryLongFunctionNameSegmentForStackCounterTruncationTestsVeryLongFunctionNameSegmentForStackCounterTruncationTestsVeryLongFunctionNameSegmentForStackCounterTruncationTestsVeryLongFunctionNameSegm(k-1, rest, leaf) + 1
	}
	return longDispatch(rest, leaf) + 1
}

//go:noinline
func L250_VeryLongFunctionNameSegmentForStackCounterTruncationTestsVeryLongFunctionNameSegmentForStackCounterTruncationTestsVeryLongFunctionNameSegmentForStackCounterTruncationTestsVeryLongFunctionNameSegmentForStackCounterTruncationTestsVeryLongFunctionN(k int, rest []int, leaf func()) int {
	if k > 1 {
		return L250_VeryLongFunctionNameSegmentForStackCounterTruncationTestsVeryLongFunctionNameSegmentForStackCounterTruncationTestsVeryLongFunctionNameSegmentForStackCounterTruncationTestsVeryLongFunctionNameSegmentForStackCounterTruncationTestsVeryLongFunctionN(k-1, rest, leaf) + 1
	}
	return longDispatch(rest, leaf) + 1
}

//go:noinline
func L300_VeryLongFunctionNameSegmentForStackCounterTruncationTestsVeryLongFunctionNameSegmentForStackCounterTruncationTestsVeryLongFunctionNameSegmentForStackCounterTruncationTestsVeryLongFunctionNameSegmentForStackCounterTruncationTestsVeryLongFunctionNameSegmentForStackCounterTruncationTestsVeryLongFu(k int, rest []int, leaf func()) int {
	if k > 1 {
		return L300_VeryLongFunctionNameSegmentForStackCounterTruncationTestsVeryLongFunctionNameSegmentForStackCounterTruncationTestsVeryLongFunctionNameSegmentForStackCounterTruncationTestsVeryLongFunctionNameSegmentForStackCounterTruncationTestsVeryLongFunctionNameSegmentForStackCounterTruncationTestsVeryLongFu(k-1, rest, leaf) + 1
	}
	return longDispatch(rest, leaf) + 1
}

//go:noinline
func L400u_世界你好Ωμέγα世界你好Ωμέγα世界你好Ωμέγα世界你好Ωμέγα世界你好Ωμέγα世界你好Ωμέγα世界你好Ωμέγα世界你好Ωμέγα世界你好Ωμέγα世界你好Ωμέγα世界你好Ωμέγα世界你好Ωμέγα世界你好Ωμέγα世界你好Ωμέγα世界你好Ωμέγα世界你好Ωμέγα世界你好Ωμ(k int, rest []int, leaf func()) int {
	if k > 1 {
		return L400u_世界你好Ωμέγα世界你好Ωμέγα世界你好Ωμέγα世界你好Ωμέγα世界你好Ωμέγα世界你好Ωμέγα世界你好Ωμέγα世界你好Ωμέγα世界你好Ωμέγα世界你好Ωμέγα世界你好Ωμέγα世界你好Ωμέγα世界你好Ωμέγα世界你好Ωμέγα世界你好Ωμέγα世界你好Ωμέγα世界你好Ωμ(k-1, rest, leaf) + 1
	}
	return longDispatch(rest, leaf) + 1
}
