// vh_crash: correspondence harness for C14 (crash reports -> counter names).
//
// Runs the REAL telemetryCounterName / parseStackPCs (injected exporters in
// internal/crashmonitor) on:
//   - real tracebacks, produced by crashing child processes of this very
//     binary (re-exec with VH_CRASH_KIND; see child.go), unchanged;
//   - the same with every non-PC field rewritten (messages, arguments, file
//     paths, symbols, headers, other goroutines) - the projection ("view")
//     stays the same;
//   - sentinel variations, broken pairing, PC spellings, relocations;
//   - synthetic reports and random bytes.
//
// Case kinds (one record = child-sentinel text status pcs frames16 enc16 name DecodeStack(name)):
//
//	name  <tag> record
//	real  <kind> record expected-known expected-match
//	reloc record record           second text = first with sentinel and pcs shifted
//	child sentinel text status [name] frames16   the report delivered on stdin to a process running the
//	                                             real crashmonitor.Child (status ok | err = crash/malformed | nocrash)
//	uint  string status value     strconv.ParseUint(s, 0, 64) itself (the model's parse_uint0)
//	sscan line status value       fmt.Sscanf(line, "sentinel %x", &u64) itself (the model's scan_sentinel)
package main

import (
	"context"
	"fmt"
	"os"
	"os/exec"
	"path/filepath"
	"runtime"
	"strconv"
	"strings"
	"time"

	"golang.org/x/telemetry/internal/counter"
	"golang.org/x/telemetry/internal/crashmonitor"
	. "golang.org/x/telemetry/internal/verifh/vhlib"
)

var rnd *Rand
var out *Out
var childSentinel uint64

// ---------------------------------------------------------------- running the real code

type frame struct {
	fn      string
	hasFunc bool
	line    int
	off     uintptr
}

func framesOf(pcs []uintptr) []frame {
	var res []frame
	frs := runtime.CallersFrames(pcs)
	for {
		fr, more := frs.Next()
		f := frame{fn: fr.Function, hasFunc: fr.Func != nil, off: fr.PC - fr.Entry}
		if fr.Func != nil {
			_, entryLine := fr.Func.FileLine(fr.Entry)
			f.line = fr.Line - entryLine
		} else {
			f.line = fr.Line
		}
		res = append(res, f)
		if !more {
			break
		}
	}
	return res
}

// hangLimit: a real call that does not return within this time is reported as a
// case "hang" with its input, and the harness stops (the stuck goroutine cannot
// be killed).
const hangLimit = 20 * time.Second

func hang(what, text string) {
	out.Note("hang")
	out.Case(true, "hang", what, U(childSentinel), HS(text))
	out.Close()
	os.RemoveAll(scratchDir)
	os.Exit(0)
}

// record runs the real functions on text (under the watchdog) and renders the observation.
func record(text string) (fields []string, pcs []uintptr, name string, ok bool) {
	done := make(chan struct{})
	go func() {
		defer close(done)
		fields, pcs, name, ok = record1(text)
	}()
	select {
	case <-done:
	case <-time.After(hangLimit):
		hang("telemetryCounterName", text)
	}
	return
}

func record1(text string) (fields []string, pcs []uintptr, name string, ok bool) {
	status := "ok"
	var err error
	func() {
		defer func() {
			if r := recover(); r != nil {
				status = "panic"
			}
		}()
		name, err = crashmonitor.VerifTelemetryCounterName([]byte(text))
		if err != nil {
			status = "err"
			return
		}
		pcs, err = crashmonitor.VerifParseStackPCs(text)
		if err != nil {
			status = "inconsistent" // the two entry points disagree
		}
	}()
	fields = []string{U(childSentinel), HS(text), status}
	if status != "ok" {
		return fields, nil, "", false
	}
	fields = append(fields, I(int64(len(pcs))))
	for _, pc := range pcs {
		fields = append(fields, U(uint64(pc)))
	}
	p16 := pcs
	if len(p16) > 16 {
		p16 = p16[:16]
	}
	if len(p16) == 0 {
		fields = append(fields, I(0), HS(""))
	} else {
		fs := framesOf(p16)
		fields = append(fields, I(int64(len(fs))))
		for _, f := range fs {
			fields = append(fields, HS(f.fn), B(f.hasFunc), I(int64(f.line)), U(uint64(f.off)))
		}
		fields = append(fields, HS(counter.EncodeStack(p16, "crash/crash")))
	}
	fields = append(fields, HS(name), HS(counter.DecodeStack(name)))
	return fields, pcs, name, true
}

// ---------------------------------------------------------------- real crashes

var kinds = []string{"hugemsg", "generic-chain", "longmsg", "longnames", "longnames-unicode", "longnames-mixed", "nil", "panic", "index", "map", "inlined", "method", "generic", "goroutine", "deep16", "deep", "deadlock"}

type realCrash struct {
	kind     string
	text     string
	expected []uintptr // pcs below runtime.gopanic as runtime.Callers saw them while unwinding
	haveExp  bool
}

var reals []realCrash

func produceCrashes(dir string) {
	exe, err := os.Executable()
	if err != nil {
		panic(err)
	}
	for _, k := range kinds {
		outf := filepath.Join(dir, k+".crash")
		side := filepath.Join(dir, k+".side")
		cmd := exec.Command(exe)
		cmd.Env = append(os.Environ(), "VH_CRASH_KIND="+k, "VH_CRASH_OUT="+outf, "VH_CRASH_SIDE="+side)
		cmd.Stderr = nil
		cmd.Run() // exits non-zero by design
		data, err := os.ReadFile(outf)
		if err != nil || len(data) == 0 {
			fmt.Fprintf(os.Stderr, "vh_crash: child %s left no crash report\n", k)
			os.Exit(2)
		}
		rc := realCrash{kind: k, text: string(data)}
		if sd, err := os.ReadFile(side); err == nil {
			for _, l := range strings.Fields(string(sd)) {
				v, _ := strconv.ParseUint(l, 16, 64)
				rc.expected = append(rc.expected, uintptr(v))
			}
			rc.haveExp = true
		}
		reals = append(reals, rc)
	}
}

func caseReal(rc realCrash) {
	fields, pcs, _, ok := record(rc.text)
	match := false
	if ok && rc.haveExp && len(pcs) > 0 {
		// the first pc is runtime.gopanic's own frame (printed as "panic(...)"); the
		// frames below it must be exactly the pcs runtime.Callers reported
		// (compared as symbolised frames - function and line - because runtime.Callers
		// reports one pc per inlined logical frame while the traceback has one pc per
		// physical frame)
		got := framesOf(pcs[1:])
		want := framesOf(rc.expected)
		match = len(got) == len(want)
		for i := 0; match && i < len(got); i++ {
			match = got[i].fn == want[i].fn && got[i].line == want[i].line && got[i].hasFunc == want[i].hasFunc
		}
	}
	all := append([]string{"real", rc.kind}, fields...)
	all = append(all, B(rc.haveExp), B(match))
	out.Note("real-" + rc.kind)
	out.Case(true, all...)
}

// ---------------------------------------------------------------- through the real Child process

var scratchDir string
var childSeq int

// runChild delivers text on the stdin of a process running the real
// crashmonitor.Child and returns what it would have counted.
func runChild(text string) (status, name string) {
	exe, err := os.Executable()
	if err != nil {
		panic(err)
	}
	childSeq++
	outf := filepath.Join(scratchDir, fmt.Sprintf("monitor-%d.out", childSeq))
	ctx, cancel := context.WithTimeout(context.Background(), hangLimit)
	defer cancel()
	cmd := exec.CommandContext(ctx, exe)
	cmd.Env = append(os.Environ(), "VH_MONITOR_OUT="+outf, "TMPDIR="+scratchDir)
	cmd.Stdin = strings.NewReader(text)
	cmd.Run() // Child ends with log.Fatal or os.Exit
	if ctx.Err() != nil {
		return "hang", ""
	}
	data, _ := os.ReadFile(outf)
	os.Remove(outf)
	var names []string
	exited := false
	for _, l := range strings.Split(string(data), "\n") {
		if strings.HasPrefix(l, "name ") {
			var b []byte
			fmt.Sscanf(l, "name %x", &b)
			names = append(names, string(b))
		} else if l == "exit" {
			exited = true
		}
	}
	switch {
	case len(names) == 1 && names[0] == "crash/malformed":
		return "err", ""
	case len(names) == 1:
		return "ok", names[0]
	case len(names) == 0 && exited:
		return "nocrash", ""
	}
	return "unexpected", strings.Join(names, "|")
}

func caseChild(tag, text string) {
	status, name := runChild(text)
	fields := []string{"child", U(childSentinel), HS(text), status}
	if status == "ok" {
		fields = append(fields, HS(name))
	}
	// frames of the pcs the report yields in this process (the model's symboliser)
	var fs []frame
	func() {
		defer func() { recover() }() // a panic of the in-process parser is reported by the name cases
		if pcs, err := crashmonitor.VerifParseStackPCs(text); err == nil && len(pcs) > 0 {
			if len(pcs) > 16 {
				pcs = pcs[:16]
			}
			fs = framesOf(pcs) // runtime.CallersFrames only: no code under test
		}
	}()
	fields = append(fields, I(int64(len(fs))))
	for _, f := range fs {
		fields = append(fields, HS(f.fn), B(f.hasFunc), I(int64(f.line)), U(uint64(f.off)))
	}
	out.Note("child-" + status + "-" + tag)
	out.Case(true, fields...)
}

// straddle inserts a long non-PC line so that byte offset limit of the report
// falls inside (or just before) the first running goroutine's stack.
func straddle(text string, limit int) string {
	h := strings.Index(text, "\ngoroutine ")
	for h >= 0 {
		e := strings.Index(text[h+1:], "\n")
		if e < 0 || strings.Contains(text[h+1:h+1+e], " [running]:") {
			break
		}
		n := strings.Index(text[h+1:], "\ngoroutine ")
		if n < 0 {
			h = -1
			break
		}
		h = h + 1 + n
	}
	if h < 0 {
		return text
	}
	end := strings.Index(text[h+1:], "\n\n")
	if end < 0 {
		end = len(text) - h - 1
	}
	cut := h - 40 + rnd.Intn(end+80) // somewhere from just before the header to just after the stack
	if cut < 0 {
		cut = 0
	}
	l := limit - cut - 1
	if l < 1 {
		return text
	}
	nl := strings.Index(text, "\n") // after the sentinel line
	if nl < 0 || nl >= h {
		nl = -1
	}
	return text[:nl+1] + "panic: " + strings.Repeat("m", l-7) + "\n" + text[nl+1:]
}

// ---------------------------------------------------------------- structured tracebacks

type tb struct {
	pre    []string // lines before the header of the first running goroutine
	header string
	body   []string // symbol / location lines
	rest   []string // terminator and everything after
}

func parseTB(text string) (t tb, ok bool) {
	lines := strings.Split(text, "\n")
	h := -1
	for i, l := range lines {
		if strings.HasPrefix(l, "goroutine ") && strings.Contains(l, " [running]:") {
			h = i
			break
		}
	}
	if h < 0 {
		return tb{pre: lines}, false
	}
	e := h + 1
	for e < len(lines) && lines[e] != "" && !strings.HasPrefix(lines[e], "created by ") {
		e++
	}
	return tb{pre: lines[:h], header: lines[h], body: lines[h+1 : e], rest: lines[e:]}, true
}

func (t tb) String() string {
	var ls []string
	ls = append(ls, t.pre...)
	ls = append(ls, t.header)
	ls = append(ls, t.body...)
	ls = append(ls, t.rest...)
	return strings.Join(ls, "\n")
}

func (t tb) clone() tb {
	return tb{pre: append([]string(nil), t.pre...), header: t.header, body: append([]string(nil), t.body...), rest: append([]string(nil), t.rest...)}
}

var junkWords = []string{"alice@example.com", "/home/alice/.ssh/id_rsa", "password=hunter2", "(", ")", ".(", "(*T).", "pc=", "pc=0x1234", "sp=0xc000", "0x", "é", "\xff\xfe", "\t", "  ", "[running]", "goroutine", "sentinel", "created by", "runtime.sigpanic", "...", "{}", "main.main", ":", "+0x1f", "fp=0x0"}

func junk(n int) string {
	var sb strings.Builder
	for i := 0; i < n; i++ {
		sb.WriteString(Pick(rnd, junkWords))
		if rnd.Chance(40) {
			sb.WriteByte(' ')
		}
	}
	return sb.String()
}

// junk that cannot be mistaken for a sentinel line, a header or a terminator
func safeLine() string {
	for {
		s := junk(1 + rnd.Intn(5))
		if s == "" || strings.HasPrefix(s, "sentinel ") || strings.HasPrefix(s, "created by ") ||
			(strings.HasPrefix(s, "goroutine ") && strings.Contains(s, " [running]:")) {
			continue
		}
		return s
	}
}

func spellPC(v uint64) string {
	switch rnd.Intn(9) {
	case 0:
		return fmt.Sprintf("0X%X", v)
	case 1:
		return fmt.Sprintf("0b%b", v)
	case 2:
		return fmt.Sprintf("0o%o", v)
	case 3:
		return fmt.Sprintf("0%o", v)
	case 4:
		return fmt.Sprintf("%d", v)
	case 5: // underscores between digits
		s := fmt.Sprintf("%x", v)
		var sb strings.Builder
		sb.WriteString("0x")
		for i := 0; i < len(s); i++ {
			if rnd.Chance(30) {
				sb.WriteByte('_')
			}
			sb.WriteByte(s[i])
		}
		return sb.String()
	case 6:
		return fmt.Sprintf("0x%016x", v)
	default:
		return fmt.Sprintf("0x%x", v)
	}
}

// longLine: a non-PC line of at least 64 KiB (longer than bufio.Scanner's default token limit).
func longLine() string {
	n := Pick(rnd, []int{65536, 65537, 70000, 200000, 65535 + rnd.Intn(4096)})
	unit := Pick(rnd, []string{"A", "panic: secret ", "x y ", "\t/home/alice/file.go "})
	s := strings.Repeat(unit, n/len(unit)+1)
	if rnd.Chance(50) {
		s = "panic: " + s
	}
	return s
}

// withLongLine inserts a very long line before the first running goroutine
// (the projection is unchanged).
func withLongLine(text string) string {
	lines := strings.Split(text, "\n")
	h := len(lines)
	for i, l := range lines {
		if strings.HasPrefix(l, "goroutine ") && strings.Contains(l, " [running]:") {
			h = i
			break
		}
	}
	at := rnd.Intn(h + 1)
	res := append([]string{}, lines[:at]...)
	res = append(res, longLine())
	res = append(res, lines[at:]...)
	return strings.Join(res, "\n")
}

// longNameReport: a synthetic report whose frames are REAL pcs of functions
// with very long names (captured in this process), so that the encoded name
// lands near or beyond the 4096-byte limit within 16 frames.
func longNameReport() string {
	var prog []int
	for g := 1 + rnd.Intn(4); g > 0; g-- {
		prog = append(prog, rnd.Intn(6), 1+rnd.Intn(16))
	}
	if rnd.Chance(35) { // a few ASCII frames (they shift the alignment), then non-ASCII long names beyond the limit
		prog = []int{5, 16, rnd.Intn(5), 1 + rnd.Intn(4)}
		out.Note("long-names-unicode")
	}
	var pcs []uintptr
	longDispatch(prog, func() {
		buf := make([]uintptr, 256)
		n := runtime.Callers(2, buf) // from longDispatch upwards
		pcs = append(pcs, buf[:n]...)
	})
	if rnd.Chance(50) && len(pcs) > 1 {
		pcs = pcs[1:] // start at a long frame
	}
	ls := []string{fmt.Sprintf("sentinel %x", childSentinel), "panic: " + junk(2), "", "goroutine 1 [running]:"}
	for _, pc := range pcs {
		ls = append(ls, "some.symbol("+junk(rnd.Intn(2))+")", fmt.Sprintf("\t/src/x.go:1 +0x1 fp=0x1 sp=0x2 pc=0x%x", pc))
	}
	ls = append(ls, "", "goroutine 2 [sleep]:", "x()", "\t/x.go:1 pc=0x1")
	return strings.Join(ls, "\n")
}

// genericReport: a synthetic report over REAL pcs of a stack in which instantiated
// generic functions (named pkg.F[...]) are followed outwards by functions of
// the same package, and by functions of other shapes.
func genericReport() string {
	var pcs []uintptr
	leaf := func() {
		buf := make([]uintptr, 64)
		n := runtime.Callers(1, buf)
		pcs = append(pcs, buf[:n]...)
	}
	switch rnd.Intn(3) {
	case 0:
		plainCaller(1+rnd.Intn(4), leaf)
	case 1:
		generic[string]("x", func(string) int { return plainCaller(rnd.Intn(3), leaf) })
	default:
		(&box{}).viaGeneric(1+rnd.Intn(3), leaf)
	}
	if a := rnd.Intn(3); a < len(pcs) {
		pcs = pcs[a:]
	}
	if len(pcs) > 3 && rnd.Chance(50) {
		pcs = pcs[:len(pcs)-rnd.Intn(3)]
	}
	ls := []string{fmt.Sprintf("sentinel %x", childSentinel), "panic: " + junk(2), "", "goroutine 1 [running]:"}
	for _, pc := range pcs {
		ls = append(ls, "some.symbol("+junk(rnd.Intn(2))+")", fmt.Sprintf("\t/src/x.go:1 +0x1 fp=0x1 sp=0x2 pc=0x%x", pc))
	}
	ls = append(ls, "")
	return strings.Join(ls, "\n")
}

// symbolOf mirrors what the monitor extracts from a symbol line (only used
// to keep the generator's rewrites projection-preserving).
func symbolOf(line string) (string, bool) {
	for i := 0; i < len(line); i++ {
		if line[i] == '(' && (i == 0 || line[i-1] != '.') {
			return line[:i], true
		}
	}
	return "", false
}

var otherSymbols = []string{"", "", "(*T).method", "main.secretFunction", "example.com/private/repo.(*Client).Do", "pkg.(*T[...]).method", "runtime.sigpanic2", "xruntime.sigpanic", "runtime.sigpanic.func1", "a.b.c", "é.f", "f"}

// rewriteNonPC rewrites every field the projection ignores.
func rewriteNonPC(t tb) tb {
	t = t.clone()
	// preamble: keep sentinel lines (re-spelt), replace / add other lines
	var pre []string
	seenSent := false
	for _, l := range t.pre {
		if strings.HasPrefix(l, "sentinel ") {
			var v uint64
			if n, _ := fmt.Sscanf(l, "sentinel %x", &v); n == 1 && v != 0 && !seenSent {
				seenSent = true
				if rnd.Chance(30) {
					pre = append(pre, "sentinel 0") // a zero sentinel is skipped
				}
				sp := Pick(rnd, []string{" ", "  ", " \t", "  ", "   ", " \r"})
				val := Pick(rnd, []string{fmt.Sprintf("%x", v), fmt.Sprintf("%X", v), fmt.Sprintf("%016x", v), fmt.Sprintf("%x!", v), fmt.Sprintf("%xg", v), fmt.Sprintf("%x ignored", v)})
				pre = append(pre, "sentinel"+sp+val)
				if rnd.Chance(30) {
					pre = append(pre, fmt.Sprintf("sentinel %x", rnd.Uint64())) // later sentinel lines are ordinary lines
				}
				continue
			}
			pre = append(pre, l)
			continue
		}
		switch rnd.Intn(4) {
		case 0:
			pre = append(pre, safeLine())
		case 1: // dropped
		case 2:
			pre = append(pre, l, safeLine())
		default:
			pre = append(pre, l)
		}
	}
	t.pre = pre
	// header
	if rnd.Chance(60) {
		t.header = "goroutine " + junk(rnd.Intn(3)) + " [running]:" + junk(rnd.Intn(2))
	}
	// body
	for i := 0; i+1 < len(t.body) || i < len(t.body); i += 2 {
		if sym, ok := symbolOf(t.body[i]); ok {
			if sym != "runtime.sigpanic" && rnd.Chance(50) {
				sym = Pick(rnd, otherSymbols)
			}
			t.body[i] = sym + "(" + junk(rnd.Intn(4)) + ")"
		}
		if i+1 < len(t.body) {
			loc := t.body[i+1]
			if j := strings.Index(loc, " pc="); j >= 0 {
				pcstr := loc[j+4:]
				if v, err := strconv.ParseUint(pcstr, 0, 64); err == nil && rnd.Chance(50) {
					pcstr = spellPC(v)
				}
				before := loc[:j]
				if rnd.Chance(70) {
					before = strings.ReplaceAll("\t"+junk(rnd.Intn(5)), " pc=", " pc:")
				}
				t.body[i+1] = before + " pc=" + pcstr
			} else if rnd.Chance(50) {
				t.body[i+1] = strings.ReplaceAll("\t"+junk(rnd.Intn(5)), " pc=", " pc:")
			}
		}
	}
	// everything after the goroutine: other goroutines, free text
	if rnd.Chance(70) {
		term := ""
		if len(t.rest) > 0 {
			term = t.rest[0]
		}
		if strings.HasPrefix(term, "created by ") && rnd.Chance(50) {
			term = "created by " + junk(2)
		}
		rest := []string{term}
		for k := rnd.Intn(6); k > 0; k-- {
			rest = append(rest, Pick(rnd, []string{junk(3), "goroutine 7 [running]:", "main.other(0x1)", "\t/secret/path.go:1 +0x1 fp=0x1 sp=0x2 pc=0x" + strconv.FormatUint(rnd.Uint64(), 16), "", "sentinel 1"}))
		}
		if len(t.rest) == 0 { // the body ran to the end of the text: keep it that way
			rest = nil
		}
		t.rest = rest
	}
	return t
}

// mutations that are meant to change the outcome
func mutate(t tb) (tb, string) {
	t = t.clone()
	switch rnd.Intn(14) {
	case 0: // no sentinel at all
		var pre []string
		for _, l := range t.pre {
			if !strings.HasPrefix(l, "sentinel ") {
				pre = append(pre, l)
			}
		}
		t.pre = pre
		return t, "sentinel-missing"
	case 1: // unreadable / odd sentinel spellings
		for i, l := range t.pre {
			if strings.HasPrefix(l, "sentinel ") {
				t.pre[i] = Pick(rnd, []string{"sentinel ", "sentinel g", "sentinel  ", "sentinel 0x1234", "sentinel _1", "sentinel 1_0", "sentinel 10000000000000000", "sentinel ffffffffffffffff", "sentinel 00000000000000000000000001", "sentinel -1", "sentinel +1", "sentinel \xff1", "sentinel\t12", "sentinel 0", "sentinel é", "sentinel 1é"})
			}
		}
		return t, "sentinel-odd"
	case 2: // sentinel after the header only
		var pre []string
		var s string
		for _, l := range t.pre {
			if strings.HasPrefix(l, "sentinel ") {
				s = l
			} else {
				pre = append(pre, l)
			}
		}
		t.pre = pre
		t.body = append([]string{s}, t.body...)
		return t, "sentinel-late"
	case 3: // drop one body line: pairing shifts
		if len(t.body) > 0 {
			i := rnd.Intn(len(t.body))
			t.body = append(t.body[:i], t.body[i+1:]...)
		}
		return t, "pairing-drop"
	case 4: // insert a line
		i := rnd.Intn(len(t.body) + 1)
		l := Pick(rnd, []string{safeLine(), "x(", "(", "(x)", "\t/f.go:1 +0x1 pc=0x10", "no paren here", "a.(b"})
		t.body = append(t.body[:i], append([]string{l}, t.body[i:]...)...)
		return t, "pairing-insert"
	case 5: // PC spellings, valid and invalid
		for i := 1; i < len(t.body); i += 2 {
			if j := strings.Index(t.body[i], " pc="); j >= 0 && rnd.Chance(60) {
				t.body[i] = t.body[i][:j] + " pc=" + Pick(rnd, []string{"", "0x", "0X1F", "0b101", "0b", "0b2", "0o17", "0o8", "017", "08", "0", "00", "1_000", "_1", "1_", "1__0", "0x_1f", "0_x1f", "0x1f_", "+1", "-1", " 1", "1 ", "0x1g", "18446744073709551615", "18446744073709551616", "0xffffffffffffffff", "0x10000000000000000", "0xFFFF_FFFF_FFFF_FFFF", "99999999999999999999999", "0x1 pc=0x2", "1e3", "0x1p4", "٣", "0b1111111111111111111111111111111111111111111111111111111111111111", "0b10000000000000000000000000000000000000000000000000000000000000000", "01777777777777777777777", "02000000000000000000000", "0O17", "0B1"})
			}
		}
		return t, "pc-spelling"
	case 6: // a second " pc=" earlier in the line (e.g. in a file name)
		for i := 1; i < len(t.body); i += 2 {
			if rnd.Chance(40) {
				t.body[i] = "\t/tmp/x pc=0x" + strconv.FormatUint(rnd.Uint64()>>uint(rnd.Intn(64)), 16) + " " + t.body[i]
			}
		}
		return t, "pc-earlier"
	case 7: // sigpanic moved around
		for i := 0; i < len(t.body); i += 2 {
			if rnd.Chance(25) {
				t.body[i] = Pick(rnd, []string{"(...)", "()", "(", "(0x1, 0x2)", "((", ".(", "(*T).m(0x1)", "runtime.sigpanic()", "runtime.sigpanic(0x1, 0x2)", "runtime.sigpanic.(x)", "runtime.sigpanic", "runtime.sigpanic ()", "runtime.sigpanic2()", " runtime.sigpanic()"})
			}
		}
		return t, "sigpanic-placement"
	case 8: // frames without pc
		for i := 1; i < len(t.body); i += 2 {
			if rnd.Chance(40) {
				if j := strings.Index(t.body[i], " pc="); j >= 0 {
					t.body[i] = t.body[i][:j]
				}
			}
		}
		return t, "frames-without-pc"
	case 9: // header variations
		t.header = Pick(rnd, []string{"goroutine 1 [running]:", "goroutine 1 [running, locked to thread]:", "goroutine [running]:", "goroutine  [running]:x", " goroutine 1 [running]:", "goroutine 1 [runnable]:", "goroutine 1[running]:", "Goroutine 1 [running]:", "goroutine 1 [running]"})
		return t, "header"
	case 10: // terminator variations inside the body
		if len(t.body) > 0 {
			i := rnd.Intn(len(t.body))
			t.body[i] = Pick(rnd, []string{"", "created by main.x in goroutine 1", "created by ", "created by", " "})
		}
		return t, "terminator"
	case 11: // truncated text
		s := t.String()
		n := rnd.Intn(len(s) + 1)
		t2, _ := parseTB(s[:n])
		if t2.header == "" {
			return tb{pre: strings.Split(s[:n], "\n")}, "cut"
		}
		return t2, "cut"
	case 12: // change some pcs
		for i := 1; i < len(t.body); i += 2 {
			if j := strings.Index(t.body[i], " pc="); j >= 0 && rnd.Chance(40) {
				t.body[i] = t.body[i][:j] + " pc=0x" + strconv.FormatUint(rnd.Uint64()>>uint(rnd.Intn(64)), 16)
			}
		}
		return t, "pc-changed"
	default: // many frames: beyond the cap of 16
		var body []string
		for len(body) < 2*(17+rnd.Intn(40)) && len(t.body) >= 2 {
			i := 2 * rnd.Intn(len(t.body)/2)
			body = append(body, t.body[i], t.body[i+1])
		}
		t.body = body
		return t, "many-frames"
	}
}

func shift(t tb, delta uint64) tb {
	t = t.clone()
	for i, l := range t.pre {
		if strings.HasPrefix(l, "sentinel ") {
			var v uint64
			// the effective sentinel: the first one with a non-zero value
			if n, _ := fmt.Sscanf(l, "sentinel %x", &v); n == 1 && v != 0 {
				if v+delta == 0 {
					delta++
				}
				t.pre[i] = fmt.Sprintf("sentinel %x", v+delta)
				break
			}
		}
	}
	for i := 1; i < len(t.body); i += 2 {
		if j := strings.Index(t.body[i], " pc="); j >= 0 {
			if v, err := strconv.ParseUint(t.body[i][j+4:], 0, 64); err == nil {
				t.body[i] = fmt.Sprintf("%s pc=0x%x", t.body[i][:j], v+delta)
			}
		}
	}
	return t
}

// synthetic report
func synth() string {
	var ls []string
	if rnd.Chance(85) {
		ls = append(ls, fmt.Sprintf("sentinel %x", childSentinel+uint64(rnd.Intn(3))*0x1000))
	}
	for k := rnd.Intn(4); k > 0; k-- {
		ls = append(ls, Pick(rnd, []string{"panic: " + junk(3), "[signal SIGSEGV: segmentation violation code=0x1 addr=0x0 pc=0x491f20]", "", "fatal error: " + junk(2), "goroutine 9 [select]:", "sentinel 0"}))
	}
	ng := rnd.Intn(4)
	pool := poolPCs()
	for g := 0; g < ng; g++ {
		st := Pick(rnd, []string{"running", "running", "select", "chan receive", "running, locked to thread", "syscall"})
		ls = append(ls, fmt.Sprintf("goroutine %d gp=0xc000%04x m=0 mp=0x5599 [%s]:", 1+rnd.Intn(40), rnd.Intn(65536), st))
		for k := rnd.Intn(24); k > 0; k-- {
			sym := Pick(rnd, append([]string{"runtime.sigpanic", "panic", "runtime.gopanic", "main.main"}, otherSymbols...))
			ls = append(ls, sym+"("+junk(rnd.Intn(3))+")")
			loc := fmt.Sprintf("\t/src/%s.go:%d", junk(1), rnd.Intn(999))
			if rnd.Chance(70) {
				loc += fmt.Sprintf(" +0x%x", rnd.Intn(4096))
			}
			if rnd.Chance(85) {
				loc += fmt.Sprintf(" fp=0x%x sp=0x%x pc=%s", rnd.Intn(1<<30), rnd.Intn(1<<30), spellPC(uint64(Pick(rnd, pool))))
			}
			ls = append(ls, loc)
		}
		if rnd.Chance(50) {
			ls = append(ls, "created by main.x in goroutine 1", "\t/src/x.go:1 +0x1")
		}
		ls = append(ls, "")
	}
	return strings.Join(ls, "\n")
}

var pcPool []uintptr

func poolPCs() []uintptr {
	if pcPool == nil {
		buf := make([]uintptr, 64)
		n := runtime.Callers(0, buf)
		pcPool = append(pcPool, buf[:n]...)
		for _, rc := range reals {
			pcPool = append(pcPool, rc.expected...)
		}
		pcPool = append(pcPool, 0, 1, ^uintptr(0))
	}
	return pcPool
}

func randomText() string {
	switch rnd.Intn(3) {
	case 0:
		return string(rnd.Bytes(rnd.Intn(200)))
	case 1:
		var ls []string
		for k := rnd.Intn(12); k > 0; k-- {
			ls = append(ls, Pick(rnd, []string{junk(3), "", "goroutine 1 [running]:", "sentinel 1f", "sentinel", "f(", "\t pc=0x1", "created by x", "runtime.sigpanic()", " pc=", "x.(y)(", " pc=12 pc=13"}))
		}
		return strings.Join(ls, "\n")
	default:
		return ""
	}
}

func parsedReals() []tb {
	var res []tb
	for _, rc := range reals {
		if len(rc.text) > 100000 {
			continue // the long-message reports have their own cases; not a base for thousands of rewrites
		}
		if t, ok := parseTB(rc.text); ok {
			res = append(res, t)
		}
	}
	return res
}

// ---------------------------------------------------------------- the two library parsers, directly

var numAlphabet = []string{"0", "1", "7", "8", "9", "a", "f", "F", "g", "z", "x", "X", "b", "B", "o", "O", "_", "_", "+", "-", " ", "é"}

func genNum() string {
	switch rnd.Intn(4) {
	case 0: // free mix
		var sb strings.Builder
		for k := rnd.Intn(10); k > 0; k-- {
			sb.WriteString(Pick(rnd, numAlphabet))
		}
		return sb.String()
	case 1: // around 2^64 in every base
		v := Pick(rnd, []uint64{^uint64(0), ^uint64(0) - 1, 1 << 63, 0, 1, ^uint64(0) / 10, ^uint64(0)/16 + 1, rnd.Uint64()})
		s := Pick(rnd, []string{fmt.Sprintf("%d", v), fmt.Sprintf("0x%x", v), fmt.Sprintf("0b%b", v), fmt.Sprintf("0o%o", v), fmt.Sprintf("0%o", v)})
		if rnd.Chance(40) { // one more digit: out of range
			s += Pick(rnd, []string{"0", "1", "7"})
		}
		if rnd.Chance(30) { // bump the last digit
			b := []byte(s)
			b[len(b)-1]++
			s = string(b)
		}
		return s
	default: // prefix, digits, underscores
		pre := Pick(rnd, []string{"", "0x", "0X", "0b", "0B", "0o", "0O", "0", "0_", "0x_", "_", "+", "-0x"})
		digs := Pick(rnd, []string{"01", "01234567", "0123456789", "0123456789abcdefABCDEF", "0123456789abcdefg"})
		var sb strings.Builder
		sb.WriteString(pre)
		for k := rnd.Intn(12); k > 0; k-- {
			sb.WriteByte(digs[rnd.Intn(len(digs))])
			if rnd.Chance(20) {
				sb.WriteByte('_')
			}
			if rnd.Chance(5) {
				sb.WriteByte('_')
			}
		}
		return sb.String()
	}
}

func caseUint() {
	s := genNum()
	v, err := strconv.ParseUint(s, 0, 64)
	st := "ok"
	if err != nil {
		st = "err"
		v = 0
	}
	out.Note("uint-" + st)
	out.Case(true, "uint", HS(s), st, U(v))
}

func caseSscan() {
	sp := Pick(rnd, []string{" ", " ", "  ", " \t", " \r", "  ", "  ", " 　", "\t", "", "\u0085", " \xc2", " \v\f"})
	var tail string
	switch rnd.Intn(4) {
	case 0:
		tail = genNum()
	case 1:
		tail = fmt.Sprintf("%x", rnd.Uint64()>>uint(rnd.Intn(64))) + Pick(rnd, []string{"", " x", "g", "_1", "\t", "é"})
	case 2:
		tail = Pick(rnd, []string{"ffffffffffffffff", "10000000000000000", "0000000000000000000001", "FFFFFFFFFFFFFFFF0", "", "0", "00", "0x1", "x", "-1", "+1", "١"})
	default:
		tail = junk(2)
	}
	line := "sentinel" + sp + tail
	var v uint64
	st := "ok"
	func() {
		defer func() {
			if recover() != nil {
				st = "panic"
			}
		}()
		if _, err := fmt.Sscanf(line, "sentinel %x", &v); err != nil {
			st = "err"
			v = 0
		}
	}()
	out.Note("sscan-" + st)
	out.Case(true, "sscan", HS(line), st, U(v))
}

func main() {
	if p := os.Getenv("VH_MONITOR_OUT"); p != "" {
		monitorMain(p)
		os.Exit(0)
	}
	if k := os.Getenv("VH_CRASH_KIND"); k != "" {
		childMain(k)
		os.Exit(0)
	}
	outPath := os.Args[1]
	n, _ := strconv.Atoi(os.Args[2])
	rnd = NewRand(Seed())
	out = NewOut(outPath)
	childSentinel = crashmonitor.VerifSentinel()
	dir, err := os.MkdirTemp("", "vh_crash")
	if err != nil {
		panic(err)
	}
	defer os.RemoveAll(dir)
	scratchDir = dir
	produceCrashes(dir)
	for _, rc := range reals {
		caseReal(rc)
	}
	// the same real reports delivered to the real Child process on its stdin
	for _, rc := range reals {
		caseChild("real-"+rc.kind, rc.text)
	}
	bases := parsedReals()
	emit := func(tag, text string) {
		fields, _, name, ok := record(text)
		if ok {
			out.Note("ok-" + tag)
			if len(name) == 4096 {
				out.Note("name-truncated")
			} else if len(name) > 3800 {
				out.Note("name-near-limit")
			}
		} else {
			out.Note("notok-" + tag)
		}
		out.Case(true, append([]string{"name", tag}, fields...)...)
	}
	// One generator per case, seeded from the master stream: the real reports differ a little
	// from run to run (widths of sp/fp/mp values), and choices that depend on their text must
	// not shift the choices of later cases.
	master := rnd
	for i := len(reals); i < n; i++ {
		rnd = NewRand(master.Uint64())
		base := Pick(rnd, bases)
		switch r := i % 20; {
		case i%40 == 19:
			caseUint()
		case i%40 == 39:
			caseSscan()
		case i%100 == 7: // a very long line before the goroutine, on a real and on a synthetic report
			t := rewriteNonPC(base).String()
			emit("rewrite", t)
			emit("long-line", withLongLine(t))
			sy := synth()
			emit("synthetic", sy)
			emit("long-line-synthetic", withLongLine(sy))
		case i%1500 == 27 || i%750 == 127 || i%300 == 227: // a report whose running goroutine straddles a size mark, both routes
			limit := 1 << 16
			if i%1500 == 27 {
				limit = 1 << 20
			} else if i%750 == 127 {
				limit = 1 << 18
			}
			for try := 0; try < 8; try++ { // a base that yields a name
				if _, _, _, ok := record(base.String()); ok {
					break
				}
				base = Pick(rnd, bases)
			}
			t := straddle(base.String(), limit)
			emit("straddle", t)
			caseChild("straddle", t)
			emit("rewrite", base.String())
		case i%25 == 12: // any other report through the Child process as well
			var t string
			switch rnd.Intn(4) {
			case 0:
				t = synth()
			case 1:
				t = randomText()
			case 2:
				mt, _ := mutate(base)
				t = mt.String()
			default:
				t = rewriteNonPC(base).String()
			}
			emit("both-routes", t)
			caseChild("both-routes", t)
		case i%20 == 17: // the first running goroutine has NO pc at all; other running goroutines follow
			t := base.clone()
			for k := 1; k < len(t.body); k += 2 {
				if j := strings.Index(t.body[k], " pc="); j >= 0 {
					t.body[k] = Pick(rnd, []string{t.body[k][:j], t.body[k][:j] + " pc=", t.body[k][:j] + " pc=zz", "\t/inlined.go:1"})
				}
			}
			if rnd.Chance(30) && len(t.body) > 4 {
				t.body = t.body[:2*(1+rnd.Intn(2))]
			}
			term := Pick(rnd, []string{"", "", "created by main.x in goroutine 1"})
			alone := t.clone()
			alone.rest = []string{term}
			emit("first-goroutine-pcless", alone.String())
			for v := 1 + rnd.Intn(2); v > 0; v-- { // the same, followed by other goroutines marked running, with pcs
				other := Pick(rnd, bases)
				w := t.clone()
				w.rest = []string{term}
				if term != "" {
					w.rest = append(w.rest, "\t/src/x.go:1 +0x1", "")
				}
				w.rest = append(w.rest, fmt.Sprintf("goroutine %d [running]:", 2+rnd.Intn(90)))
				w.rest = append(w.rest, other.body...)
				w.rest = append(w.rest, "", "goroutine 99 gp=0x1 m=1 mp=0x2 [running]:", "main.z()", fmt.Sprintf("\t/z.go:1 pc=0x%x", Pick(rnd, poolPCs())), "")
				emit("first-goroutine-pcless-then-running", w.String())
			}
		case i%10 == 6: // real pcs of generic instantiations followed by same-package callers
			emit("generic-names", genericReport())
		case i%10 == 3: // real pcs of long-named functions: names near / beyond the limit
			emit("long-names", longNameReport())
		case r < 8: // projection-preserving rewrites of a real report
			emit("rewrite", rewriteNonPC(base).String())
		case r < 13: // outcome-changing mutations (sometimes rewritten as well)
			t, tag := mutate(base)
			if rnd.Chance(30) {
				t = rewriteNonPC(t)
			}
			emit(tag, t.String())
		case r < 15: // relocation: the same report as if the parent were loaded elsewhere
			delta := Pick(rnd, []uint64{0x1000, 0x7f0000000000, ^uint64(0) - 0xfff, 1, uint64(rnd.Intn(1 << 20)), ^uint64(0) - childSentinel + 5})
			t := base
			if rnd.Chance(50) {
				t = rewriteNonPC(t)
			}
			f1, _, _, _ := record(t.String())
			f2, _, _, _ := record(shift(t, delta).String())
			out.Note("reloc")
			out.Case(true, append(append([]string{"reloc"}, f1...), f2...)...)
		case r < 18:
			emit("synthetic", synth())
		default:
			emit("random", randomText())
		}
	}
	out.Close()
}
