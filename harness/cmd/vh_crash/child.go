package main

// The crashing side: the harness binary re-executes itself with
// VH_CRASH_KIND set; this file is what that child process runs.  It calls the
// real crashmonitor.Parent on a file, records (in a deferred function that
// does NOT recover) the program counters runtime.Callers sees while the panic
// unwinds, and crashes.

import (
	"fmt"
	"os"
	"runtime"
	"strings"
	"sync"

	"golang.org/x/telemetry/internal/crashmonitor"
)

var sink int

// recordStack writes the pcs of the panicking goroutine below runtime.gopanic.
func recordStack() {
	pcs := make([]uintptr, 4096)
	n := runtime.Callers(0, pcs)
	pcs = pcs[:n]
	// find the last runtime.gopanic frame
	cut := -1
	for i, pc := range pcs {
		if f := runtime.FuncForPC(pc - 1); f != nil && f.Name() == "runtime.gopanic" {
			cut = i
		}
	}
	var sb strings.Builder
	if cut >= 0 {
		for _, pc := range pcs[cut+1:] {
			fmt.Fprintf(&sb, "%x\n", pc)
		}
	}
	os.WriteFile(os.Getenv("VH_CRASH_SIDE"), []byte(sb.String()), 0666)
}

//go:noinline
func crashNil(p *int) int {
	return *p
}

//go:noinline
func crashPanic(secret string) int {
	panic("user data that must not leak: " + secret)
}

//go:noinline
func crashIndex(xs []int, i int) int {
	return xs[i]
}

//go:noinline
func crashMap(m map[string]int) {
	m["secret-key"] = 1
}

func inlinedLeaf(p *int) int { return *p + 1 }
func inlinedMid(p *int) int  { return inlinedLeaf(p) * 2 }

//go:noinline
func crashInlined(p *int) int {
	return inlinedMid(p) + 3
}

type box struct{ v *int }

//go:noinline
func (b *box) method(k int) int {
	if k > 0 {
		return b.method(k-1) + 1
	}
	return crashNil(b.v)
}

//go:noinline
func generic[T any](x T, f func(T) int) int {
	r := f(x)
	sink += r
	return r
}

// plainCaller calls itself through an instantiated generic function: the stack
// alternates main.plainCaller.func1, main.generic[...], main.plainCaller.
//
//go:noinline
func plainCaller(k int, leaf func()) int {
	return generic[int](k, func(x int) int {
		if x > 0 {
			return plainCaller(x-1, leaf) + 1
		}
		leaf()
		return 0
	})
}

//go:noinline
func (b *box) viaGeneric(k int, leaf func()) int {
	return generic[*box](b, func(bb *box) int {
		if k > 0 {
			return bb.viaGeneric(k-1, leaf) + 1
		}
		leaf()
		return 0
	})
}

//go:noinline
func descend(k int, kind string) int {
	if k > 0 {
		r := descend(k-1, kind)
		sink += k
		return r
	}
	switch kind {
	case "nil", "deep", "deep16", "goroutine":
		return crashNil(nil)
	case "panic":
		return crashPanic("alice@example.com /home/alice/secret.txt")
	case "index":
		return crashIndex([]int{1, 2}, 5+sink)
	case "map":
		crashMap(nil)
		return 0
	case "inlined":
		return crashInlined(nil)
	case "method":
		return (&box{}).method(3)
	case "generic":
		return generic[*int](nil, func(p *int) int { return crashNil(p) })
	}
	return 0
}

//go:noinline
func descendLong(k int, msg string) int {
	if k > 0 {
		return descendLong(k-1, msg) + 1
	}
	panic(msg)
}

func childMain(kind string) {
	f, err := os.Create(os.Getenv("VH_CRASH_OUT"))
	if err != nil {
		os.Exit(3)
	}
	crashmonitor.Parent(f) // the real parent side: sentinel line, traceback level, crash output
	// some bystanders, so that the report has other goroutines
	var mu sync.Mutex
	mu.Lock()
	for i := 0; i < 3; i++ {
		go func() { mu.Lock() }()
	}
	go func() { select {} }()
	depth := 2
	switch kind {
	case "generic-chain": // generic instantiations followed outwards by same-package functions
		defer recordStack()
		sink = plainCaller(2, func() { sink = (&box{}).viaGeneric(1, func() { panic("x") }) })
		return
	case "hugemsg": // a panic message of a little more than 1 MiB
		defer recordStack()
		sink = descendLong(2, strings.Repeat("secret-user-data ", (1<<20)/17+8))
		return
	case "longmsg": // a 200 KiB panic message before the goroutine stacks
		defer recordStack()
		sink = descendLong(2, strings.Repeat("secret-user-data ", 200*1024/17))
		return
	case "longnames": // 20 frames of a function with a 300-byte name: 16 frames exceed the name limit
		defer recordStack()
		sink = longDispatch([]int{4, 20}, func() { panic("x") })
		return
	case "longnames-unicode": // long non-ASCII names: the cut of the truncation falls among multi-byte characters
		defer recordStack()
		sink = longDispatch([]int{5, 18, 1, 1}, func() { panic("x") })
		return
	case "longnames-mixed":
		defer recordStack()
		sink = longDispatch([]int{3, 6, 1, 2, 4, 5, 0, 3}, func() { sink = crashNil(nil) })
		return
	case "deep":
		depth = 300
	case "deep16":
		depth = 30
	case "deadlock":
		select {} // fatal error: all goroutines are asleep  (bystanders blocked too)
	case "goroutine":
		done := make(chan int)
		go func() {
			defer recordStack()
			done <- descend(2, kind)
		}()
		<-done
		return
	}
	defer recordStack()
	sink = descend(depth, kind)
}

// monitorMain is the MONITOR side: the harness binary re-executed with
// VH_MONITOR_OUT set runs the real crashmonitor.Child on its stdin; the name it
// would count is appended to the file instead of being counted.
func monitorMain(outPath string) {
	record := func(line string) {
		f, err := os.OpenFile(outPath, os.O_APPEND|os.O_CREATE|os.O_WRONLY, 0666)
		if err == nil {
			f.WriteString(line + "\n")
			f.Close()
		}
	}
	crashmonitor.VerifSetChildHooks(
		func(name string) { record(fmt.Sprintf("name %x", name)) },
		func() { record("exit") })
	crashmonitor.Child()
}
