// vh_conc: correspondence harness for C03.  Runs the real Counter.Add /
// invalidate / refresh / releaseLock / file.lookup / rotate1 / newCounter1
// code of an import-rewritten copy of internal/counter (sync/atomic -> vatomic,
// sync -> vsync) under the deterministic scheduler, one atomic operation per
// step, and records the shared state after every model-visible step.
package main

import (
	"math"
	"fmt"
	"os"
	"path/filepath"
	"strconv"
	"strings"
	"time"

	"golang.org/x/telemetry/internal/counter"
	"golang.org/x/telemetry/internal/telemetry"
	"golang.org/x/telemetry/internal/verifh/shim/vatomic"
	"golang.org/x/telemetry/internal/verifh/shim/vsched"
	. "golang.org/x/telemetry/internal/verifh/vhlib"
)

var rnd *Rand
var out *Out
var root string
var debug = os.Getenv("VH_DEBUG") != ""

type mapping struct {
	id        int
	base, len uintptr
	file      string
}

type world struct {
	f     *counter.VerifFile
	c     *counter.Counter
	maps  []mapping
	files []string // file id -> name, in order of first appearance
	now   time.Time
}

func (w *world) noteCur() {
	base := w.f.CurBase()
	if base == 0 {
		return
	}
	for _, m := range w.maps {
		if m.base == base {
			return
		}
	}
	name := w.f.CurFileName()
	found := false
	for _, fn := range w.files {
		if fn == name {
			found = true
		}
	}
	if !found {
		w.files = append(w.files, name)
	}
	w.maps = append(w.maps, mapping{len(w.maps), base, uintptr(w.f.CurLen()), name})
}

func (w *world) mapOf(addr uintptr) int {
	for _, m := range w.maps {
		if addr >= m.base && addr < m.base+m.len {
			return m.id
		}
	}
	return -1
}

func (w *world) curCode() int64 {
	base := w.f.CurBase()
	if base == 0 {
		return 0
	}
	for _, m := range w.maps {
		if m.base == base {
			return int64(m.id) + 1
		}
	}
	return -1
}

func (w *world) ptrCode() int64 {
	if counter.VerifPtrNil(w.c) {
		return 0
	}
	id := w.mapOf(counter.VerifPtrAddr(w.c))
	if id < 0 {
		return -1
	}
	return int64(id) + 1
}

// persisted: the counter's value summed over the process's counter files
func (w *world) persisted() uint64 {
	var sum uint64
	for _, fn := range w.files {
		data, err := os.ReadFile(fn)
		if err != nil {
			continue
		}
		pf, err := counter.Parse(fn, data)
		if err != nil {
			continue
		}
		sum += pf.Count["c"]
	}
	return sum
}

type obs struct {
	word      uint64
	ptr, cur  int64
	persisted uint64
	nclosed   int
}

func (w *world) observe() obs {
	w.noteCur()
	return obs{counter.VerifWord(w.c), w.ptrCode(), w.curCode(), w.persisted(), vatomic.NClosed()}
}

func (w *world) relevant(addr uintptr) bool {
	return addr == counter.VerifStateAddr(w.c) || addr == w.f.CurAddr() || addr == w.f.MuAddr() || w.mapOf(addr) >= 0
}

type tspec struct {
	kind string // add | rot | ext
	amt  uint64
}

var amounts = []uint64{1, 1, 1, 2, 3, 1 << 31, 1<<33 - 2, 1 << 62, 1 << 33, 1<<40 + 7, 1<<33 + 5, math.MaxInt64}

// plan: systematic schedule = run the current thread; at reported step number
// plan.at[i] switch to thread plan.to[i]; when the current thread is done,
// continue with the lowest unfinished one.
type plan struct {
	at []int
	to []int
}

type scenCfg struct {
	kind    string
	withPtr bool
	specs   []tspec
	pl      *plan
}

func scenario() { scenarioCfg(nil) }

func scenarioCfg(cfg *scenCfg) int {
	dir, err := os.MkdirTemp(root, "t")
	if err != nil {
		panic(err)
	}
	defer os.RemoveAll(dir)
	telemetry.Default = telemetry.NewDir(dir)
	os.MkdirAll(telemetry.Default.LocalDir(), 0777)
	os.WriteFile(filepath.Join(telemetry.Default.LocalDir(), "weekends"), []byte("0\n"), 0666)
	vatomic.ResetClosed()
	w := &world{now: time.Date(2024, 1, 3, 10, 0, 0, 0, time.UTC)}
	counter.CounterTime = func() time.Time { return w.now }
	w.f = counter.VerifNewFile()
	w.c = w.f.NewCounter("c")

	kind := Pick(rnd, []string{"plain", "open", "rot", "rot", "ext", "ext", "grow", "grow", "mix", "mix", "openfull", "openfull"})
	if cfg != nil {
		kind = cfg.kind
		out.Note("systematic-" + kind)
	} else {
		out.Note("scenario-" + kind)
	}
	// ---- unmanaged setup ----
	preAdds := 0
	if kind == "openfull" {
		// an earlier process filled the first page of this week's file; this
		// process has a pending increment and opens that file: the opener's own
		// refresh-lookup extends it
		f0 := counter.VerifNewFile()
		f0.Rotate1()
		for i := 0; ; i++ {
			room := 16384 - int(f0.CurLimit())
			if room <= 32 {
				break
			}
			n := room - 32 - 16
			if n > 4080 {
				n = 4080
			}
			f0.Lookup(strings.Repeat(string(rune('A'+i%26)), n))
		}
		f0.Close()
		vatomic.ResetClosed()
		counter.VerifConcRelease()
		preAdds = 1 + rnd.Intn(2)
		if cfg != nil {
			preAdds = 1
		}
		for i := 0; i < preAdds; i++ {
			w.c.Add(int64(1 + rnd.Intn(3)))
		}
		w.f.Register(w.c)
	} else if kind == "open" {
		// counters incremented before the file is opened
		preAdds = rnd.Intn(3)
		if cfg != nil {
			preAdds = 0
			if cfg.withPtr {
				preAdds = 1
			}
		}
		for i := 0; i < preAdds; i++ {
			w.c.Add(int64(1 + rnd.Intn(3)))
		}
		w.f.Register(w.c)
	} else {
		w.f.Rotate1()
		if kind == "ext" || kind == "mix" {
			for i := 0; i < 3; i++ {
				w.f.Lookup(strings.Repeat(string(rune('x'+i)), 4080))
			}
		}
		if kind == "grow" {
			// fill the first page so that the record of "c" itself does not fit:
			// the first lookup of "c" by a lock holder extends the file inline
			for i := 0; ; i++ {
				room := 16384 - int(w.f.CurLimit())
				if room <= 32 {
					break
				}
				n := room - 32 - 16 // the record then ends 32 bytes before the page end
				if n > 4080 {
					n = 4080
				}
				w.f.Lookup(strings.Repeat(string(rune('A'+i%26)), n))
			}
		}
		// concurrent registration (the lock-free list insertion) is outside the
		// model: the counter is registered before the threads start
		w.f.Register(w.c)
		if kind != "grow" && ((cfg == nil && rnd.Intn(3) > 0) || (cfg != nil && cfg.withPtr)) {
			w.c.Add(int64(1 + rnd.Intn(4))) // has a pointer
			preAdds = 1
			if cfg == nil && (kind == "plain" || kind == "ext") && rnd.Chance(12) {
				// the persisted value a few units below 2^64-1: the scenario's
				// increments reach the limit, where the value sticks (no new
				// file in these kinds, so the sum over files is this one cell)
				w.c.Add(math.MaxInt64)
				w.c.Add(math.MaxInt64 - int64(rnd.Intn(8)))
				out.Note("persisted-near-2^64")
			}
		}
	}
	// ---- threads ----
	var specs []tspec
	nadd := 2 + rnd.Intn(2)
	if kind == "plain" {
		nadd = 2 + rnd.Intn(3)
	}
	big := rnd.Chance(12) || (kind == "open" && rnd.Chance(15))
	for i := 0; i < nadd; i++ {
		a := Pick(rnd, amounts[:5])
		if big {
			a = Pick(rnd, amounts)
		}
		specs = append(specs, tspec{"add", a})
	}
	switch kind {
	case "open":
		specs = append(specs, tspec{"rot", 0})
	case "rot":
		specs = append(specs, tspec{"rot", 0})
		if rnd.Chance(35) {
			specs = append(specs, tspec{"rot", 0})
		}
	case "ext":
		specs = append(specs, tspec{"ext", 0})
	case "grow":
		switch rnd.Intn(4) {
		case 0:
			specs = append(specs, tspec{"rot", 0})
		case 1:
			specs = append(specs, tspec{"ext", 0}) // whoever looks up first extends the file
		}
	case "openfull":
		// (one rotation only: whichever rotate1 runs first opens the existing file)
		specs = append(specs, tspec{"rotf", 0})
	case "mix":
		// changers of both kinds: a rotation and one or two lookups of other
		// (large) counters, of which the first one in a tight file extends it
		specs = append(specs, tspec{"rot", 0}, tspec{"ext", 0})
		if rnd.Chance(40) {
			specs = append(specs, tspec{"ext", 0})
		}
	}
	if cfg != nil {
		specs = cfg.specs
	}
	// shuffle thread order
	for i := len(specs) - 1; cfg == nil && i > 0; i-- {
		j := rnd.Intn(i + 1)
		specs[i], specs[j] = specs[j], specs[i]
	}

	// every rotate1 of the managed phase sees a later week
	sameWeekOnce := kind == "openfull"
	counter.CounterTime = func() time.Time {
		if sameWeekOnce {
			sameWeekOnce = false // the first open is of the existing file of this week
			return w.now
		}
		w.now = w.now.Add(8 * 24 * time.Hour)
		return w.now
	}
	init0 := w.observe()
	s := vsched.New(true)
	defer vsched.Stop()
	tids := make([]int, len(specs)) // scheduler id per spec, -1 = not spawned
	for i := range tids {
		tids[i] = -1
	}
	extN := 0
	var steps []string
	nsteps := 0
	budget := 3000
	hang := false
	panicked := ""
	last := -1
	stepNo := 0
	lastWordOp := map[int]int{} // thread -> step number of its latest operation on the state word
	closeStep := map[int]int{}  // closed region index -> step number at which it was closed
	evSeen := 0
	grew := 0
	faultsKnown, faultsNew := 0, 0
	allDone := func() bool {
		for i := range specs {
			if tids[i] < 0 || !s.Done(tids[i]) {
				return false
			}
		}
		return true
	}
	for !allDone() {
		if budget == 0 {
			hang = true
			break
		}
		budget--
		// choose a thread: 65% stay with the last one if it can run
		var cand []int
		for i := range specs {
			if tids[i] < 0 || !s.Done(tids[i]) {
				cand = append(cand, i)
			}
		}
		var i int
		if cfg != nil {
			i = cand[0]
			if last >= 0 && (tids[last] < 0 || !s.Done(tids[last])) {
				i = last
			}
			for k, at := range cfg.pl.at {
				if at == nsteps {
					to := cfg.pl.to[k]
					if tids[to] < 0 || !s.Done(tids[to]) {
						i = to
					}
				}
			}
		} else {
			i = cand[rnd.Intn(len(cand))]
			if last >= 0 && rnd.Chance(65) && (tids[last] < 0 || !s.Done(tids[last])) {
				i = last
			}
		}
		last = i
		before := w.observe()
		spawn := false
		var preAddr uintptr
		var preLabel string
		var info vsched.Info
		if tids[i] < 0 {
			spawn = true
			sp := specs[i]
			var fn func()
			switch sp.kind {
			case "add":
				amt := sp.amt
				fn = func() { w.c.Add(int64(amt)) }
			case "rot", "rotf":
				fn = func() { w.f.Rotate1() }
			case "ext":
				extN++
				nm := strings.Repeat(string(rune('p'+extN)), 4080)
				fn = func() { w.f.Lookup(nm) }
			}
			tids[i] = s.Go(fn)
			info = s.Last(tids[i])
		} else {
			pre := s.Last(tids[i])
			preAddr, preLabel = pre.Addr, pre.Label
			info = s.Step(tids[i])
		}
		if info.Panic != "" {
			panicked = info.Panic
		}
		stepNo++
		after := w.observe()
		if specs[i].kind == "add" && after.cur != before.cur {
			grew++
		}
		for r := before.nclosed; r < after.nclosed; r++ {
			closeStep[r] = stepNo
		}
		// classify accesses through a closed mapping made during this step: the
		// known finding is an access by a thread that entered its reader / flush
		// section (its latest state-word operation) BEFORE the mapping was closed
		for ; evSeen < len(s.Events); evSeen++ {
			e := s.Events[evSeen]
			if !strings.HasPrefix(e, "USE-AFTER-UNMAP") {
				continue
			}
			reg := -1
			if k := strings.Index(e, "region="); k >= 0 {
				reg, _ = strconv.Atoi(e[k+7:])
			}
			if cs, ok := closeStep[reg]; ok && lastWordOp[i] > cs {
				faultsNew++
			} else {
				faultsKnown++
			}
		}
		if !spawn && preAddr == counter.VerifStateAddr(w.c) {
			lastWordOp[i] = stepNo
		}
		rel := spawn || w.relevant(preAddr) || after != before
		if debug {
			fmt.Fprintf(os.Stderr, "  t%d %-5s spawn=%v op=%s@%x rel=%v -> word=%x ptr=%d cur=%d pers=%d closed=%d next=%s done=%v\n",
				i, specs[i].kind, spawn, preLabel, preAddr, rel, after.word, after.ptr, after.cur, after.persisted, after.nclosed, info.Label, info.Done)
		}
		if rel {
			nsteps++
			steps = append(steps, I(int64(i)), U(after.word), I(after.ptr), I(after.cur), U(after.persisted), I(int64(after.nclosed)), B(tids[i] >= 0 && s.Done(tids[i])))
		}
		if panicked != "" {
			break
		}
	}
	if grew > 0 {
		out.Note("lookup-extended-the-file-inline")
	}
	faults := faultsKnown
	if faults > 0 {
		out.Note("use-after-unmap")
	}
	if faultsNew > 0 {
		out.Note("entered-through-closed-mapping")
	}
	status := "ok"
	if hang {
		status = "hang"
	} else if panicked != "" {
		status = "panic"
		fmt.Fprintln(os.Stderr, panicked)
	}
	fields := []string{"conc", kind, status, U(init0.word), I(init0.ptr), I(init0.cur), U(init0.persisted), B(kind == "grow"), B(kind == "grow" || kind == "ext" || kind == "mix"), I(int64(faults)), I(int64(faultsNew)), I(int64(len(specs)))}
	for _, sp := range specs {
		fields = append(fields, sp.kind, U(sp.amt))
	}
	fields = append(fields, I(int64(nsteps)))
	fields = append(fields, steps...)
	out.Case(true, fields...)
	if debug {
		fmt.Fprintln(os.Stderr, "----")
	}
	w.f.Close()
	vatomic.ResetClosed()
	counter.VerifConcRelease()
	return nsteps
}

// multi: oracle-only scenarios OUTSIDE the single-counter model (no lock-step
// comparison): several real counters with pending in-memory values and a first
// open of an EXISTING counter file whose first page is full, so that the refresh
// of one counter extends the file (a changer's own lookup growing the file, with
// the cleanup of that growth refreshing the other counters).  Checked: every
// call returns within the step budget, no panic, and after quiescence every
// counter's persisted value is the sum of its increments with nothing pending.
type multiCfg struct {
	full   bool // first page of the existing file is full
	npend  int  // counters with pending values, registered
	nfresh int  // counters whose first Add runs in the managed phase
	extra  int  // further Adds on random counters
	twice  bool // a second goroutine's Add on each fresh counter (it finds the counter claimed)
	pl     *plan
}

func multi() {
	multiRun(multiCfg{full: rnd.Chance(70), npend: 2 + rnd.Intn(3), nfresh: rnd.Intn(3), extra: 1 + rnd.Intn(2), twice: rnd.Chance(40)})
}

// multiSystematic: every schedule with at most k forced context switches of two
// small configurations (an open racing with the first Add of a fresh counter).
func multiSystematic(k int) {
	for _, base := range []multiCfg{{full: false, npend: 1, nfresh: 1}, {full: true, npend: 1, nfresh: 1},
		{full: false, npend: 0, nfresh: 1, twice: true}, {full: false, npend: 1, nfresh: 1, twice: true}} {
		c := base
		c.pl = &plan{}
		maxSteps := multiRun(c)
		var rec func(depth int, from int, pl plan)
		rec = func(depth int, from int, pl plan) {
			if depth == 0 {
				return
			}
			for at := from; at <= maxSteps+2; at++ {
				for to := 0; to < 3; to++ {
					p2 := plan{append(append([]int{}, pl.at...), at), append(append([]int{}, pl.to...), to)}
					c := base
					c.pl = &p2
					multiRun(c)
					rec(depth-1, at+1, p2)
				}
			}
		}
		rec(k, 0, plan{})
	}
}

// mworld: observation of several counters of one file object (lock-step of the
// multi scenarios against Model/CounterMulti)
type mworld struct {
	f     *counter.VerifFile
	cs    []*counter.Counter
	maps  []mapping
	files []string
}

func (w *mworld) noteCur() {
	base := w.f.CurBase()
	if base == 0 {
		return
	}
	for _, m := range w.maps {
		if m.base == base {
			return
		}
	}
	name := w.f.CurFileName()
	found := false
	for _, fn := range w.files {
		if fn == name {
			found = true
		}
	}
	if !found {
		w.files = append(w.files, name)
	}
	w.maps = append(w.maps, mapping{len(w.maps), base, uintptr(w.f.CurLen()), name})
}

func (w *mworld) codeOf(addr uintptr) int64 {
	for _, m := range w.maps {
		if addr >= m.base && addr < m.base+m.len {
			return int64(m.id) + 1
		}
	}
	return -1
}

// observe: per counter (word, pointer code, persisted), current mapping code, closed mappings
func (w *mworld) observe() []string {
	w.noteCur()
	pers := make([]uint64, len(w.cs))
	for _, fn := range w.files {
		data, err := os.ReadFile(fn)
		if err != nil {
			continue
		}
		pf, err := counter.Parse(fn, data)
		if err != nil {
			continue
		}
		for i := range w.cs {
			pers[i] += pf.Count[fmt.Sprintf("m%d", i)]
		}
	}
	var o []string
	for i, c := range w.cs {
		pc := int64(0)
		if !counter.VerifPtrNil(c) {
			pc = w.codeOf(counter.VerifPtrAddr(c))
		}
		o = append(o, U(counter.VerifWord(c)), I(pc), U(pers[i]))
	}
	cur := int64(0)
	if base := w.f.CurBase(); base != 0 {
		cur = w.codeOf(base)
	}
	o = append(o, I(cur), I(int64(vatomic.NClosed())))
	return o
}

// listed: the registration list from the head
func (w *mworld) listed() []int {
	var l []int
	p := w.f.HeadPtr()
	for n := 0; p != 0 && p != w.f.EndPtr() && n < 100; n++ {
		idx := -1
		for i, c := range w.cs {
			if counter.VerifCounterPtr(c) == p {
				idx = i
			}
		}
		if idx < 0 {
			break
		}
		l = append(l, idx)
		p = counter.VerifNextPtr(w.cs[idx])
	}
	return l
}

func multiRun(cfg multiCfg) int {
	dir, err := os.MkdirTemp(root, "m")
	if err != nil {
		panic(err)
	}
	defer os.RemoveAll(dir)
	telemetry.Default = telemetry.NewDir(dir)
	os.MkdirAll(telemetry.Default.LocalDir(), 0777)
	os.WriteFile(filepath.Join(telemetry.Default.LocalDir(), "weekends"), []byte("0\n"), 0666)
	vatomic.ResetClosed()
	now := time.Date(2024, 1, 3, 10, 0, 0, 0, time.UTC)
	counter.CounterTime = func() time.Time { return now }
	if cfg.pl != nil {
		out.Note("multi-systematic")
	} else {
		out.Note("multi-open-of-full-file")
	}
	// an earlier process filled the first page of this week's file
	f0 := counter.VerifNewFile()
	f0.Rotate1()
	for i := 0; cfg.full; i++ {
		room := 16384 - int(f0.CurLimit())
		if room <= 32 {
			break
		}
		n := room - 32 - 16
		if n > 4080 {
			n = 4080
		}
		f0.Lookup(strings.Repeat(string(rune('A'+i%26)), n))
	}
	fname := f0.CurFileName()
	f0.Close()
	vatomic.ResetClosed()
	counter.VerifConcRelease()
	// this process: several counters incremented before the file is opened
	f := counter.VerifNewFile()
	nc := cfg.npend
	cs := make([]*counter.Counter, nc)
	want := make([]uint64, nc)
	for i := range cs {
		cs[i] = f.NewCounter(fmt.Sprintf("m%d", i))
		k := 1 + rnd.Intn(3)
		cs[i].Add(int64(k))
		want[i] += uint64(k)
		f.Register(cs[i])
	}
	// fresh counters: never incremented, not registered - their first Add (which
	// registers them) runs concurrently with the open
	for j := 0; j < cfg.nfresh; j++ {
		cs = append(cs, f.NewCounter(fmt.Sprintf("m%d", len(cs))))
		want = append(want, 0)
	}
	nc = len(cs)
	type th struct {
		fn   func()
		kind string
		ctr  int
		amt  uint64
	}
	var ths []th
	// the first Adds of the fresh counters come first in thread order: a single
	// forced switch to the opener in the middle of one of them, after which the
	// opener runs to its end and the Add resumes, is then a 1-switch schedule
	for i := range cs {
		if want[i] == 0 {
			i := i
			k := uint64(1 + rnd.Intn(3))
			want[i] += k
			ths = append(ths, th{func() { cs[i].Add(int64(k)) }, "add", i, k})
		}
	}
	if cfg.twice {
		nf := len(ths)
		for k := 0; k < nf; k++ {
			i := len(cs) - nf + k
			want[i] += 2
			ths = append(ths, th{func() { cs[i].Add(2) }, "add", i, 2})
		}
	}
	rotKind := "rot"
	if cfg.full {
		rotKind = "rotf"
	}
	ths = append(ths, th{func() { f.Rotate1() }, rotKind, 0, 0})
	for j := 0; j < cfg.extra; j++ {
		i := rnd.Intn(nc)
		k := uint64(1 + rnd.Intn(3))
		want[i] += k
		ths = append(ths, th{func() { cs[i].Add(int64(k)) }, "add", i, k})
	}
	mw := &mworld{f: f, cs: cs}
	init0 := mw.observe()
	listed0 := mw.listed()
	var lsteps []string
	var lastObs []string
	s := vsched.New(true)
	defer vsched.Stop()
	tids := make([]int, len(ths))
	for i := range tids {
		tids[i] = -1
	}
	budget := 6000
	status := "ok"
	last := -1
	nsteps := 0
	var trace []string
	for {
		var cand []int
		for i := range ths {
			if tids[i] < 0 || !s.Done(tids[i]) {
				cand = append(cand, i)
			}
		}
		if len(cand) == 0 {
			break
		}
		if budget == 0 {
			status = "hang"
			break
		}
		budget--
		var i int
		if cfg.pl != nil {
			i = cand[0]
			if last >= 0 && (tids[last] < 0 || !s.Done(tids[last])) {
				i = last
			} else if last >= 0 {
				// the running thread finished: go on with the next unfinished one
				// after it, cyclically (so that "A partly, B fully, C fully, rest
				// of A" is a schedule with ONE forced switch)
				for d := 1; d <= len(ths); d++ {
					j := (last + d) % len(ths)
					if tids[j] < 0 || !s.Done(tids[j]) {
						i = j
						break
					}
				}
			}
			for k, at := range cfg.pl.at {
				if at == nsteps {
					to := cfg.pl.to[k]
					if to < len(ths) && (tids[to] < 0 || !s.Done(tids[to])) {
						i = to
					}
				}
			}
		} else {
			i = cand[rnd.Intn(len(cand))]
			if last >= 0 && rnd.Chance(70) && (tids[last] < 0 || !s.Done(tids[last])) {
				i = last
			}
		}
		nsteps++
		last = i
		var info vsched.Info
		if tids[i] < 0 {
			tids[i] = s.Go(ths[i].fn)
			info = s.Last(tids[i])
			trace = append(trace, fmt.Sprintf("t%d spawn next=%s@%x", i, info.Label, info.Addr))
		} else {
			pre := s.Last(tids[i])
			info = s.Step(tids[i])
			trace = append(trace, fmt.Sprintf("t%d %s@%x -> next=%s@%x done=%v", i, pre.Label, pre.Addr, info.Label, info.Addr, info.Done))
		}
		lsteps = append(lsteps, I(int64(i)))
		// a lock attempt that found the lock held changes nothing: no need to
		// decode the file again (a self-deadlock otherwise costs budget x parse)
		if !info.Blocked || lastObs == nil {
			lastObs = mw.observe()
		}
		lsteps = append(lsteps, lastObs...)
		if debug {
			fmt.Fprintf(os.Stderr, "  [%d] %s => %v\n", nsteps, trace[len(trace)-1], lastObs)
		}
		if info.Blocked {
			// deadlock: every unfinished thread is parked before a lock it cannot take
			all := true
			for j := range ths {
				if tids[j] < 0 || (!s.Done(tids[j]) && !s.Last(tids[j]).Blocked) {
					all = false
				}
			}
			if all {
				status = "hang"
				break
			}
		}
		if info.Panic != "" {
			status = "panic"
			fmt.Fprintln(os.Stderr, info.Panic)
			break
		}
	}
	fields := []string{"multi", status, I(int64(nc))}
	// lock-step part: initial observation, registration list, thread programs, one observation per step
	fields = append(fields, init0...)
	fields = append(fields, I(int64(len(listed0))))
	for _, c := range listed0 {
		fields = append(fields, I(int64(c)))
	}
	fields = append(fields, I(int64(len(ths))))
	for _, t := range ths {
		fields = append(fields, t.kind, I(int64(t.ctr)), U(t.amt))
	}
	fields = append(fields, I(int64(nsteps)))
	fields = append(fields, lsteps...)
	if status == "ok" {
		data, _ := os.ReadFile(fname)
		pf, perr := counter.Parse(fname, data)
		for i := range cs {
			var got uint64
			if perr == nil {
				got = pf.Count[fmt.Sprintf("m%d", i)]
			}
			fields = append(fields, U(want[i]), U(got), U(counter.VerifExtra(cs[i])))
			if os.Getenv("VH_MULTIDEBUG") != "" && (got != want[i] || counter.VerifExtra(cs[i]) != 0) {
				fmt.Fprintf(os.Stderr, "MULTI-BAD counter m%d want=%d got=%d extra=%d word=%x stateaddr=%x\n", i, want[i], got, counter.VerifExtra(cs[i]), counter.VerifWord(cs[i]), counter.VerifStateAddr(cs[i]))
				for k := range cs {
					fmt.Fprintf(os.Stderr, "  m%d stateaddr=%x word=%x\n", k, counter.VerifStateAddr(cs[k]), counter.VerifWord(cs[k]))
				}
				fmt.Fprintf(os.Stderr, "  cur=%x mu=%x\n", f.CurAddr(), f.MuAddr())
				for _, l := range trace {
					fmt.Fprintln(os.Stderr, "  "+l)
				}
			}
		}
	}
	out.Case(true, fields...)
	f.Close()
	vatomic.ResetClosed()
	counter.VerifConcRelease()
	return nsteps
}

// stackPersist: oracle-only, no scheduler: stack counters (each one a family of
// ordinary counters named by the encoded stack) whose encoded names sweep the
// name-length limit are incremented from a deep recursion with the file open;
// afterwards every one of their counters must be persisted with nothing pending
// (a name the file refuses leaves the counter without pointer for ever).
//
//go:noinline
func deepInc(n int, sc *counter.StackCounter) {
	if n == 0 {
		sc.Inc()
		return
	}
	deepInc(n-1, sc)
}

func stackPersist() {
	dir, err := os.MkdirTemp(root, "s")
	if err != nil {
		panic(err)
	}
	defer os.RemoveAll(dir)
	telemetry.Default = telemetry.NewDir(dir)
	os.MkdirAll(telemetry.Default.LocalDir(), 0777)
	os.WriteFile(filepath.Join(telemetry.Default.LocalDir(), "weekends"), []byte("0\n"), 0666)
	now := time.Date(2024, 1, 3, 10, 0, 0, 0, time.UTC)
	counter.CounterTime = func() time.Time { return now }
	f := counter.VerifNewFile()
	f.Rotate1()
	out.Note("stack-counters-near-the-name-limit")
	// the encoded stack of a 150-frame recursion is about 1.9 KiB here; the
	// counter's own name pads the total across 4096 +- 70
	probe := f.NewStack("probe", 150)
	deepInc(300, probe)
	base := 0
	if ns := probe.Names(); len(ns) == 1 {
		base = len(ns[0]) - len("probe")
	}
	var scs []*counter.StackCounter
	if base > 0 && base < 4000 {
		for total := 4096 - 70; total <= 4096+70; total += 1 + rnd.Intn(3) {
			pad := total - base
			if pad < 1 {
				continue
			}
			sc := f.NewStack(strings.Repeat("s", pad), 150)
			deepInc(300, sc)
			scs = append(scs, sc)
		}
	}
	bad, n := 0, 0
	detail := ""
	for _, sc := range scs {
		for _, c := range sc.Counters() {
			n++
			v, err := counter.Read(c)
			if err != nil || v != 1 || counter.VerifExtra(c) != 0 {
				bad++
				if detail == "" {
					detail = fmt.Sprintf("name length %d: read=%d err=%v pending=%d", len(c.Name()), v, err, counter.VerifExtra(c))
				}
			}
		}
	}
	out.Case(true, "stackpersist", I(int64(n)), I(int64(bad)), HS(detail))
	f.Close()
	vatomic.ResetClosed()
	counter.VerifConcRelease()
}

// systematic: every schedule with at most k forced context switches, for a
// few fixed small scenarios.
func systematic(k int) {
	base := []scenCfg{
		{kind: "rot", withPtr: true, specs: []tspec{{"add", 1}, {"add", 2}, {"rot", 0}}},
		{kind: "ext", withPtr: true, specs: []tspec{{"add", 1}, {"add", 2}, {"ext", 0}}},
		{kind: "open", withPtr: true, specs: []tspec{{"add", 1}, {"add", 2}, {"rot", 0}}},
		{kind: "rot", withPtr: false, specs: []tspec{{"add", 1}, {"add", 2}, {"rot", 0}}},
		{kind: "plain", withPtr: true, specs: []tspec{{"add", 1}, {"add", 2}, {"add", 3}}},
		{kind: "grow", withPtr: false, specs: []tspec{{"add", 1}, {"add", 2}, {"add", 3}}},
		{kind: "grow", withPtr: false, specs: []tspec{{"add", 1}, {"add", 2}, {"rot", 0}}},
		{kind: "mix", withPtr: true, specs: []tspec{{"add", 1}, {"rot", 0}, {"ext", 0}}},
		{kind: "mix", withPtr: false, specs: []tspec{{"add", 1}, {"ext", 0}, {"rot", 0}}},
		{kind: "openfull", withPtr: false, specs: []tspec{{"add", 1}, {"add", 2}, {"rotf", 0}}},
	}
	for _, b := range base {
		c := b
		c.pl = &plan{}
		maxSteps := scenarioCfg(&c) // no forced switch
		nth := len(b.specs)
		var rec func(depth int, from int, pl plan)
		rec = func(depth int, from int, pl plan) {
			if depth == 0 {
				return
			}
			for at := from; at <= maxSteps+4; at++ {
				for to := 0; to < nth; to++ {
					p2 := plan{append(append([]int{}, pl.at...), at), append(append([]int{}, pl.to...), to)}
					c := b
					c.pl = &p2
					scenarioCfg(&c)
					rec(depth-1, at+1, p2)
				}
			}
		}
		rec(k, 0, plan{})
	}
}

// regWindow (one fixed scenario per run; VH_REGWINDOW=1 prints its trace):
// the window between register's claim of c.next and the link into the list.
// File open; goroutine A's first Add on a fresh counter claims c.next and is
// parked before the link; goroutine B's Add on the same counter finds it claimed
// and gets a pointer into the current mapping; a rotation stores a new mapping,
// its invalidateCounters walk misses the counter (not on the list), and it closes
// the old mapping; goroutine D's Add then ENTERS its reader section through the
// closed mapping (Model/CounterMulti predicts exactly this: 2 faults, both flags clear).
func regWindow() {
	dir, err := os.MkdirTemp(root, "w")
	if err != nil {
		panic(err)
	}
	defer os.RemoveAll(dir)
	telemetry.Default = telemetry.NewDir(dir)
	os.MkdirAll(telemetry.Default.LocalDir(), 0777)
	os.WriteFile(filepath.Join(telemetry.Default.LocalDir(), "weekends"), []byte("0\n"), 0666)
	vatomic.ResetClosed()
	now := time.Date(2024, 1, 3, 10, 0, 0, 0, time.UTC)
	counter.CounterTime = func() time.Time { return now }
	f := counter.VerifNewFile()
	f.Rotate1() // the file is open
	c := f.NewCounter("m0")
	mw := &mworld{f: f, cs: []*counter.Counter{c}}
	dbg := os.Getenv("VH_REGWINDOW") != ""
	if dbg {
		fmt.Fprintf(os.Stderr, "regwindow: initial %v\n", mw.observe())
	}
	s := vsched.New(true)
	defer vsched.Stop()
	a := s.Go(func() { c.Add(1) })
	for i := 0; i < 3; i++ { // c.next.Load, f.counters.Load, c.next.CAS: claimed, parked before the link
		s.Step(a)
	}
	if dbg {
		fmt.Fprintf(os.Stderr, "regwindow: A parked before %s; list=%v\n", s.Last(a).Label, mw.listed())
	}
	allDone := true
	run := func(name string, fn func()) int {
		ev0 := len(s.Events)
		t := s.Go(fn)
		for n := 0; !s.Done(t) && n < 500; n++ {
			s.Step(t)
		}
		if !s.Done(t) {
			allDone = false
		}
		faults := 0
		for _, e := range s.Events[ev0:] {
			if strings.HasPrefix(e, "USE-AFTER-UNMAP") {
				faults++
			}
		}
		if dbg {
			fmt.Fprintf(os.Stderr, "regwindow: %s done=%v obs=%v events=%v\n", name, s.Done(t), mw.observe(), s.Events[ev0:])
		}
		return faults
	}
	fb := run("B Add(2)", func() { c.Add(2) })
	now = now.Add(8 * 24 * time.Hour)
	fc := run("C rotate1 (next week)", func() { f.Rotate1() })
	// D's whole call begins after the rotation has returned (mapping closed)
	fd := run("D Add(4)", func() { c.Add(4) })
	for n := 0; !s.Done(a) && n < 500; n++ {
		s.Step(a)
	}
	if !s.Done(a) {
		allDone = false
	}
	if dbg {
		fmt.Fprintf(os.Stderr, "regwindow: A resumed, done=%v obs=%v list=%v\n", s.Done(a), mw.observe(), mw.listed())
	}
	out.Note("registration-window")
	out.Case(true, "regwindow", B(allDone), I(int64(fb)), I(int64(fc)), I(int64(fd)))
	f.Close()
	vatomic.ResetClosed()
	counter.VerifConcRelease()
}

func main() {
	outPath := os.Args[1]
	n, _ := strconv.Atoi(os.Args[2])
	rnd = NewRand(Seed())
	out = NewOut(outPath)
	var err error
	root, err = os.MkdirTemp("", "vh_conc")
	if err != nil {
		panic(err)
	}
	defer os.RemoveAll(root)
	counter.VerifConcInit()
	regWindow()
	for i := 0; i < n; i++ {
		scenario()
		if i%8 == 7 {
			multi()
		}
	}
	stackPersist()
	if os.Getenv("VERIF_TIER") == "thorough" {
		systematic(2)
		multiSystematic(2)
	} else {
		systematic(1)
		multiSystematic(1)
	}
	out.Close()
}
