// vh_create: correspondence harness for the CREATION of a counter file (C04,
// suite create).  Several "processes" (threads under the deterministic
// scheduler) open ONE counter file with the real openMapped and then record a
// counter in it.  The import "os" of internal/counter and internal/mmap is
// rewritten to the shim vosc with Yielding on, so that every file-system call
// (OpenFile, Stat, WriteAt, Stat ...) is a scheduling point: openers race at
// file-system-call granularity and can be killed between any two calls, in
// particular between the creator's write of the header and its extension of
// the file to 16 KiB.  The file may also be found half-created.
//
// After every step of an opener the length of the file and the presence of
// the header are compared with Model/FileCreate; at the end the oracle asks
// that every surviving process has opened the file and that its counter is in
// a well-formed file.
package main

import (
	"bytes"
	"encoding/binary"
	"fmt"
	"os"
	"path/filepath"
	"strconv"
	"strings"

	"golang.org/x/telemetry/internal/counter"
	"golang.org/x/telemetry/internal/verifh/shim/vatomic"
	"golang.org/x/telemetry/internal/verifh/shim/vosc"
	"golang.org/x/telemetry/internal/verifh/shim/vsched"
	. "golang.org/x/telemetry/internal/verifh/vhlib"
)

var rnd *Rand
var out *Out
var root string
var debug = os.Getenv("VH_DEBUG") != ""

// growSteps: a solo opener of a grow scenario is through its extension after this many scheduling points.
const growSteps = 40

const (
	pageSize = 16384
	numHash  = 512
	unit     = 32
)

func fnv(name string) uint32 {
	h := uint32(2166136261)
	for i := 0; i < len(name); i++ {
		h ^= uint32(name[i])
		h *= 16777619
	}
	return (h ^ (h >> 16)) % numHash
}
func le32(d []byte, off uint32) uint32 {
	if int(off)+4 > len(d) {
		return 0
	}
	return binary.LittleEndian.Uint32(d[off:])
}

type rec struct {
	name string
	val  uint64
}

// independent decoder: linked, readable records
func linked(d []byte, H uint32) (rs []rec, ok bool) {
	ok = true
	for b := uint32(0); b < numHash; b++ {
		off := le32(d, H+4+4*b)
		for n := 0; off != 0; n++ {
			if n > len(d)/unit || off < H+4+4*numHash || off%8 != 0 || uint64(off)+16 > uint64(len(d)) {
				return rs, false
			}
			nl := le32(d, off+8) & 0x00ffffff
			if nl == 0 || uint64(off)+16+uint64(nl) > uint64(len(d)) {
				return rs, false
			}
			rs = append(rs, rec{string(d[off+16 : off+16+nl]), binary.LittleEndian.Uint64(d[off:])})
			off = le32(d, off+12)
		}
	}
	return rs, ok
}

func metaOfLen(n int) string {
	s := "TimeBegin: 2024-01-03T00:00:00Z\nTimeEnd: 2024-01-10T00:00:00Z\nProgram: p\n"
	if n < len(s)+2 {
		return s[:n]
	}
	return s + "X: " + strings.Repeat("m", n-len(s)-5) + "\n\n"
}

type tstate struct {
	opened    string // "" not yet returned, "ok", "err"
	result    string // "" | "cell" | "err"
	name      string
	begun     uint64
	completed uint64
	killAt    int
}

var names = []string{"a0", "other", "third/name"}

var nHangs int

func scenario(kind string, fixed []int, kills []int, nth int) {
	if nHangs >= 4 {
		out.Note("skipped-after-hangs")
		return // the code under test hangs widely: keep the run bounded
	}
	dir, err := os.MkdirTemp(root, "c")
	if err != nil {
		panic(err)
	}
	defer os.RemoveAll(dir)
	path := filepath.Join(dir, "c.count")
	meta := metaOfLen(Pick(rnd, []int{10, 60, 93, 200}))
	hdr, err := counter.VerifMappedHeader(meta)
	if err != nil {
		panic(err)
	}
	H := uint32(len(hdr))
	vatomic.ResetClosed()
	vosc.Reset(nil)
	vosc.Yielding = false
	out.Note("initial-" + kind)
	switch kind {
	case "absent":
	case "empty":
		os.WriteFile(path, nil, 0666)
	case "header-only": // a creator killed between its two writes
		os.WriteFile(path, hdr, 0666)
	case "partial": // ... or in the middle of the area to be zeroed
		os.WriteFile(path, append(append([]byte{}, hdr...), make([]byte, 5000)...), 0666)
	case "short-by-2":
		os.WriteFile(path, append(append([]byte{}, hdr...), make([]byte, pageSize-2-len(hdr))...), 0666)
	case "valid":
		h, err := counter.VerifOpenHandle(path, meta)
		if err != nil {
			panic(err)
		}
		h.Close()
	case "grow", "grow-fault":
		// a valid file whose first page is nearly full: every opener's (long) record needs the file to grow
		h, err := counter.VerifOpenHandle(path, meta)
		if err != nil {
			panic(err)
		}
		for i := 0; i < 3; i++ {
			if _, m1, err := h.NewCounter("fill" + strconv.Itoa(i) + strings.Repeat("f", 4070)); err != nil || m1 != nil {
				panic("prefill")
			}
		}
		h.Close()
	}
	curLimit := uint32(0)
	sizeHdr := func() (int64, bool) {
		d, err := os.ReadFile(path)
		if err != nil {
			return 0, false
		}
		curLimit = 0
		if len(d) >= int(H)+4 && bytes.HasPrefix(d, hdr) {
			curLimit = le32(d, H)
		}
		return int64(len(d)), bytes.HasPrefix(d, hdr)
	}
	s0, h0 := sizeHdr()

	ts := make([]*tstate, nth)
	tids := make([]int, nth)
	grow := strings.HasPrefix(kind, "grow")
	for i := range ts {
		ts[i] = &tstate{killAt: -1, name: names[rnd.Intn(len(names))]}
		if grow {
			ts[i].name = "long" + strconv.Itoa(rnd.Intn(2)) + strings.Repeat("g", 4000)
		}
		if kills != nil {
			ts[i].killAt = kills[i]
		}
	}
	faulted := false
	if kind == "grow-fault" {
		// one write or open or stat of somebody fails (no partial effect)
		vosc.Reset(map[int]int{rnd.Intn(14): Pick(rnd, []int{vosc.KENOSPC, vosc.KEIO})})
		faulted = true
	}
	vosc.Yielding = true
	s := vsched.New(false)
	defer func() { vsched.Stop(); vosc.Yielding = false }()
	for i := range ts {
		st := ts[i]
		tids[i] = s.Go(func() {
			h, err := counter.VerifOpenHandle(path, meta)
			if err != nil {
				st.opened = "err"
				return
			}
			st.opened = "ok"
			c, m1, err := h.NewCounter(st.name)
			if err != nil {
				st.result = "err"
				return
			}
			if m1 != nil {
				h = m1
			}
			st.result = "cell"
			for _, k := range []uint64{1, 2} {
				st.begun += k
				counter.VerifCellAdd(h, c, k)
				st.completed += k
			}
		})
	}
	var events []string
	nev := 0
	own := make([]int, nth)
	runnable := func(i int) bool { return !s.Done(tids[i]) && !s.Killed(tids[i]) }
	budget := 4000
	status := "ok"
	last := -1
	pos := 0
	for {
		var cand []int
		for i := range ts {
			if runnable(i) {
				cand = append(cand, i)
			}
		}
		if len(cand) == 0 {
			break
		}
		if budget == 0 {
			status = "hang"
			nHangs++
			break
		}
		budget--
		i := cand[rnd.Intn(len(cand))]
		if pos < len(fixed) {
			i = fixed[pos]
			pos++
			if !runnable(i) {
				continue
			}
		} else if last >= 0 && runnable(last) && rnd.Chance(55) {
			i = last
		}
		last = i
		if ts[i].killAt >= 0 && own[i] >= ts[i].killAt {
			s.Kill(tids[i])
			events = append(events, "k", I(int64(i)))
			nev++
			out.Note("kill")
			continue
		}
		phase := "use"
		if ts[i].opened == "" {
			phase = "open"
		}
		pre := s.Last(tids[i])
		info := s.Step(tids[i])
		own[i]++
		if info.Panic != "" {
			status = "panic"
			fmt.Fprintln(os.Stderr, info.Panic)
			break
		}
		sz, hd := sizeHdr()
		lab := strings.Fields(pre.Label + " -")[0]
		events = append(events, "s", I(int64(i)), phase, lab, I(sz), B(hd), B(ts[i].opened != ""), U(uint64(curLimit)))
		nev++
		if debug {
			fmt.Fprintf(os.Stderr, "  t%d %s %s -> size=%d hdr=%v opened=%q\n", i, phase, lab, sz, hd, ts[i].opened)
		}
	}
	// final file
	d, _ := os.ReadFile(path)
	recs, walkOK := linked(d, H)
	vosc.Reset(nil)
	fields := []string{"cr", kind, status, B(faulted), U(uint64(H)), I(s0), B(h0), I(int64(nth)), I(int64(nev))}
	fields = append(fields, events...)
	for i, st := range ts {
		op, rs := st.opened, st.result
		if op == "" {
			op = "none"
		}
		if rs == "" {
			rs = "none"
		}
		fields = append(fields, B(s.Killed(tids[i])), B(s.Done(tids[i])), op, rs, HS(st.name), U(st.begun), U(st.completed))
	}
	fields = append(fields, I(int64(len(d))), B(bytes.HasPrefix(d, hdr)), B(walkOK), I(int64(len(recs))))
	for _, r := range recs {
		fields = append(fields, HS(r.name), U(r.val))
	}
	out.Case(true, fields...)
}

// two PROGRAMS whose counter files have the same name but whose metadata differ
// (in length, or in content only): the first creates the file and records
// counters, the second opens it with ITS metadata and, if admitted, records
// counters too.  Whatever the second one is told, the first program's file
// must stay well formed and keep its counters.
func headerMismatchCase(la, lb int, sameLenOtherContent bool) {
	dir, err := os.MkdirTemp(root, "h")
	if err != nil {
		panic(err)
	}
	defer os.RemoveAll(dir)
	path := filepath.Join(dir, "c.count")
	metaA, metaB := metaOfLen(la), metaOfLen(lb)
	if sameLenOtherContent {
		metaB = strings.Replace(metaA, "Program: p", "Program: q", 1)
	}
	hdrA, _ := counter.VerifMappedHeader(metaA)
	H := uint32(len(hdrA))
	vatomic.ResetClosed()
	vosc.Reset(nil)
	vosc.Yielding = false
	status := "ok"
	admitted := false
	namesA := []string{"a0", "other", "third/name", "long" + strings.Repeat("g", 300)}
	func() {
		defer func() {
			if r := recover(); r != nil {
				status = "panic"
			}
		}()
		ha, err := counter.VerifOpenHandle(path, metaA)
		if err != nil {
			panic(err)
		}
		for i, nm := range namesA {
			c, m1, err := ha.NewCounter(nm)
			if err != nil {
				panic(err)
			}
			if m1 != nil {
				ha = m1
			}
			counter.VerifCellAdd(ha, c, uint64(i+1))
		}
		hb, err := counter.VerifOpenHandle(path, metaB)
		if err == nil {
			admitted = true
			for i := 0; i < 6; i++ {
				c, m1, err := hb.NewCounter("b" + strconv.Itoa(i) + strings.Repeat("x", 40*i))
				if err != nil {
					break
				}
				if m1 != nil {
					hb = m1
				}
				counter.VerifCellAdd(hb, c, 7)
			}
		}
	}()
	d, _ := os.ReadFile(path)
	recs, walkOK := linked(d, H)
	kept := 0
	for i, nm := range namesA {
		for _, r := range recs {
			if r.name == nm && r.val == uint64(i+1) {
				kept++
				break
			}
		}
	}
	out.Case(true, "hm", I(int64(len(metaA))), I(int64(len(metaB))), B(sameLenOtherContent), status, B(admitted),
		B(bytes.HasPrefix(d, hdrA)), B(walkOK), I(int64(len(namesA))), I(int64(kept)))
	out.Note("header-mismatch")
}

func main() {
	outPath := os.Args[1]
	n, _ := strconv.Atoi(os.Args[2])
	rnd = NewRand(Seed())
	out = NewOut(outPath)
	var err error
	root, err = os.MkdirTemp("", "vh_create")
	if err != nil {
		panic(err)
	}
	defer os.RemoveAll(root)
	counter.VerifMemmapHook(func(base uintptr, n int) {})
	kinds := []string{"absent", "absent", "empty", "header-only", "partial", "short-by-2", "valid", "grow", "grow", "grow-fault", "grow-fault"}
	c := 0
	// designated: the creator is killed between its two writes (after k = 0..6 of its calls), a second process opens
	for k := 0; k <= 6 && c < n; k++ {
		fixed := []int{}
		for j := 0; j < k; j++ {
			fixed = append(fixed, 0)
		}
		scenario("absent", fixed, []int{k, -1}, 2)
		c++
	}
	// two programs, one file name, different metadata (longer, shorter, same length)
	for _, p := range [][2]int{{60, 93}, {93, 60}, {10, 200}, {200, 10}, {60, 61}, {93, 92}} {
		if c < n {
			headerMismatchCase(p[0], p[1], false)
			c++
		}
	}
	if c < n {
		headerMismatchCase(93, 93, true)
		c++
	}
	// every interleaving prefix of two creators on an absent file up to 5 calls each, then random
	for a := 0; a <= 5 && c < n; a++ {
		for b := 0; b <= 5 && c < n; b++ {
			fixed := []int{}
			for j := 0; j < a; j++ {
				fixed = append(fixed, 0)
			}
			for j := 0; j < b; j++ {
				fixed = append(fixed, 1)
			}
			scenario("absent", fixed, nil, 2)
			c++
		}
	}
	for ; c < n; c++ {
		nth := 2 + rnd.Intn(2)
		kind := Pick(rnd, kinds)
		var kills []int
		if rnd.Chance(60) {
			kills = make([]int, nth)
			for i := range kills {
				kills[i] = -1
				if rnd.Chance(50) {
					kills[i] = rnd.Intn(9)
					if strings.HasPrefix(kind, "grow") {
						// anywhere in the open or in the extension that follows it
						kills[i] = rnd.Intn(growSteps)
					}
				}
			}
		}
		scenario(kind, nil, kills, nth)
	}
	out.Close()
}
