// Package fmtgen holds what the C10 and C06 harnesses share: generators of
// counter names and metadata, and an INDEPENDENT encoder of the v1 counter
// file format, written from the layout comment of mappedFile (file.go) with
// the standard library's FNV-1a, not from the package's own code.
package fmtgen

import (
	"encoding/binary"
	"fmt"
	"hash/fnv"
	"strconv"
	"strings"

	. "golang.org/x/telemetry/internal/verifh/vhlib"
)

const (
	Prefix   = "# telemetry/counter file v1\n"
	Page     = 16384
	Unit     = 32
	NumHash  = 512
	MaxName  = 4096
	MaxMeta  = 512
	TableOff = 4
)

type KV struct {
	Name string
	Val  uint64
}

// Hash is FNV-1a 32 (hash/fnv) folded to 9 bits as the format prescribes.
func Hash(name string) uint32 {
	h := fnv.New32a()
	h.Write([]byte(name))
	x := h.Sum32()
	return (x ^ (x >> 16)) % NumHash
}

func roundUp(x, unit int) int { return (x + unit - 1) / unit * unit }

// Header builds the file header for meta (len(meta) <= MaxMeta).
func Header(meta string) []byte {
	np := roundUp(len(Prefix), 4)
	n := roundUp(np+4+len(meta), 32)
	h := make([]byte, n)
	copy(h, Prefix)
	binary.LittleEndian.PutUint32(h[np:], uint32(n))
	copy(h[np+4:], meta)
	return h
}

// HeaderWith builds a header that is longer than the shortest one for meta by
// extra 32-byte units (capped at one page) and, with junk, has non-zero bytes
// after the NUL that ends the metadata.
func HeaderWith(meta string, extra int, junk bool, r *Rand) []byte {
	np := roundUp(len(Prefix), 4)
	need := np + 4 + len(meta)
	if junk {
		need += 2 // the NUL and at least one junk byte
	}
	n := roundUp(need, 32) + 32*extra
	if n > Page {
		n = Page
	}
	if n < need {
		return Header(meta)
	}
	h := make([]byte, n)
	copy(h, Prefix)
	binary.LittleEndian.PutUint32(h[np:], uint32(n))
	copy(h[np+4:], meta)
	if junk {
		for k := np + 4 + len(meta) + 1; k < n; k++ {
			h[k] = byte(1 + r.Intn(255))
		}
	}
	return h
}

// LongMeta returns well-formed metadata of more than 512 bytes (more than the
// library writes, within what a one-page header holds).
func LongMeta(r *Rand) string {
	var sb strings.Builder
	target := 513 + r.Intn(3000)
	for i := 0; sb.Len() < target; i++ {
		fmt.Fprintf(&sb, "Key%d: %s\n", i, strings.Repeat("v", 1+r.Intn(200)))
	}
	return sb.String()
}

type Policy struct {
	HdrExtra  int  // header longer than the minimum by this many 32-byte units
	HdrJunk   bool // non-zero bytes after the NUL that ends the metadata
	ExactLim  bool // allocation limit = exact end of the last record's name (not rounded to 32)
	Tag       int  // -1: random per record, else the tag byte (0 or 0xff)
	Gaps      bool // leave 0..3 unused units before records
	TailLink  bool // link new records at the tail of their chain
	Shuffle   bool // allocate offsets in a different order than linking
	Junk      bool // fill record padding and gaps with non-zero junk
	SlackLim  bool // allocation limit beyond the last record
	ExtraPage bool // unused zero page at the end
}

// Encode writes a v1 counter file holding cs (names distinct, 1..4096 bytes).
// With the zero Policy it is the layout of the Coq Spec.encode: records in the
// order given at consecutive 32-byte boundaries, moved to the next page when
// they would reach the last unit of their page, plain name length word,
// linked at the head of their bucket.
func Encode(meta string, cs []KV, p Policy, r *Rand) []byte {
	hdr := Header(meta)
	if p.HdrExtra > 0 || p.HdrJunk {
		hdr = HeaderWith(meta, p.HdrExtra, p.HdrJunk, r)
	}
	hl := len(hdr)
	buf := make([]byte, Page)
	copy(buf, hdr)
	first := roundUp(hl+TableOff+4*NumHash, Unit)
	cur := first
	grow := func(e int) {
		for len(buf) < e {
			buf = append(buf, make([]byte, Page)...)
		}
	}
	grow(hl + TableOff + 4*NumHash)
	// allocate
	order := make([]int, len(cs))
	for i := range order {
		order[i] = i
	}
	if p.Shuffle {
		for i := len(order) - 1; i > 0; i-- {
			j := r.Intn(i + 1)
			order[i], order[j] = order[j], order[i]
		}
	}
	offs := make([]int, len(cs))
	limit := 0
	for _, i := range order {
		n := roundUp(16+len(cs[i].Name), Unit)
		if p.Gaps {
			g := r.Intn(4)
			if p.Junk {
				grow(cur + g*Unit)
				for k := cur; k < cur+g*Unit; k++ {
					buf[k] = byte(1 + r.Intn(255))
				}
			}
			cur += g * Unit
		}
		s := cur
		if s%Page+n > Page-Unit {
			s = (s/Page + 1) * Page
		}
		grow(s + n)
		offs[i] = s
		cur = s + n
		limit = cur
		if p.ExactLim {
			limit = s + 16 + len(cs[i].Name)
		}
	}
	// write records and link
	for i, c := range cs {
		s := offs[i]
		n := roundUp(16+len(c.Name), Unit)
		binary.LittleEndian.PutUint64(buf[s:], c.Val)
		tag := p.Tag
		if tag < 0 {
			tag = r.Intn(256)
		}
		binary.LittleEndian.PutUint32(buf[s+8:], uint32(len(c.Name))|uint32(tag)<<24)
		copy(buf[s+16:], c.Name)
		if p.Junk {
			for k := s + 16 + len(c.Name); k < s+n; k++ {
				buf[k] = byte(1 + r.Intn(255))
			}
		}
		ho := hl + TableOff + 4*int(Hash(c.Name))
		head := binary.LittleEndian.Uint32(buf[ho:])
		if !p.TailLink || head == 0 {
			binary.LittleEndian.PutUint32(buf[s+12:], head)
			binary.LittleEndian.PutUint32(buf[ho:], uint32(s))
		} else {
			at := int(head)
			for {
				nx := int(binary.LittleEndian.Uint32(buf[at+12:]))
				if nx == 0 {
					break
				}
				at = nx
			}
			binary.LittleEndian.PutUint32(buf[at+12:], uint32(s))
			binary.LittleEndian.PutUint32(buf[s+12:], 0)
		}
	}
	if p.SlackLim && limit > 0 && !p.ExactLim {
		limit += Unit * r.Intn(3)
		grow(limit)
	}
	binary.LittleEndian.PutUint32(buf[hl:], uint32(limit))
	if p.ExtraPage {
		buf = append(buf, make([]byte, Page)...)
	}
	return buf
}

func RandPolicy(r *Rand) Policy {
	return Policy{
		HdrExtra:  Pick(r, []int{0, 0, 0, 1, 2, 5, 17, 100, 490, 511}),
		HdrJunk:   r.Chance(30),
		ExactLim:  r.Chance(50),
		Tag:       Pick(r, []int{0, 0xff, -1}),
		Gaps:      r.Bool(),
		TailLink:  r.Bool(),
		Shuffle:   r.Bool(),
		Junk:      r.Bool(),
		SlackLim:  r.Chance(30),
		ExtraPage: r.Chance(20),
	}
}

func (p Policy) String() string {
	b := func(x bool) byte {
		if x {
			return '1'
		}
		return '0'
	}
	return fmt.Sprintf("t%d%c%c%c%c%c%c%c-x%d", p.Tag, b(p.Gaps), b(p.TailLink), b(p.Shuffle), b(p.Junk), b(p.SlackLim), b(p.ExtraPage), b(p.HdrJunk), p.HdrExtra) + map[bool]string{true: "-exactlimit", false: ""}[p.ExactLim]
}

// ---- names and metadata

var specialLens = []int{1, 2, 15, 16, 17, 47, 48, 49, 4079, 4080, 4081, 4082, 4083, 4084, 4085, 4086, 4087,
	4088, 4089, 4090, 4091, 4092, 4093, 4094, 4095, 4096}

func NameLen(r *Rand) int {
	switch r.Intn(10) {
	case 0:
		return Pick(r, specialLens)
	case 1:
		return 1 + r.Intn(MaxName)
	case 2:
		return 1 + r.Intn(300)
	default:
		return 1 + r.Intn(40)
	}
}

// NameOfLen returns a name of exactly n bytes; contents: ASCII identifiers,
// arbitrary bytes (NUL, newline, 0xff, quotes, dots), or UTF-8.
func NameOfLen(r *Rand, n int) string {
	b := make([]byte, n)
	switch r.Intn(4) {
	case 0:
		for i := range b {
			b[i] = byte(r.Uint64())
		}
	case 1:
		alpha := []byte{0, '\n', 0xff, '"', '.', ':', ' ', 'a', 'b', '/', 0x80, 0xc3, 0xa9, '[', ']'}
		for i := range b {
			b[i] = alpha[r.Intn(len(alpha))]
		}
	default:
		alpha := "abcdefghijklmnopqrstuvwxyz/-_:0123456789"
		for i := range b {
			b[i] = alpha[r.Intn(len(alpha))]
		}
	}
	return string(b)
}

// StackName returns a compressed stack counter name the way EncodeStack
// shapes them (prefix, then lines "path.func:+1,+0x2" with ditto marks).
func StackName(r *Rand) string {
	// incl. instantiated generic functions: the runtime spells them pkg.F[go.shape.int],
	// so the last dot (the one DecodeStack cuts at) lies inside the brackets
	paths := []string{"main", "runtime", "golang.org/x/tools/gopls/internal/cache", "a.b/c", "\"", "x",
		"pkg.Gen[go.shape", "a.b/c.(*T[x.y/z", "m.F[a.b,c"}
	var sb strings.Builder
	sb.WriteString(Pick(r, []string{"crash/crash", "gopls/bug", "p", ""}))
	k := 1 + r.Intn(6)
	last := ""
	for i := 0; i < k; i++ {
		sb.WriteByte('\n')
		p := Pick(r, paths)
		if p == last && r.Chance(85) {
			p = "\""
		} else {
			last = p
		}
		switch r.Intn(8) {
		case 0:
			sb.WriteString(Pick(r, []string{"nodot", "", ".", "\".", ".x", "\"", "a.\"", "p.g[q.r]:+2,+0x1", "\".r]:+5,+0x2", "[.", "p[q].s"}))
		default:
			fmt.Fprintf(&sb, "%s.f%d:+%d,+0x%x", p, r.Intn(4), r.Intn(30), r.Intn(4096))
		}
	}
	return sb.String()
}

func Name(r *Rand) string {
	if r.Chance(15) {
		return StackName(r)
	}
	return NameOfLen(r, NameLen(r))
}

// TwinNames returns a compressed stack counter name together with a second
// counter name that is (or expands to) the first one's expansion.
func TwinNames(r *Rand) []string {
	switch r.Intn(3) {
	case 0:
		return []string{"p\nx.f:+1,+0x1\n\".g:+2,+0x2", "p\nx.f:+1,+0x1\nx.g:+2,+0x2"}
	case 1:
		k := r.Intn(1000)
		return []string{fmt.Sprintf("q%d\ny.h\n\".i", k), fmt.Sprintf("q%d\ny.h\ny.i", k)}
	default:
		return []string{"s\nx.a\n\".b\n\".c", "s\nx.a\nx.b\n\".c"}
	}
}

// CollidingPairs returns pairs of DIFFERENT names with the same 32-bit FNV-1a
// value (hence in the same bucket), found by a birthday search over names
// "<prefix><n>"; the prefix comes from r, so the pairs differ between seeds.
func CollidingPairs(r *Rand, want int) [][2]string {
	prefix := NameOfLen(r, 3+r.Intn(8))
	if r.Bool() {
		prefix = "demo/ctr-" // plain ASCII, as counter names usually are
	}
	seen := make(map[uint32]int, 1<<19)
	var out [][2]string
	for i := 0; len(out) < want && i < 3000000; i++ {
		h := fnv.New32a()
		n := prefix + strconv.Itoa(i)
		h.Write([]byte(n))
		v := h.Sum32()
		if j, ok := seen[v]; ok {
			out = append(out, [2]string{prefix + strconv.Itoa(j), n})
		} else {
			seen[v] = i
		}
	}
	return out
}

// NameInBucket returns a short name that the format hashes to bucket b.
func NameInBucket(r *Rand, b uint32) string {
	base := NameOfLen(r, 1+r.Intn(6))
	for i := 0; ; i++ {
		n := base + strconv.Itoa(i)
		if Hash(n) == b {
			return n
		}
	}
}

// Names returns k distinct names.
func Names(r *Rand, k int) []string {
	seen := map[string]bool{}
	var out []string
	for len(out) < k {
		n := Name(r)
		if !seen[n] {
			seen[n] = true
			out = append(out, n)
		}
	}
	return out
}

func metaLines(r *Rand) string {
	var sb strings.Builder
	for i, k := 0, 1+r.Intn(5); i < k; i++ {
		fmt.Fprintf(&sb, "K%d: %s\n", i, strings.Repeat("w", r.Intn(30)))
	}
	return sb.String() + "Last: "
}

// Meta returns well-formed metadata ("key: value" lines) of at most MaxMeta bytes.
func Meta(r *Rand) string {
	if r.Chance(15) {
		// a length that fills the header exactly: no NUL between the metadata
		// and the allocation limit that follows the header
		m := metaLines(r)
		for (len(m)+1)%32 != 0 {
			m += "v"
		}
		if len(m)+1 <= MaxMeta {
			return m + "\n"
		}
	}
	switch r.Intn(8) {
	case 0:
		return ""
	case 1:
		// as long as allowed
		s := "K: "
		return s + strings.Repeat("v", MaxMeta-len(s)-r.Intn(3))
	case 2:
		return "TimeBegin: 2024-01-01T00:00:00Z\nTimeEnd: 2024-01-08T00:00:00Z\nProgram: a: b\n\nX: \nX: 2\n"
	default:
		var sb strings.Builder
		for i, k := 0, 1+r.Intn(7); i < k; i++ {
			fmt.Fprintf(&sb, "%s: %s\n", NameOfLen(r, 1+r.Intn(8))[:1]+"k"+fmt.Sprint(r.Intn(5)), strings.Map(func(c rune) rune {
				if c == '\n' || c == 0 || c > 126 || c < 32 {
					return 'x'
				}
				return c
			}, NameOfLen(r, r.Intn(20))))
		}
		s := sb.String()
		if r.Bool() {
			s += "\n"
		}
		// keys must not contain NUL or newline, and the line must contain ": "
		s = strings.ReplaceAll(s, "\x00", "z")
		if len(s) > MaxMeta {
			s = s[:MaxMeta]
		}
		return s
	}
}
