// vh_layout: correspondence harness for C10 (v1 on-disk format).  Drives the
// real mappedFile / file API (openMapped, newCounter, extend, Counter.Add,
// close and reopen) on generated operation sequences and writes, per case,
// the operations, what the library answered, the allocation limit and file
// size after every operation and the resulting file bytes; plus the real
// place, hash and mappedHeader on generated arguments, and files written by an
// independent encoder (fmtgen) as read by the real Parse.
package main

import (
	"encoding/binary"
	"fmt"
	"os"
	"path/filepath"
	"sort"
	"strconv"
	"strings"
	"sync/atomic"
	"syscall"

	"golang.org/x/telemetry/internal/counter"
	"golang.org/x/telemetry/internal/verifh/shim/vosy"
	"golang.org/x/telemetry/internal/verifh/shim/vsched"
	"golang.org/x/telemetry/internal/verifh/vh_layout/fmtgen"
	. "golang.org/x/telemetry/internal/verifh/vhlib"
)

var rnd *Rand
var out *Out
var collisions [][2]string // pairs of names with one 32-bit FNV-1a value
var root string
var maxPages = 6

func must(err error) {
	if err != nil {
		panic(err)
	}
}

// ---------------------------------------------------------------- place / hash / header

func casePlace() {
	hdr := uint32(32 * (1 + rnd.Intn(17)))
	if rnd.Chance(5) {
		hdr = uint32(rnd.Intn(20000))
	}
	var limit uint32
	first := hdr + 4 + 4*512
	switch rnd.Intn(8) {
	case 0:
		limit = 0
		out.Note("place-limit-0")
	case 1: // around a page end
		p := uint32(1 + rnd.Intn(40))
		limit = p*16384 - uint32(32*rnd.Intn(140)) + uint32(Pick(rnd, []int{0, 0, 0, 1, 31, -1 + 32}))
		out.Note("place-near-page-end")
	case 2: // unaligned
		limit = first + uint32(rnd.Intn(200000))
		out.Note("place-unaligned")
	case 3: // close to the uint32 range end
		limit = ^uint32(0) - uint32(rnd.Intn(40000))
		out.Note("place-near-2^32")
	case 4: // large
		limit = uint32(rnd.Uint64())
		out.Note("place-any-u32")
	default:
		limit = (first+31)/32*32 + uint32(32*rnd.Intn(6000))
	}
	nl := fmtgen.NameLen(rnd)
	if rnd.Chance(30) {
		// name length that makes the record end on one of the last units of the page
		start := (limit + 31) / 32 * 32
		if limit == 0 {
			start = (first + 31) / 32 * 32
		}
		pe := (start/16384 + 1) * 16384
		n := int(pe) - int(start) - 32*rnd.Intn(10)
		if n >= 32 && n <= 4128 {
			nl = n - 16 - rnd.Intn(32)
			if nl < 1 {
				nl = 1
			}
			if nl > 4096 {
				nl = 4096
			}
			out.Note("place-page-tail-target")
		}
	}
	s, e := counter.VerifPlace(hdr, limit, nl)
	out.Case(true, "place", U(uint64(hdr)), U(uint64(limit)), I(int64(nl)), U(uint64(s)), U(uint64(e)))
}

func caseHash() {
	var name string
	switch rnd.Intn(6) {
	case 0:
		name = Pick(rnd, []string{"", "a", "foobar", "b", "chongo was here!\n", "\x00", "\xff"})
	default:
		name = fmtgen.Name(rnd)
	}
	out.Case(true, "hash", HS(name), U(uint64(counter.VerifHash(name))))
}

func caseHeader() {
	var meta string
	switch rnd.Intn(5) {
	case 0:
		meta = strings.Repeat("m", 505+rnd.Intn(12))
	case 1:
		meta = string(rnd.Bytes(rnd.Intn(520)))
	default:
		meta = fmtgen.Meta(rnd)
	}
	h, err := counter.VerifMappedHeader(meta)
	if err != nil {
		out.Note("header-too-large")
		out.Case(true, "header", HS(meta), "err", "h")
		return
	}
	out.Case(true, "header", HS(meta), "ok", H(h))
}

// ---------------------------------------------------------------- operation sequences

type session struct {
	path     string
	meta     string
	m        *counter.VerifMapped // mapped mode
	f        *counter.VerifFile   // file mode
	ctrs     map[string]*counter.Counter
	names    []string
	fileMode bool
	frozen   bool     // only operations that do not add records
	faulting bool     // a fault plan is installed: newCounter / Add / extend only
	wantGrow bool     // pick a name whose record does not fit into the file
	runaway  []string // set when an operation grew the file by more than two pages (wire fields)
	dead     string   // set when the writer can no longer open its own file
}

func (s *session) disk() []byte {
	b, err := os.ReadFile(s.path)
	must(err)
	return b
}

// fileLimitSize reads the header length word, the allocation limit and the
// size of a counter file without reading the file (it may be huge and sparse
// when the code under test went wrong).
func fileLimitSize(path string) (uint32, int64) {
	f, err := os.Open(path)
	if err != nil {
		return 0, 0
	}
	defer f.Close()
	st, err := f.Stat()
	must(err)
	var w [4]byte
	if _, err := f.ReadAt(w[:], 28); err != nil {
		return 0, st.Size()
	}
	hl := binary.LittleEndian.Uint32(w[:])
	if _, err := f.ReadAt(w[:], int64(hl)); err != nil {
		return 0, st.Size()
	}
	return binary.LittleEndian.Uint32(w[:]), st.Size()
}

func (s *session) limitSize() (uint32, int64) { return fileLimitSize(s.path) }

// maxCaseFile: a file larger than this is not put on the wire; it is reported
// as a case of kind "runaway" (sizes only).
const maxCaseFile = 4 << 20

func (s *session) pages() int {
	st, err := os.Stat(s.path)
	must(err)
	return int(st.Size() / 16384)
}

func (s *session) open() bool {
	m, err := counter.VerifOpenMapped(s.path, s.meta)
	if err != nil {
		return false
	}
	s.m = m
	if s.fileMode {
		s.f = counter.VerifFileOn(m)
		s.ctrs = map[string]*counter.Counter{}
	}
	return true
}

func (s *session) close() {
	if s.fileMode && s.f != nil {
		s.f.Close()
		s.f = nil
	} else if s.m != nil {
		s.m.Close()
	}
	s.m = nil
}

func errTag(err error) string {
	switch {
	case err == nil:
		return "ok"
	case counter.VerifIsCorrupt(err):
		return "corrupt"
	case strings.Contains(err.Error(), "too long"):
		return "long"
	case strings.Contains(err.Error(), "name empty"):
		return "empty"
	default:
		return "fail"
	}
}

// pickName: mostly new names, sometimes an existing one, sometimes one aimed
// at the last units of the current page.
// growName: a name whose record does not fit into what is left of the file
// (so that newCounter has to extend it), "" when no single name can do that.
func (s *session) growName() string {
	limit, size := s.limitSize()
	hl := uint32(len(fmtgen.Header(s.meta)))
	start := (limit + 31) / 32 * 32
	if limit == 0 {
		start = (hl + 4 + 2048 + 31) / 32 * 32
	}
	rem := int(size) - int(start)
	if rem > 4128+31 {
		return ""
	}
	nl := rem - 31
	if nl < 1 {
		nl = 1 + rnd.Intn(40)
	}
	if nl > 4096 {
		nl = 4096
	}
	return fmtgen.NameOfLen(rnd, nl)
}

func (s *session) pickName() string {
	if s.wantGrow {
		if n := s.growName(); n != "" {
			out.Note("op-name-forcing-growth")
			return n
		}
		out.Note("op-fill-big")
		return fmtgen.NameOfLen(rnd, 3900+rnd.Intn(197))
	}
	if len(s.names) > 0 && (s.frozen || rnd.Chance(25)) {
		out.Note("op-existing-name")
		return Pick(rnd, s.names)
	}
	if rnd.Chance(25) {
		limit, _ := s.limitSize()
		hl := uint32(len(fmtgen.Header(s.meta)))
		start := (limit + 31) / 32 * 32
		if limit == 0 {
			start = (hl + 4 + 2048 + 31) / 32 * 32
		}
		pe := (start/16384 + 1) * 16384
		space := int(pe - start)
		if space > 4128+32*9 {
			out.Note("op-fill-big")
			return fmtgen.NameOfLen(rnd, 3900+rnd.Intn(197))
		}
		n := space - 32*rnd.Intn(10)
		if n >= 32 && n <= 4128 {
			nl := n - 16 - rnd.Intn(32)
			if nl >= 1 && nl <= 4096 {
				out.Note("op-page-tail-target")
				return fmtgen.NameOfLen(rnd, nl)
			}
		}
	}
	if rnd.Chance(3) {
		out.Note("op-name-too-long")
		return fmtgen.NameOfLen(rnd, 4097+rnd.Intn(3))
	}
	if rnd.Chance(2) {
		out.Note("op-name-empty")
		return ""
	}
	return fmtgen.Name(rnd)
}

func (s *session) remember(name string) {
	for _, n := range s.names {
		if n == name {
			return
		}
	}
	s.names = append(s.names, name)
}

// one operation, now and then with a fault plan for the file-system calls it
// makes (they are made only when the file has to grow): call index k fails
// with an errno.  Wire: "F" k before the operation's own fields.
func (s *session) op() []string {
	_, before := s.limitSize()
	f := s.op1()
	_, after := s.limitSize()
	// newCounter / Add grow the file by at most two pages; extend(e) to the page after e
	allowed := before + 32768
	if len(f) >= 2 && (f[0] == "X" || (f[0] == "F" && len(f) >= 4 && f[2] == "X")) {
		allowed = after // explicit extension: any target the harness asked for
	}
	if after > allowed && s.runaway == nil {
		s.runaway = []string{I(before), I(after), f[0]}
	}
	return f
}

func (s *session) op1() []string {
	if s.fileMode || !rnd.Chance(18) {
		s.wantGrow = !s.fileMode && !s.frozen && rnd.Chance(8)
		f := s.plainOp()
		s.wantGrow = false
		return f
	}
	k := rnd.Intn(6)
	errno := Pick(rnd, []syscall.Errno{syscall.ENOSPC, syscall.EIO, syscall.EFBIG, syscall.EDQUOT})
	s.faulting = true
	s.wantGrow = !s.frozen && rnd.Chance(75)
	vosy.Reset(map[int]syscall.Errno{k: errno})
	f := s.plainOp()
	fired := len(vosy.Fired) > 0
	vosy.Reset(nil)
	s.faulting, s.wantGrow = false, false
	out.Note("op-fault-planned")
	if fired {
		out.Note("op-fault-fired-call-" + strconv.Itoa(k))
		// the handle may be behind the file now (growth done, remap failed): take a fresh one
		s.close()
		if !s.open() {
			s.dead = "after an injected fault"
		}
	}
	return append([]string{"F", I(int64(k))}, f...)
}

func (s *session) plainOp() []string {
	var f []string
	k := rnd.Intn(100)
	if s.faulting && k >= 90 {
		k = rnd.Intn(90)
	}
	switch {
	case s.fileMode && k < 90:
		name := s.pickName()
		if len(name) > 4096 {
			name = name[:4096]
		}
		delta := uint64(1 + rnd.Intn(1<<20))
		c := s.ctrs[name]
		if c == nil {
			c = s.f.NewCounter(name)
			s.ctrs[name] = c
		}
		c.Add(int64(delta))
		s.remember(name)
		out.Note("op-counter-add")
		f = []string{"A", HS(name), U(delta), "any"}
	case !s.fileMode && k < 45:
		name := s.pickName()
		_, off, cur, err := s.m.NewCounter(name)
		s.m = cur
		out.Note("op-new")
		f = []string{"N", HS(name), errTag(err)}
		if err == nil {
			f = append(f, I(off))
			s.remember(name)
		}
	case !s.fileMode && k < 85:
		name := s.pickName()
		var delta uint64
		switch rnd.Intn(4) {
		case 0:
			delta = rnd.Uint64()
		case 1:
			delta = ^uint64(0)
		default:
			delta = uint64(rnd.Intn(1000))
		}
		var p *atomic.Uint64
		p, off, cur, err := s.m.NewCounter(name)
		s.m = cur
		out.Note("op-add")
		f = []string{"A", HS(name), U(delta), errTag(err)}
		if err == nil {
			p.Add(delta)
			f = append(f, I(off))
			s.remember(name)
		}
	case !s.fileMode && k < 90:
		_, size := s.limitSize()
		var e uint32
		switch rnd.Intn(3) {
		case 0:
			e = uint32(rnd.Intn(int(size) + 1))
		case 1:
			e = uint32(size) + uint32(1+rnd.Intn(16384))
		default:
			e = uint32(size) + uint32(rnd.Intn(3*16384))
		}
		if s.pages() >= maxPages {
			e = uint32(rnd.Intn(int(size) + 1))
		}
		cur, err := s.m.Extend(e)
		s.m = cur
		out.Note("op-extend")
		f = []string{"X", U(uint64(e)), map[bool]string{true: "done", false: "fail"}[err == nil]}
	default:
		// close and reopen, sometimes with other metadata (must be refused)
		meta := s.meta
		if rnd.Chance(30) {
			meta = Pick(rnd, []string{s.meta + "Z: 1\n", "", s.meta + "\x00", "x" + s.meta})
			if len(meta) > 512 {
				meta = "Q: 1\n"
			}
		}
		s.close()
		old := s.meta
		s.meta = meta
		ok := s.open()
		if !ok && meta == old {
			s.dead = "on a plain close and reopen"
		}
		out.Note("op-reopen")
		f = []string{"R", HS(meta), map[bool]string{true: "done", false: "fail"}[ok]}
		if !ok {
			out.Note("op-reopen-refused")
			s.meta = old
			if !s.open() {
				s.dead = "after a refused open with other metadata"
			}
		}
	}
	limit, size := s.limitSize()
	return append(f, U(uint64(limit)), U(uint64(size)))
}

// caseOps: one session cut into segments; every segment is one case whose
// initial contents are the file as the previous segment left it.
func caseOps(init []byte, meta string, names []string) {
	dir, err := os.MkdirTemp(root, "l")
	must(err)
	defer os.RemoveAll(dir)
	s := &session{path: filepath.Join(dir, "c.v1.count"), meta: meta, fileMode: rnd.Chance(30), names: names}
	if init != nil {
		must(os.WriteFile(s.path, init, 0666))
		s.fileMode = false
	}
	if !s.open() {
		out.Note("ops-open-failed")
		out.Case(true, "ops", H(init), HS(meta), "openfail")
		return
	}
	defer s.close()
	if s.fileMode {
		out.Note("ops-file-api")
	} else {
		out.Note("ops-mapped-api")
	}
	segs := 1 + rnd.Intn(3)
	for g := 0; g < segs; g++ {
		var start []byte
		if g == 0 && init == nil {
			start = nil
		} else {
			start = s.disk()
		}
		nops := 1 + rnd.Intn(14)
		fields := []string{"ops", H(start), HS(s.meta), "open", I(int64(nops))}
		done := 0
		for i := 0; i < nops && s.runaway == nil && s.dead == ""; i++ {
			if s.pages() >= maxPages {
				s.frozen = true // keep the case small
			}
			fields = append(fields, s.op()...)
			done++
		}
		if _, size := s.limitSize(); s.runaway != nil || size > maxCaseFile {
			if s.runaway == nil {
				s.runaway = []string{I(0), I(size), "size"}
			}
			out.Note("ops-runaway")
			out.Case(true, append([]string{"runaway", I(int64(done))}, s.runaway...)...)
			return
		}
		fields[4] = I(int64(done))
		final := s.disk()
		if s.dead != "" {
			// the writer is locked out of the file it wrote: report it with the file
			out.Note("ops-writer-locked-out")
			out.Case(true, "lockout", HS(s.meta), HS(s.dead), H(final))
		}
		fields = append(fields, H(final))
		out.Note("ops-pages-" + strconv.Itoa(len(final)/16384))
		out.Case(true, fields...)
		if s.pages() > maxPages || s.dead != "" {
			break
		}
	}
}

// ---------------------------------------------------------------- independent encoder

func parseFields(data []byte) []string {
	pf, err := counter.Parse("f", data)
	if err != nil {
		switch {
		case strings.Contains(err.Error(), "too short"):
			return []string{"short"}
		case strings.Contains(err.Error(), "wrong hdr"):
			return []string{"hdr"}
		default:
			return []string{"corrupt"}
		}
	}
	f := []string{"ok"}
	var ks []string
	for k := range pf.Meta {
		ks = append(ks, k)
	}
	sort.Strings(ks)
	f = append(f, I(int64(len(ks))))
	for _, k := range ks {
		f = append(f, HS(k), HS(pf.Meta[k]))
	}
	ks = ks[:0]
	for k := range pf.Count {
		ks = append(ks, k)
	}
	sort.Strings(ks)
	f = append(f, I(int64(len(ks))))
	for _, k := range ks {
		f = append(f, HS(k), U(pf.Count[k]))
	}
	return f
}

func caseSpec() {
	meta := fmtgen.Meta(rnd)
	longMeta := rnd.Chance(15)
	if longMeta {
		meta = fmtgen.LongMeta(rnd)
		out.Note("spec-long-metadata")
	}
	k := rnd.Intn(12)
	if rnd.Chance(20) {
		k = 20 + rnd.Intn(60)
	}
	names := fmtgen.Names(rnd, k)
	if rnd.Chance(25) {
		// big names: several pages
		for i := range names {
			if rnd.Chance(40) {
				names[i] = fmtgen.NameOfLen(rnd, 3000+rnd.Intn(1097)) + strconv.Itoa(i)
				if len(names[i]) > 4096 {
					names[i] = names[i][:4090] + strconv.Itoa(i)
				}
			}
		}
		if len(names) > 20 {
			names = names[:20]
		}
	}
	if len(collisions) > 0 && rnd.Chance(20) {
		// two different names with one 32-bit FNV-1a value
		p := Pick(rnd, collisions)
		names = append(names, p[0], p[1])
		out.Note("spec-fnv32-colliding-names")
	}
	if rnd.Chance(25) {
		// a compressed stack name and its own expansion as two counters
		names = append(names, fmtgen.TwinNames(rnd)...)
		out.Note("spec-twin-names")
	}
	cs := make([]fmtgen.KV, len(names))
	for i, n := range names {
		cs[i] = fmtgen.KV{Name: n, Val: rnd.Uint64() >> uint(rnd.Intn(64))}
	}
	var p fmtgen.Policy
	if rnd.Bool() || longMeta {
		p = fmtgen.RandPolicy(rnd)
		out.Note("spec-policy-varied")
		if p.HdrExtra > 0 {
			out.Note("spec-header-above-minimum")
		}
		if p.HdrJunk {
			out.Note("spec-header-junk-after-nul")
		}
	} else {
		out.Note("spec-policy-coq")
	}
	data := fmtgen.Encode(meta, cs, p, rnd)
	fields := []string{"spec", HS(meta), p.String(), I(int64(len(cs)))}
	for _, c := range cs {
		fields = append(fields, HS(c.Name), U(c.Val))
	}
	fields = append(fields, H(data))
	fields = append(fields, parseFields(data)...)
	out.Note("spec-pages-" + strconv.Itoa(len(data)/16384))
	out.Case(true, fields...)
	// the library continues on the file the independent encoder wrote
	if len(data)/16384 <= maxPages && rnd.Chance(60) {
		out.Note("ops-on-spec-file")
		caseOps(data, meta, names)
	}
}

// ---------------------------------------------------------------- racing writers

type raceOp struct {
	add   bool
	name  string
	delta uint64
}

// runRace: W writers open the same file (initial contents init, nil = absent)
// and perform their operations, as managed threads that park before every
// file-system call (openMapped's creation sequence; extend and the remap loop
// inside newCounter).  The plan is a list of (global step, writer)
// preemptions; otherwise the running writer continues until it is done.
// Returns the schedule actually executed, allocation limit and file size read
// from disk after every step, the per-writer results and the file.
func runRace(meta string, init []byte, progs [][]raceOp, plan [][2]int, fault int) (sched []int, trace [][2]uint64, res [][]string, final []byte) {
	dir, err := os.MkdirTemp(root, "r")
	must(err)
	defer os.RemoveAll(dir)
	path := filepath.Join(dir, "c.v1.count")
	if init != nil {
		must(os.WriteFile(path, init, 0666))
	}
	hl := len(fmtgen.Header(meta))
	res = make([][]string, len(progs))
	// under the scheduler every step performs exactly one file-system call, so
	// the call index of the fault plan is the index of the step
	if fault >= 0 {
		vosy.Reset(map[int]syscall.Errno{fault: Pick(rnd, []syscall.Errno{syscall.ENOSPC, syscall.EIO, syscall.ENOMEM, syscall.EMFILE})})
	} else {
		vosy.Reset(nil)
	}
	defer vosy.Reset(nil)
	s := vsched.New(false)
	defer vsched.Stop()
	for i := range progs {
		i := i
		s.Go(func() {
			m, err := counter.VerifOpenMapped(path, meta)
			if err != nil {
				res[i] = []string{"openfail"}
				return
			}
			r := []string{"open"}
			for _, o := range progs[i] {
				p, off, cur, err := m.NewCounter(o.name)
				m = cur
				r = append(r, errTag(err))
				if err == nil {
					r = append(r, I(off))
					if o.add {
						p.Add(o.delta)
					}
				}
			}
			res[i] = r
			m.Close()
		})
	}
	cur := 0
	for g := 0; !s.AllDone() && g < 2000; g++ {
		for _, p := range plan {
			if p[0] == g && p[1] < len(progs) && !s.Done(p[1]) {
				cur = p[1]
			}
		}
		if s.Done(cur) {
			cur = s.Runnable()[0]
		}
		info := s.Step(cur)
		if info.Panic != "" {
			res[cur] = []string{"panic"}
			out.Note("race-writer-panicked")
		}
		sched = append(sched, cur)
		l, z := fileLimitSize(path)
		_ = hl
		trace = append(trace, [2]uint64{uint64(l), uint64(z)})
	}
	if _, z := fileLimitSize(path); z > maxCaseFile {
		final = nil // reported as a runaway by the caller
		return
	}
	final, err = os.ReadFile(path)
	must(err)
	return
}

// raceScenario: every plan with at most two preemptions (a deterministic
// sample when there are more than maxRuns), one case per distinct schedule, at
// most maxCases cases.
func raceScenario(kind, meta string, init []byte, progs [][]raceOp, steps, maxRuns, maxCases int, faults bool) {
	w := len(progs)
	var plans [][][2]int
	plans = append(plans, nil)
	for g := 1; g < steps; g++ {
		for t := 0; t < w; t++ {
			plans = append(plans, [][2]int{{g, t}})
			for g2 := g + 1; g2 < steps; g2++ {
				for t2 := 0; t2 < w; t2++ {
					if t2 != t {
						plans = append(plans, [][2]int{{g, t}, {g2, t2}})
					}
				}
			}
		}
	}
	seen := map[string]bool{}
	cases := 0
	type run struct {
		plan  [][2]int
		fault int
	}
	var runs []run
	if !faults {
		for pi, plan := range plans {
			if maxRuns < len(plans) && pi > 40 && rnd.Intn(len(plans)) >= maxRuns {
				continue
			}
			runs = append(runs, run{plan, -1})
		}
	} else {
		// a failing file-system call: for every plan with at most one preemption,
		// the call with which the preempted writer resumes and its next two calls
		// (the window in which another writer has worked on the file the first
		// one has just grown), plus a few arbitrary positions
		for _, plan := range plans {
			if len(plan) > 1 {
				continue
			}
			sched, _, _, _ := runRace(meta, init, progs, plan, -1)
			var at []int
			if len(plan) == 1 && plan[0][0] < len(sched) {
				g := plan[0][0]
				victim := sched[g-1]
				for k := g; k < len(sched); k++ {
					if sched[k] == victim {
						at = append(at, k, k+1, k+2)
						break
					}
				}
			}
			at = append(at, rnd.Intn(len(sched)+1))
			for _, f := range at {
				runs = append(runs, run{plan, f})
			}
		}
		if len(runs) > maxRuns {
			// keep a deterministic sample, spread over the whole list
			var keep []run
			for i, r := range runs {
				if (i*maxRuns)/len(runs) != ((i+1)*maxRuns)/len(runs) {
					keep = append(keep, r)
				}
			}
			runs = keep
		}
	}
	for _, rn := range runs {
		plan := rn.plan
		sched, trace, res, final := runRace(meta, init, progs, plan, rn.fault)
		if final == nil && len(trace) > 0 {
			out.Note("race-runaway")
			out.Case(true, "runaway", I(int64(len(sched))), U(uint64(len(init))), U(trace[len(trace)-1][1]), "race")
			cases++
			if cases >= maxCases {
				break
			}
			continue
		}
		key := fmt.Sprint(sched, rn.fault)
		if seen[key] {
			continue
		}
		seen[key] = true
		if cases >= maxCases {
			break
		}
		cases++
		if rn.fault >= 0 {
			out.Note("race-" + kind + "-with-fault")
		}
		fields := []string{"race", kind, I(int64(rn.fault)), HS(meta)}
		if init == nil {
			fields = append(fields, "absent", "h")
		} else {
			fields = append(fields, "present", H(init))
		}
		fields = append(fields, I(int64(w)))
		for i := range progs {
			fields = append(fields, I(int64(len(progs[i]))))
			for _, o := range progs[i] {
				fields = append(fields, B(o.add), HS(o.name), U(o.delta))
			}
		}
		fields = append(fields, I(int64(len(sched))))
		for _, t := range sched {
			fields = append(fields, I(int64(t)))
		}
		for _, t := range trace {
			fields = append(fields, U(t[0]), U(t[1]))
		}
		for i := range progs {
			fields = append(fields, I(int64(len(res[i]))))
			fields = append(fields, res[i]...)
		}
		fields = append(fields, H(final))
		out.Note("race-" + kind + "-writers-" + strconv.Itoa(w))
		out.Note("race-preemptions-" + strconv.Itoa(len(plan)))
		out.Case(true, fields...)
	}
}

// caseRaceCreate: writers starting on a file that is absent / empty /
// header-only, short programs on names that stay within the first page.
func caseRaceCreate(w, maxRuns, maxCases int, faults bool) {
	meta := fmtgen.Meta(rnd)
	var init []byte
	switch rnd.Intn(5) {
	case 0:
		init = fmtgen.Header(meta) // a writer died after its first creation write
		out.Note("race-init-header-only")
	case 1:
		init = []byte{}
		out.Note("race-init-empty")
	default:
		out.Note("race-init-absent")
	}
	shared := fmtgen.NameOfLen(rnd, 1+rnd.Intn(20))
	progs := make([][]raceOp, w)
	for i := range progs {
		for j, k := 0, 1+rnd.Intn(2); j < k; j++ {
			name := fmtgen.NameOfLen(rnd, 1+rnd.Intn(60)) + strconv.Itoa(i)
			if rnd.Chance(25) {
				name = shared
			}
			progs[i] = append(progs[i], raceOp{add: rnd.Chance(70), name: name, delta: uint64(1 + rnd.Intn(1000))})
		}
	}
	raceScenario("create", meta, init, progs, 7*w, maxRuns, maxCases, faults)
}

// caseRaceGrow: the file exists and its last page is nearly full; the writers
// race on the SAME new name whose record needs a new page (so that newCounter
// parks inside extend while another writer links that name), then allocate
// further records of different sizes.
func caseRaceGrow(w, maxRuns, maxCases int, faults bool) {
	meta := fmtgen.Meta(rnd)
	dir, err := os.MkdirTemp(root, "g")
	must(err)
	defer os.RemoveAll(dir)
	path := filepath.Join(dir, "c.v1.count")
	s := &session{path: path, meta: meta}
	if !s.open() {
		out.Note("race-scenario-file-not-created")
		return
	}
	for s.growName() == "" {
		_, _, cur, err := s.m.NewCounter(fmtgen.NameOfLen(rnd, 3700+rnd.Intn(390)))
		must(err)
		s.m = cur
	}
	if rnd.Chance(40) {
		// a second page already in use
		_, _, cur, err := s.m.NewCounter(s.growName())
		must(err)
		s.m = cur
		for s.growName() == "" {
			_, _, cur, err := s.m.NewCounter(fmtgen.NameOfLen(rnd, 3700+rnd.Intn(390)))
			must(err)
			s.m = cur
		}
		out.Note("race-grow-two-pages")
	}
	contended := s.growName()
	if len(contended) < 4096 && rnd.Bool() {
		contended = fmtgen.NameOfLen(rnd, len(contended)+rnd.Intn(4097-len(contended)))
	}
	s.close()
	init, err := os.ReadFile(path)
	must(err)
	small := func(i int) raceOp {
		return raceOp{add: rnd.Chance(80), name: fmtgen.NameOfLen(rnd, Pick(rnd, []int{1, 1, 2, 5, 16, 17, 40, 100, 300})) + strconv.Itoa(i), delta: uint64(1 + rnd.Intn(1000))}
	}
	progs := make([][]raceOp, w)
	for i := range progs {
		if i < 2 || rnd.Chance(50) {
			progs[i] = append(progs[i], raceOp{add: rnd.Chance(70), name: contended, delta: uint64(1 + rnd.Intn(1000))})
		} else {
			progs[i] = append(progs[i], raceOp{add: true, name: fmtgen.NameOfLen(rnd, 3000+rnd.Intn(1000)), delta: 1})
		}
		for j, k := 0, rnd.Intn(4); j < k; j++ {
			progs[i] = append(progs[i], small(i*10+j))
		}
		if rnd.Chance(20) {
			// a small name first: the contended one is not the first operation
			progs[i] = append([]raceOp{small(i*10 + 9)}, progs[i]...)
		}
	}
	raceScenario("grow", meta, init, progs, 12*w, maxRuns, maxCases, faults)
}

func main() {
	if len(os.Args) < 3 {
		fmt.Fprintln(os.Stderr, "usage: vh_layout <cases file> <n>")
		os.Exit(2)
	}
	n, _ := strconv.Atoi(os.Args[2])
	rnd = NewRand(Seed())
	out = NewOut(os.Args[1])
	var err error
	root, err = os.MkdirTemp("", "vh-layout-")
	must(err)
	defer os.RemoveAll(root)
	if os.Getenv("VERIF_TIER") == "thorough" {
		maxPages = 12
	}
	collisions = fmtgen.CollidingPairs(rnd, 4)
	if os.Getenv("VERIF_TIER") == "thorough" {
		for i := 0; i < 4; i++ {
			caseRaceCreate(2+i%2, 1<<30, 1<<30, false)
			caseRaceGrow(2, 1<<30, 1<<30, false)
			caseRaceGrow(3, 3000, 600, false)
			caseRaceGrow(2, 1<<30, 1<<30, true)
			caseRaceCreate(2, 1<<30, 1<<30, true)
		}
	} else if n >= 50 {
		caseRaceCreate(2, 1<<30, 50, false)
		caseRaceCreate(3, 300, 30, false)
		caseRaceGrow(2, 900, 70, false)
		caseRaceGrow(2, 900, 40, false)
		caseRaceGrow(2, 120, 90, true)
		caseRaceCreate(2, 40, 25, true)
	}
	for i := 0; i < n; i++ {
		if st, err := os.Stat(os.Args[1]); err == nil && st.Size() > 1<<30 {
			out.Note("output-cap-reached")
			break
		}
		switch k := rnd.Intn(100); {
		case k < 55:
			casePlace()
		case k < 65:
			caseHash()
		case k < 70:
			caseHeader()
		case k < 90:
			meta := fmtgen.Meta(rnd)
			if rnd.Chance(5) {
				meta = Pick(rnd, []string{"no colon here", strings.Repeat("k", 513), "a:b\n"})
			}
			caseOps(nil, meta, nil)
		default:
			caseSpec()
		}
	}
	out.Close()
}
