// Package vh_replib holds what the C01 (vh_report) and C11 (vh_approval)
// harnesses share: generators of upload configurations, program builds,
// counter names and values, a writer of counter files in the documented v1
// layout (so that files with ANY program identity can be produced; the
// library itself only writes the running binary's identity), the choice of
// the report's X through crypto/rand.Reader, and the wire encoders.
package vh_replib

import (
	"encoding/binary"
	"fmt"
	"math"
	"path"
	"sort"
	"strings"
	"time"
	"unicode/utf8"

	"golang.org/x/telemetry/internal/telemetry"
	. "golang.org/x/telemetry/internal/verifh/vhlib"
)

// ---------------------------------------------------------------- counter file writer (v1 layout)

const (
	hdrPrefix  = "# telemetry/counter file v1\n"
	recordUnit = 32
	numHash    = 512
	hashOff    = 4
	pageSize   = 16 * 1024
)

func round(x, unit int) int { return (x + unit - 1) / unit * unit }

func fnvHash(name string) uint32 {
	h := uint32(2166136261)
	for i := 0; i < len(name); i++ {
		h = (h ^ uint32(name[i])) * 16777619
	}
	return (h ^ (h >> 16)) % numHash
}

type KV struct {
	K string
	V uint64
}

// EncodeCountFile lays out a counter file as internal/counter/file.go
// documents it: header (prefix, uint32 header length, metadata), allocation
// limit, 512 hash heads, 32-byte aligned records (value, name length, next,
// name) that never reach a page end.
func EncodeCountFile(meta string, counts []KV) []byte {
	np := round(len(hdrPrefix), 4)
	hdrLen := round(np+4+len(meta), 32)
	buf := make([]byte, pageSize)
	copy(buf, hdrPrefix)
	binary.LittleEndian.PutUint32(buf[np:], uint32(hdrLen))
	copy(buf[np+4:], meta)
	limit := hdrLen + hashOff + 4*numHash
	for _, kv := range counts {
		n := round(16+len(kv.K), recordUnit)
		start := round(limit, recordUnit)
		if start/pageSize != (start+n)/pageSize {
			start = round(limit, pageSize)
		}
		end := start + n
		for len(buf) < round(end+recordUnit, pageSize) {
			buf = append(buf, make([]byte, pageSize)...)
		}
		headOff := hdrLen + hashOff + 4*int(fnvHash(kv.K))
		head := binary.LittleEndian.Uint32(buf[headOff:])
		binary.LittleEndian.PutUint64(buf[start:], kv.V)
		binary.LittleEndian.PutUint32(buf[start+8:], uint32(len(kv.K))|0xff000000)
		binary.LittleEndian.PutUint32(buf[start+12:], head)
		copy(buf[start+16:], kv.K)
		binary.LittleEndian.PutUint32(buf[headOff:], uint32(start))
		limit = end
	}
	binary.LittleEndian.PutUint32(buf[hdrLen:], uint32(limit))
	return buf
}

// Ident is a program build as recorded in counter file metadata.  A field
// whose Omit flag is set has no metadata line at all.
type Ident struct {
	Program, Version, GoVersion, GOOS, GOARCH string
}

func MetaString(begin, end string, id Ident, omit int) string {
	var b strings.Builder
	fmt.Fprintf(&b, "TimeBegin: %s\nTimeEnd: %s\n", begin, end)
	lines := []string{"Program: " + id.Program, "Version: " + id.Version, "GoVersion: " + id.GoVersion,
		"GOOS: " + id.GOOS, "GOARCH: " + id.GOARCH}
	for i, l := range lines {
		if omit == i+1 {
			continue
		}
		b.WriteString(l + "\n")
	}
	b.WriteString("\n")
	return b.String()
}

// ---------------------------------------------------------------- X

// XOf returns m * 2^-52: the values computeRandom can produce.
func XOf(m uint64) float64 { return float64(m&(1<<52-1)) * 0x1p-52 }

// GridBelow / GridAbove: nearest values of the X grid around a rate in [0,1].
func GridAt(rate float64) (below, above uint64) {
	if rate <= 0 {
		return 0, 0
	}
	if rate >= 1 {
		return 1<<52 - 1, 1<<52 - 1
	}
	f := rate * 0x1p52
	return uint64(math.Floor(f)), uint64(math.Min(math.Ceil(f), 0x1p52-1))
}

// RandBytesFor returns reader contents making computeRandom return XOf(m):
// optional rejected patterns first, then a float whose Frexp fraction is
// (1+X)/2 with a random sign and exponent.
func RandBytesFor(r *Rand, m uint64) []byte {
	var out []byte
	put := func(bits uint64) {
		var b [8]byte
		binary.LittleEndian.PutUint64(b[:], bits)
		out = append(out, b[:]...)
	}
	for r.Chance(20) {
		switch r.Intn(4) {
		case 0:
			put(0x7ff8000000000001) // NaN
		case 1:
			put(0x7ff0000000000000) // +Inf
		case 2:
			put(0xfff0000000000000) // -Inf
		default:
			put(uint64(r.Intn(1000))) // denormal: below 2^-1000
		}
	}
	frac := (1 + XOf(m)) / 2 // in [0.5, 1), exact
	e := r.Intn(1800) - 900
	x := math.Ldexp(frac, e)
	if r.Bool() {
		x = -x
	}
	put(math.Float64bits(x))
	return out
}

// CycleReader yields its contents again and again.
type CycleReader struct {
	Data []byte
	pos  int
}

func (c *CycleReader) Read(p []byte) (int, error) {
	for i := range p {
		p[i] = c.Data[c.pos%len(c.Data)]
		c.pos++
	}
	return len(p), nil
}

// ---------------------------------------------------------------- generators

var (
	osPool   = []string{"linux", "darwin", "windows", "beos", "linu", "linux ", "Linux", ""}
	archPool = []string{"amd64", "arm64", "386", "amd6", "amd64p", "AMD64", ""}
	goPool   = []string{"go1.21.0", "go1.22.1", "go1.23rc1", "go1.21", "go1.22.10", "devel", ""}
	// the first four are the "core" programs configurations are built from; the fourth has a base
	// name with the prefix the uploader gives its own local.<week>.json reports
	progPool = []string{"cmd/go", "golang.org/x/tools/gopls", "cmd/compile", "example.com/tools/local.agent", "cmd/g", "cmd/go2", "gopls", "",
		"example.com/local.", "local.json/x",
		// different programs with the SAME base name as an approved one (count file names carry only path.Base)
		"example.com/fork/gopls", "example.com/x/go", "other/compile"}
	verPool = []string{"go1.21.0", "go1.22.1", "v0.14.0", "v0.15.0", "v0.14", "v0.14.00", "devel", ""}
	// configured counter names (collapsed chart syntax and edge cases of it)
	ctrCfgPool = []string{
		"foo", "bar", "foo2", "main/x", "gopls/bug", "chart:{a,b,c}", "chart:{a}", "c:{a,,b}", "c:{a,a}",
		"c:{a,b", "c:{a,b}}", "c:{}", "c{x,y}", "{p,q}", "c:{a{b,c}", "c:{a},d}", "d:{1,2,3}", "d:", "e:{x}tail",
		"chart:a", "stk", "gopls/client:{vscode,vim,other}", "go/goos:{linux,darwin}", "",
		// chart:bucket counters listed on their own, without a bucket list
		"tool:x", "gopls/editor:vim", "go/arch:amd64",
	}
	stkCfgPool = []string{"stk", "stk2", "foo", "chart:a", "crash/crash", "gopls/bug", "c:{a,a}", "main/x", ""}
	framePool  = []string{"main.f:1", "main.g:+2", "runtime.goexit:0", "a/b.(*T).M:12", "x", ""}
)

func subset(r *Rand, pool []string, n int) []string {
	var out []string
	for i := 0; i < n; i++ {
		out = append(out, Pick(r, pool))
	}
	return out
}

func bitsF(f float64) uint64 { return math.Float64bits(f) }

// GenRate: a rate in [0,1] placed relative to X.
func GenRate(r *Rand, x float64) float64 {
	switch r.Intn(12) {
	case 0:
		return 0
	case 1, 2, 3:
		return 1
	case 4, 5:
		return x
	case 6:
		if x < 1 {
			return math.Nextafter(x, 2)
		}
		return x
	case 7:
		if x > 0 {
			return math.Nextafter(x, -1)
		}
		return 0
	case 8:
		return math.Float64frombits(uint64(1 + r.Intn(3))) // smallest denormals
	case 9:
		return Pick(r, []float64{0.5, 0.25, 0.1, 0x1p-52, 1 - 0x1p-53, 0x1p-1000})
	default:
		return float64(r.Uint64()>>11) * 0x1p-53
	}
}

// GenX picks the numerator m of X = m*2^-52.
func GenX(r *Rand) uint64 {
	switch r.Intn(10) {
	case 0:
		return 0
	case 1:
		return 1<<52 - 1
	case 2:
		return 1
	case 3:
		return 1 << 51
	case 4:
		b, a := GridAt(Pick(r, []float64{0.1, 0.25, 0.5, 0x1p-52, 1 - 0x1p-53}))
		if r.Bool() {
			return b
		}
		return a
	default:
		return r.Uint64() & (1<<52 - 1)
	}
}

// GenConfig builds an upload configuration around a few "core" programs.
func GenConfig(r *Rand, x float64) *telemetry.UploadConfig {
	cfg := &telemetry.UploadConfig{}
	cfg.GOOS = subset(r, osPool[:3], 1+r.Intn(3))
	cfg.GOARCH = subset(r, archPool[:3], 1+r.Intn(3))
	cfg.GoVersion = subset(r, goPool[:3], 1+r.Intn(3))
	if r.Chance(8) {
		cfg.GOOS = append(cfg.GOOS, Pick(r, osPool))
	}
	if r.Chance(8) {
		cfg.GOARCH = append(cfg.GOARCH, Pick(r, archPool))
	}
	if r.Chance(8) {
		cfg.GoVersion = append(cfg.GoVersion, Pick(r, goPool))
	}
	if r.Chance(3) {
		cfg.GOOS = nil
	}
	switch r.Intn(10) {
	case 0:
		cfg.SampleRate = x
	case 1:
		cfg.SampleRate = GenRate(r, x)
	case 2, 3:
		cfg.SampleRate = 1
	default:
		cfg.SampleRate = 0
	}
	np := 1 + r.Intn(4)
	for i := 0; i < np; i++ {
		p := &telemetry.ProgramConfig{}
		if i > 0 && r.Chance(25) {
			p.Name = cfg.Programs[r.Intn(i)].Name // duplicate program entry
		} else {
			p.Name = Pick(r, progPool[:4])
			if r.Chance(8) {
				p.Name = Pick(r, progPool)
			}
		}
		p.Versions = subset(r, verPool[:4], r.Intn(4))
		if r.Chance(8) {
			p.Versions = append(p.Versions, Pick(r, verPool))
		}
		nc := r.Intn(5)
		for j := 0; j < nc; j++ {
			p.Counters = append(p.Counters, telemetry.CounterConfig{Name: Pick(r, ctrCfgPool), Rate: GenRate(r, x)})
		}
		ns := r.Intn(3)
		for j := 0; j < ns; j++ {
			p.Stacks = append(p.Stacks, telemetry.CounterConfig{Name: Pick(r, stkCfgPool), Rate: GenRate(r, x), Depth: 1 + r.Intn(16)})
		}
		cfg.Programs = append(cfg.Programs, p)
	}
	return cfg
}

func pickOr(r *Rand, approved []string, pool []string, pApproved int) string {
	if len(approved) > 0 && r.Chance(pApproved) {
		return Pick(r, approved)
	}
	return Pick(r, pool)
}

// GenIdent: mostly approved builds of the configuration, with exactly one
// field perturbed in a good share of the cases.
func GenIdent(r *Rand, cfg *telemetry.UploadConfig) Ident {
	p := Pick(r, cfg.Programs)
	id := Ident{Program: p.Name}
	id.Version = pickOr(r, p.Versions, verPool, 100)
	id.GoVersion = pickOr(r, cfg.GoVersion, goPool, 100)
	id.GOOS = pickOr(r, cfg.GOOS, osPool, 100)
	id.GOARCH = pickOr(r, cfg.GOARCH, archPool, 100)
	if r.Chance(45) {
		switch r.Intn(5) {
		case 0:
			id.Program = Pick(r, progPool)
		case 1:
			id.Version = Pick(r, verPool)
		case 2:
			id.GoVersion = Pick(r, goPool)
		case 3:
			id.GOOS = Pick(r, osPool)
		default:
			id.GOARCH = Pick(r, archPool)
		}
	}
	return id
}

// StrayBytes: whether near-miss names may differ from an approved name by bytes that are not
// valid UTF-8 (set per case; the reports show such names as encoding/json renders them, see JSONName)
var StrayBytes bool

// StrayString: the stray byte sequence of the case (ONE kind per case: the rendering of names
// as JSON keys, U+FFFD per stray byte, then stays one-to-one on the names of the case)
var StrayString = "\xff"

// StrayKinds: the stray sequences to choose from
var StrayKinds = []string{"\xff", "\x80", "\xc3", "\xe2\x82", "\xfe"}

// JSONName: a name as it appears as a JSON object key: encoding/json writes every byte that is
// not part of a valid UTF-8 sequence as U+FFFD.
func JSONName(s string) string {
	if utf8.ValidString(s) {
		return s
	}
	var b strings.Builder
	for i := 0; i < len(s); {
		r, n := utf8.DecodeRuneInString(s[i:])
		if r == utf8.RuneError && n == 1 {
			b.WriteString("\uFFFD")
		} else {
			b.WriteString(s[i : i+n])
		}
		i += n
	}
	return b.String()
}

func mutateName(r *Rand, s string) string {
	if StrayBytes && r.Chance(50) {
		// the approved name with one or two stray bytes (not valid UTF-8) somewhere
		for n := 1 + r.Intn(2); n > 0; n-- {
			i := r.Intn(len(s) + 1)
			s = s[:i] + StrayString + s[i:]
		}
		return s
	}
	switch r.Intn(8) {
	case 0:
		if len(s) > 0 {
			return s[:len(s)-1]
		}
	case 1:
		return s + Pick(r, []string{"x", "}", ",", ":", " ", "2"})
	case 2:
		if len(s) > 0 {
			return s[1:]
		}
	case 3:
		return "x" + s
	case 4:
		return strings.ToUpper(s)
	case 5:
		return s + s
	case 6:
		if i := strings.Index(s, ":"); i >= 0 && r.Bool() {
			return s[:i] // the chart name alone (pgcounterprefix)
		}
	}
	return s
}

// expansion as documented (independent of config.Expand): prefix{b1,b2} -> prefix+bi
func docExpand(name string) []string {
	i := strings.Index(name, "{")
	if i < 0 {
		return []string{name}
	}
	rest := strings.TrimSuffix(name[i+1:], "}")
	var out []string
	for _, b := range strings.Split(rest, ",") {
		out = append(out, name[:i]+b)
	}
	return out
}

// GenCounterName: a local counter name related to the configuration.
func GenCounterName(r *Rand, cfg *telemetry.UploadConfig, prog string) string {
	var own, other []string
	for _, p := range cfg.Programs {
		for _, c := range p.Counters {
			names := append(docExpand(c.Name), c.Name)
			if p.Name == prog {
				own = append(own, names...)
			} else {
				other = append(other, names...)
			}
		}
		for _, s := range p.Stacks {
			if p.Name == prog {
				own = append(own, s.Name)
			} else {
				other = append(other, s.Name)
			}
		}
	}
	var base string
	switch {
	case len(own) > 0 && r.Chance(60):
		base = Pick(r, own)
	case len(other) > 0 && r.Chance(30):
		base = Pick(r, other)
	default:
		base = Pick(r, ctrCfgPool)
		if r.Bool() {
			base = Pick(r, docExpand(base))
		}
	}
	if r.Chance(30) {
		base = mutateName(r, base)
	}
	base = strings.ReplaceAll(base, "\n", "")
	if base == "" {
		base = "e" // a counter record cannot have an empty name
	}
	return base
}

// GenStackName: title + "\n" + frames
func GenStackName(r *Rand, cfg *telemetry.UploadConfig, prog string) string {
	title := GenCounterName(r, cfg, prog)
	if r.Chance(50) {
		var own []string
		for _, p := range cfg.Programs {
			if p.Name == prog {
				for _, s := range p.Stacks {
					own = append(own, s.Name)
				}
			}
		}
		if len(own) > 0 {
			title = Pick(r, own)
			if r.Chance(20) {
				title = mutateName(r, title)
			}
		}
	}
	title = strings.ReplaceAll(title, "\n", "")
	if r.Chance(4) {
		title = "" // name starting with a newline
	}
	n := r.Intn(4)
	frames := make([]string, n)
	for i := range frames {
		frames[i] = Pick(r, framePool)
	}
	return title + "\n" + strings.Join(frames, "\n")
}

// BigValues: whether GenValue may return values at and above 2^62 (set per case).
var BigValues bool

func GenValue(r *Rand) uint64 {
	if BigValues {
		switch r.Intn(8) {
		case 0:
			return 1<<63 - 1
		case 1:
			return 1 << 63
		case 2:
			return 1<<64 - 1
		case 3:
			return 1 << 62
		case 4:
			return 1<<63 - uint64(r.Intn(3))
		}
	}
	switch r.Intn(8) {
	case 0:
		return 0
	case 1:
		return 1 << 32
	case 2:
		return 1
	case 3:
		return uint64(r.Uint64() >> uint(4+r.Intn(60)))
	default:
		return uint64(1 + r.Intn(1000))
	}
}

// GenCounts: the Count map of one file (distinct names).
func GenCounts(r *Rand, cfg *telemetry.UploadConfig, prog string, maxn int) []KV {
	n := r.Intn(maxn + 1)
	seen := map[string]bool{}
	var out []KV
	for i := 0; i < n; i++ {
		var k string
		if r.Chance(30) {
			k = GenStackName(r, cfg, prog)
		} else {
			k = GenCounterName(r, cfg, prog)
		}
		if seen[k] || seen[JSONName(k)] || strings.Contains(k, "\"") {
			continue
		}
		seen[JSONName(k)] = true
		if strings.Contains(k, "\n") && r.Chance(6) {
			// the same title with a deep, ditto-compressed stack around the name-length limit
			d := GenDeepStack(r, k[:strings.Index(k, "\n")])
			if !seen[d] {
				seen[d] = true
				out = append(out, KV{d, GenValue(r)})
			}
		}
		seen[k] = true
		out = append(out, KV{k, GenValue(r)})
	}
	return out
}

// ---------------------------------------------------------------- wire encoders

func WStrs(xs []string) []string {
	out := []string{I(int64(len(xs)))}
	for _, x := range xs {
		out = append(out, HS(x))
	}
	return out
}

func wCC(cs []telemetry.CounterConfig) []string {
	out := []string{I(int64(len(cs)))}
	for _, c := range cs {
		out = append(out, HS(c.Name), U(bitsF(c.Rate)))
	}
	return out
}

// RatesOK reports whether every rate of the configuration is a non-negative,
// non-NaN float (the domain on which bit patterns order like values).
func RatesOK(cfg *telemetry.UploadConfig) bool {
	ok := func(f float64) bool { return !math.IsNaN(f) && !math.Signbit(f) }
	if !ok(cfg.SampleRate) {
		return false
	}
	for _, p := range cfg.Programs {
		for _, c := range p.Counters {
			if !ok(c.Rate) {
				return false
			}
		}
		for _, c := range p.Stacks {
			if !ok(c.Rate) {
				return false
			}
		}
	}
	return true
}

func WConfig(cfg *telemetry.UploadConfig) []string {
	var out []string
	out = append(out, WStrs(cfg.GOOS)...)
	out = append(out, WStrs(cfg.GOARCH)...)
	out = append(out, WStrs(cfg.GoVersion)...)
	out = append(out, U(bitsF(cfg.SampleRate)))
	out = append(out, I(int64(len(cfg.Programs))))
	for _, p := range cfg.Programs {
		out = append(out, HS(p.Name))
		out = append(out, WStrs(p.Versions)...)
		out = append(out, wCC(p.Counters)...)
		out = append(out, wCC(p.Stacks)...)
	}
	return out
}

func WIdent(id Ident) []string {
	return []string{HS(id.Program), HS(id.Version), HS(id.GoVersion), HS(id.GOOS), HS(id.GOARCH)}
}

// WFile: a parsed counter file (metadata identity + Count map sorted by name).
func WFile(meta map[string]string, count map[string]uint64) []string {
	out := WIdent(Ident{meta["Program"], meta["Version"], meta["GoVersion"], meta["GOOS"], meta["GOARCH"]})
	keys := make([]string, 0, len(count))
	for k := range count {
		keys = append(keys, k)
	}
	sort.Strings(keys)
	out = append(out, I(int64(len(keys))))
	for _, k := range keys {
		out = append(out, HS(k), U(count[k]))
	}
	return out
}

func wMap(m map[string]int64) []string {
	keys := make([]string, 0, len(m))
	for k := range m {
		keys = append(keys, k)
	}
	sort.Strings(keys)
	out := []string{I(int64(len(keys)))}
	for _, k := range keys {
		out = append(out, HS(k), I(m[k]))
	}
	return out
}

// WReport: a telemetry.Report; programs in slice order, maps sorted by key.
func WReport(rep *telemetry.Report) []string {
	out := []string{HS(rep.Week), HS(rep.LastWeek), U(bitsF(rep.X)), HS(rep.Config), I(int64(len(rep.Programs)))}
	for _, p := range rep.Programs {
		out = append(out, WIdent(Ident{p.Program, p.Version, p.GoVersion, p.GOOS, p.GOARCH})...)
		out = append(out, wMap(p.Counters)...)
		out = append(out, wMap(p.Stacks)...)
	}
	return out
}

// ---------------------------------------------------------------- weeks with several programs sharing names

// FileSpec: one counter file to be written (identity, omitted metadata line, Count map).
type FileSpec struct {
	ID     Ident
	Omit   int
	Counts []KV
	Name   string    // file name in local/ ("" = not placed yet)
	Begin  time.Time // TimeBegin of the file
}

// CountFileName: the name rotate1 gives a counter file:
// <path.Base(program)>[@<version>]-<goversion>-<goos>-<goarch>-<begin date>.v1.count
func CountFileName(id Ident, begin time.Time) string {
	v := id.Version
	if v != "" {
		v = "@" + v
	}
	return fmt.Sprintf("%s%s-%s-%s-%s-%s.v1.count", path.Base(id.Program), v, id.GoVersion, id.GOOS, id.GOARCH, begin.Format("2006-01-02"))
}

// PlaceFiles gives every not yet placed file of a week a name and a begin
// day and returns the files in directory order (sorted by name, the order in
// which the uploader meets them).  realistic: names as rotate1 writes them,
// begin days spread over the week (two files of one build never start on the
// same day; programs with the same base name, version and platform differ
// only in the date); otherwise neutral names NN-prog and the week's first day.
// The first placed file starts on the week's first day.
func PlaceFiles(r *Rand, files []FileSpec, weekBegin, end time.Time, realistic bool) []FileSpec {
	used := map[string]bool{}
	anyPlaced := false
	for _, f := range files {
		if f.Name != "" {
			used[f.Name] = true
			anyPlaced = true
		}
	}
	days := int(end.Sub(weekBegin).Hours() / 24)
	if days < 1 {
		days = 1
	}
	res := make([]FileSpec, len(files))
	copy(res, files)
	for i := range res {
		if res[i].Name != "" {
			continue
		}
		placed := false
		if realistic && !strings.ContainsAny(res[i].ID.Version+res[i].ID.GoVersion+res[i].ID.GOOS+res[i].ID.GOARCH, "/\\") {
			off := r.Intn(days)
			if !anyPlaced {
				off = 0
			}
			for t := 0; t < days && !placed; t++ {
				b := weekBegin.AddDate(0, 0, (off+t)%days)
				n := CountFileName(res[i].ID, b)
				if !used[n] {
					res[i].Name, res[i].Begin, placed = n, b, true
				}
			}
		}
		if !placed {
			for k := 0; ; k++ {
				n := fmt.Sprintf("%02d-prog.v1.count", k)
				if !used[n] {
					res[i].Name, res[i].Begin = n, weekBegin
					break
				}
			}
		}
		used[res[i].Name] = true
		anyPlaced = true
	}
	sort.SliceStable(res, func(a, b int) bool { return res[a].Name < res[b].Name })
	return res
}

// GenSameBaseWeek: two DIFFERENT programs with the same base name, version,
// Go version and platform, exactly one of them in the configuration, both
// recording the same counter and stack names; a few unrelated files.  With
// realistic names the two files differ only in their date, whose order is random.
func GenSameBaseWeek(r *Rand, x float64) (*telemetry.UploadConfig, []FileSpec) {
	pairs := [][2]string{{"golang.org/x/tools/gopls", "example.com/fork/gopls"}, {"cmd/go", "example.com/x/go"}, {"cmd/compile", "other/compile"}}
	pair := Pick(r, pairs)
	if r.Bool() {
		pair[0], pair[1] = pair[1], pair[0]
	}
	ver := Pick(r, verPool[:4])
	cfg := &telemetry.UploadConfig{GOOS: subset(r, osPool[:3], 1+r.Intn(2)), GOARCH: subset(r, archPool[:3], 1+r.Intn(2)),
		GoVersion: subset(r, goPool[:3], 1+r.Intn(2)), SampleRate: Pick(r, []float64{0, 1})}
	cnames := subset(r, []string{"foo", "bar", "main/x", "gopls/bug"}, 1+r.Intn(3))
	snames := subset(r, []string{"stk", "crash/crash", "gopls/bug"}, r.Intn(3))
	p := &telemetry.ProgramConfig{Name: pair[0], Versions: []string{ver}}
	for _, c := range cnames {
		p.Counters = append(p.Counters, telemetry.CounterConfig{Name: c, Rate: 1})
	}
	for _, s := range snames {
		p.Stacks = append(p.Stacks, telemetry.CounterConfig{Name: s, Rate: 1, Depth: 8})
	}
	cfg.Programs = []*telemetry.ProgramConfig{p}
	if r.Chance(40) {
		cfg.Programs = append(cfg.Programs, &telemetry.ProgramConfig{Name: "cmd/vet", Versions: []string{ver},
			Counters: []telemetry.CounterConfig{{Name: "foo", Rate: 1}}})
	}
	gov, goos, goarch := Pick(r, cfg.GoVersion), Pick(r, cfg.GOOS), Pick(r, cfg.GOARCH)
	var files []FileSpec
	for _, prog := range pair {
		seen := map[string]bool{}
		var counts []KV
		add := func(k string) {
			if !seen[k] {
				seen[k] = true
				counts = append(counts, KV{k, uint64(1 + r.Intn(100))})
			}
		}
		for _, c := range cnames {
			if r.Chance(85) {
				add(c)
			}
		}
		for _, s := range snames {
			add(s + "\n" + Pick(r, framePool[:4]))
		}
		add(Pick(r, []string{"unapproved/one", "zz", "foo2"}))
		files = append(files, FileSpec{ID: Ident{prog, ver, gov, goos, goarch}, Counts: counts})
	}
	if r.Chance(40) { // a second file of one of the two programs
		f := files[r.Intn(2)]
		files = append(files, FileSpec{ID: f.ID, Counts: f.Counts[:1+r.Intn(len(f.Counts))]})
	}
	return cfg, files
}

// GenSharedNamesWeek: a configuration with 2-3 DIFFERENT programs and a week
// in which approved builds of each of them recorded counters and stack
// counters of the SAME names, which the configuration approves, rates or
// omits differently per program.  The files come in random order (the order
// of the programs in the weekly report is the order of the files).
func GenSharedNamesWeek(r *Rand, x float64) (*telemetry.UploadConfig, []FileSpec) {
	cfg := &telemetry.UploadConfig{
		GOOS: subset(r, osPool[:3], 1+r.Intn(2)), GOARCH: subset(r, archPool[:3], 1+r.Intn(2)),
		GoVersion: subset(r, goPool[:3], 1+r.Intn(2)),
	}
	cfg.SampleRate = Pick(r, []float64{0, 0, 1})
	names := []string{"cmd/go", "golang.org/x/tools/gopls", "cmd/compile", "example.com/tools/local.agent"}
	// shuffle
	for i := len(names) - 1; i > 0; i-- {
		j := r.Intn(i + 1)
		names[i], names[j] = names[j], names[i]
	}
	np := 2 + r.Intn(2)
	names = names[:np]
	common := Pick(r, verPool[:4])
	stackTitles := subset(r, []string{"stk", "crash/crash", "gopls/bug", "foo", "main/x"}, 1+r.Intn(2))
	counterNames := subset(r, []string{"foo", "chart:a", "main/x", "bar", "gopls/bug", "tool:x", "gopls/editor:vim"}, 1+r.Intn(2))
	cfgName := func(n string) string {
		if n == "chart:a" {
			return "chart:{a,b,c}"
		}
		return n
	}
	// per program and shared name: 0 approved with rate 1, 1 approved with a rate placed at/below X,
	// 2 not configured, 3 configured as the other kind only, 4 configured as BOTH kinds with
	// different rates (one at 1, the other at/below X, either way round)
	status := func(pi, ni int) int {
		if ni == 0 && pi == 0 {
			return 0
		}
		if ni == 0 && pi == 1 {
			return Pick(r, []int{2, 2, 1, 3, 4})
		}
		return r.Intn(5)
	}
	low := func() float64 {
		if x > 0 {
			return Pick(r, []float64{0, math.Nextafter(x, -1), x})
		}
		return 0
	}
	for pi, n := range names {
		p := &telemetry.ProgramConfig{Name: n, Versions: append(subset(r, verPool[:4], r.Intn(2)), common)}
		for ni, t := range stackTitles {
			switch status(pi, ni) {
			case 0:
				p.Stacks = append(p.Stacks, telemetry.CounterConfig{Name: t, Rate: 1, Depth: 8})
			case 1:
				p.Stacks = append(p.Stacks, telemetry.CounterConfig{Name: t, Rate: low(), Depth: 8})
			case 3:
				p.Counters = append(p.Counters, telemetry.CounterConfig{Name: t, Rate: 1})
			case 4:
				a, b := 1.0, low()
				if r.Bool() {
					a, b = b, a
				}
				p.Counters = append(p.Counters, telemetry.CounterConfig{Name: t, Rate: a})
				p.Stacks = append(p.Stacks, telemetry.CounterConfig{Name: t, Rate: b, Depth: 8})
			}
		}
		for ni, c := range counterNames {
			switch status(pi, ni) {
			case 0:
				p.Counters = append(p.Counters, telemetry.CounterConfig{Name: cfgName(c), Rate: 1})
			case 1:
				p.Counters = append(p.Counters, telemetry.CounterConfig{Name: cfgName(c), Rate: low()})
			case 3:
				p.Stacks = append(p.Stacks, telemetry.CounterConfig{Name: c, Rate: 1, Depth: 4})
			case 4:
				a, b := 1.0, low()
				if r.Bool() {
					a, b = b, a
				}
				p.Counters = append(p.Counters, telemetry.CounterConfig{Name: cfgName(c), Rate: a})
				p.Stacks = append(p.Stacks, telemetry.CounterConfig{Name: c, Rate: b, Depth: 4})
			}
		}
		cfg.Programs = append(cfg.Programs, p)
	}
	var files []FileSpec
	frames := func() string {
		n := 1 + r.Intn(2)
		fs := make([]string, n)
		for i := range fs {
			fs[i] = Pick(r, framePool[:4])
		}
		return strings.Join(fs, "\n")
	}
	sharedFrames := frames()
	for _, n := range names {
		id := Ident{Program: n, Version: common, GoVersion: Pick(r, cfg.GoVersion), GOOS: Pick(r, cfg.GOOS), GOARCH: Pick(r, cfg.GOARCH)}
		seen := map[string]bool{}
		var counts []KV
		add := func(k string) {
			if !seen[k] {
				seen[k] = true
				counts = append(counts, KV{k, GenValue(r)})
			}
		}
		for _, t := range stackTitles {
			if r.Chance(60) {
				add(t + "\n" + sharedFrames)
			} else {
				add(t + "\n" + frames())
			}
		}
		for _, c := range counterNames {
			add(c)
			if r.Chance(50) {
				add(c + "\n" + frames()) // the same name as a stack title
			}
		}
		for _, t := range stackTitles {
			if r.Chance(50) {
				add(t) // the same name as a plain counter
			}
		}
		for _, kv := range GenCounts(r, cfg, n, 2) {
			add(kv.K)
		}
		files = append(files, FileSpec{ID: id, Counts: counts})
		if r.Chance(20) { // a second file of the same build
			files = append(files, FileSpec{ID: id, Counts: counts[:1+r.Intn(len(counts))]})
		}
	}
	for i := len(files) - 1; i > 0; i-- {
		j := r.Intn(i + 1)
		files[i], files[j] = files[j], files[i]
	}
	return cfg, files
}

// ---------------------------------------------------------------- what a written count file MEANS (reference reading)

// RefDecodeStack: the documented meaning of a stored stack-counter name: in
// every line after a use of an import path, a path written as the ditto mark
// `"` stands for the last import path written out.
func RefDecodeStack(ename string) string {
	if !strings.Contains(ename, "\n") {
		return ename
	}
	lines := strings.Split(ename, "\n")
	last := ""
	for i, line := range lines {
		j := strings.LastIndex(line, ".")
		if j < 0 {
			continue
		}
		p, rest := line[:j], line[j+1:]
		if p == "" {
			continue
		}
		if p == `"` {
			lines[i] = last + rest
		} else {
			last = p + "."
		}
	}
	return strings.Join(lines, "\n")
}

// RefFile: the metadata identity and the Count map a written file stands for
// (names decoded), independent of the implementation's parser.
func RefFile(fs FileSpec) (map[string]string, map[string]uint64) {
	meta := map[string]string{}
	vals := []string{fs.ID.Program, fs.ID.Version, fs.ID.GoVersion, fs.ID.GOOS, fs.ID.GOARCH}
	for i, k := range []string{"Program", "Version", "GoVersion", "GOOS", "GOARCH"} {
		if fs.Omit != i+1 {
			meta[k] = vals[i]
		}
	}
	count := map[string]uint64{}
	for _, kv := range fs.Counts {
		count[RefDecodeStack(kv.K)] = kv.V
	}
	return meta, count
}

// jsonNames: the Count map with its names as the JSON reports render them
func jsonNames(count map[string]uint64) map[string]uint64 {
	res := map[string]uint64{}
	for k, v := range count {
		res[JSONName(k)] = v
	}
	return res
}

// SameAsRef: does the implementation's parse agree with the reference reading
func SameAsRef(fs FileSpec, meta map[string]string, count map[string]uint64, err error) bool {
	if err != nil {
		return false
	}
	rm, rc := RefFile(fs)
	for k, v := range rm {
		if meta[k] != v {
			return false
		}
	}
	if len(rc) != len(count) {
		return false
	}
	for k, v := range rc {
		if w, ok := count[k]; !ok || w != v {
			return false
		}
	}
	return true
}

// GenDeepStack: a stack counter as EncodeStack stores it for a deep stack in
// one package: the import path written once, then ditto marks; the STORED name
// stays within the 4096-byte limit of a counter name while the DECODED name
// lands on a chosen side of it (4095, 4096, 4097, well above), or the stored
// name itself has exactly the limit.
func GenDeepStack(r *Rand, title string) string {
	const limit = 4096
	pathLen := 40 + r.Intn(300)
	path := strings.Repeat("p", pathLen-2) + "/q"
	first := path + ".f0:+1,+0x1"
	name := title + "\n" + first
	decoded := len(name)
	target := Pick(r, []int{limit - 1, limit, limit + 1, limit + 1 + r.Intn(3000), limit - r.Intn(500)})
	if r.Chance(15) {
		// no compression at all: the stored name itself has exactly the limit (or one less)
		want := limit - r.Intn(2)
		fill := want - len(title) - 1
		if fill < 3 {
			fill = 3
		}
		return title + "\n" + strings.Repeat("x", fill-2) + ".f"
	}
	for i := 1; ; i++ {
		fn := fmt.Sprintf("f%d:+%d,+0x%x", i, i%7, i)
		add := 1 + len(path) + 1 + len(fn) // newline + path + "." + fn, decoded
		if decoded+add > target {
			// pad the last frame so that the decoded length is exactly the target
			pad := target - decoded - 1 - len(path) - 1
			if pad >= 1 {
				name += "\n\"." + strings.Repeat("z", pad)
				decoded = target
			}
			break
		}
		name += "\n\"." + fn
		decoded += add
	}
	if len(name) > limit || len(RefDecodeStack(name)) != decoded {
		return title + "\n" + first // (cannot happen with these lengths; keep the file valid)
	}
	return name
}

// WFileRef: the wire fields of a written count file: its reference reading
// (identity, Count map sorted by decoded name) and whether the
// implementation's parser reads the same.
func WFileRef(fs FileSpec, meta map[string]string, count map[string]uint64, err error) []string {
	rm, rc := RefFile(fs)
	return append(WFile(rm, jsonNames(rc)), B(SameAsRef(fs, meta, count, err)))
}

// WithdrawSomething: a configuration like cfg in which something that one of
// the files relies on is no longer (or not yet) approved.
func WithdrawSomething(r *Rand, cfg *telemetry.UploadConfig, files []FileSpec) *telemetry.UploadConfig {
	old := &telemetry.UploadConfig{GOOS: append([]string(nil), cfg.GOOS...), GOARCH: append([]string(nil), cfg.GOARCH...),
		GoVersion: append([]string(nil), cfg.GoVersion...), SampleRate: cfg.SampleRate}
	for _, p := range cfg.Programs {
		q := *p
		q.Versions = append([]string(nil), p.Versions...)
		q.Counters = append([]telemetry.CounterConfig(nil), p.Counters...)
		q.Stacks = append([]telemetry.CounterConfig(nil), p.Stacks...)
		old.Programs = append(old.Programs, &q)
	}
	f := Pick(r, files)
	without := func(l []string, x string) []string {
		var res []string
		for _, v := range l {
			if v != x {
				res = append(res, v)
			}
		}
		return res
	}
	for tries := 0; tries < 1+r.Intn(3); tries++ {
		switch r.Intn(6) {
		case 0:
			var ps []*telemetry.ProgramConfig
			for _, p := range old.Programs {
				if p.Name != f.ID.Program {
					ps = append(ps, p)
				}
			}
			old.Programs = ps
		case 1:
			for _, p := range old.Programs {
				if p.Name == f.ID.Program && len(p.Counters) > 0 {
					p.Counters = p.Counters[:len(p.Counters)/2]
				}
			}
		case 2:
			for _, p := range old.Programs {
				if p.Name == f.ID.Program {
					p.Stacks = nil
				}
			}
		case 3:
			for _, p := range old.Programs {
				p.Versions = without(p.Versions, f.ID.Version)
			}
		case 4:
			old.GoVersion = without(old.GoVersion, f.ID.GoVersion)
		default:
			old.GOOS = without(old.GOOS, f.ID.GOOS)
		}
	}
	return old
}

// GenNestedProgramsWeek: two approved programs whose package paths NEST (P and
// P/e), P listing counters and stacks named e/<rest>, and a build of P/e that
// recorded <rest> (not listed for P/e); also the mirror image and ordinary
// items, so that every pair (program, name) whose concatenation coincides
// with another pair's is present with different approval.
func GenNestedProgramsWeek(r *Rand, x float64) (*telemetry.UploadConfig, []FileSpec) {
	pair := Pick(r, [][2]string{{"golang.org/x/tools", "gopls"}, {"cmd", "go"}, {"example.com/a", "b/c"}})
	P, e := pair[0], pair[1]
	Q := P + "/" + e
	ver := Pick(r, verPool[:4])
	cfg := &telemetry.UploadConfig{GOOS: subset(r, osPool[:3], 1+r.Intn(2)), GOARCH: subset(r, archPool[:3], 1+r.Intn(2)),
		GoVersion: subset(r, goPool[:3], 1+r.Intn(2)), SampleRate: Pick(r, []float64{0, 1})}
	var rests []string
	for _, c := range []string{"bug", "client:vscode", "x", "crash", "foo"} {
		if r.Chance(45) {
			rests = append(rests, c)
		}
	}
	if len(rests) == 0 {
		rests = []string{"bug"}
	}
	pp := &telemetry.ProgramConfig{Name: P, Versions: []string{ver, e + "/" + ver}}
	qq := &telemetry.ProgramConfig{Name: Q, Versions: []string{ver}}
	for _, rest := range rests {
		if r.Bool() {
			pp.Counters = append(pp.Counters, telemetry.CounterConfig{Name: e + "/" + rest, Rate: 1})
		} else {
			pp.Stacks = append(pp.Stacks, telemetry.CounterConfig{Name: e + "/" + rest, Rate: 1, Depth: 4})
		}
	}
	qq.Counters = append(qq.Counters, telemetry.CounterConfig{Name: "own", Rate: 1})
	if r.Bool() {
		qq.Stacks = append(qq.Stacks, telemetry.CounterConfig{Name: "ownstack", Rate: 1, Depth: 4})
	}
	cfg.Programs = []*telemetry.ProgramConfig{pp, qq}
	if r.Bool() {
		cfg.Programs = []*telemetry.ProgramConfig{qq, pp}
	}
	gov, goos, goarch := Pick(r, cfg.GoVersion), Pick(r, cfg.GOOS), Pick(r, cfg.GOARCH)
	val := func() uint64 { return uint64(1 + r.Intn(100)) }
	var qc, pc []KV
	for _, rest := range rests {
		qc = append(qc, KV{rest, val()}, KV{rest + "\n" + Pick(r, framePool[:4]), val()})
		pc = append(pc, KV{e + "/" + rest, val()}, KV{e + "/" + rest + "\n" + Pick(r, framePool[:4]), val()})
	}
	qc = append(qc, KV{"own", val()}, KV{"ownstack\nmain.f:1", val()})
	pc = append(pc, KV{"own", val()})
	files := []FileSpec{
		{ID: Ident{Q, ver, gov, goos, goarch}, Counts: qc},
		{ID: Ident{P, ver, gov, goos, goarch}, Counts: pc},
	}
	if r.Bool() {
		files[0], files[1] = files[1], files[0]
	}
	return cfg, files
}
