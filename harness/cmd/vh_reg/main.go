// vh_reg: correspondence harness for the lock-free registration list of
// internal/counter (file.register), part of C03.  The real register runs in
// an import-rewritten copy under the deterministic scheduler, one atomic
// operation per step, in lock step with Model/Register.
package main

import (
	"os"
	"strconv"

	"golang.org/x/telemetry/internal/counter"
	"golang.org/x/telemetry/internal/verifh/shim/vsched"
	. "golang.org/x/telemetry/internal/verifh/vhlib"
)

var rnd *Rand
var out *Out

type plan struct{ at, to []int }

func code(p uintptr, f *counter.VerifFile, cs []*counter.Counter) int64 {
	if p == 0 {
		return 0 // nil
	}
	if p == f.EndPtr() {
		return 1 // end marker
	}
	for i, c := range cs {
		if counter.VerifCounterPtr(c) == p {
			return int64(i) + 2
		}
	}
	return -1
}

// one scenario: ncounters counters, who[i] = counter registered by thread i
func scenario(ncounters int, who []int, pl *plan) int {
	f := counter.VerifNewFile()
	cs := make([]*counter.Counter, ncounters)
	for i := range cs {
		cs[i] = f.NewCounter("c" + strconv.Itoa(i))
	}
	s := vsched.New(false)
	defer vsched.Stop()
	tids := make([]int, len(who))
	for i := range tids {
		tids[i] = -1
	}
	var steps []string
	nsteps := 0
	last := -1
	budget := 2000
	status := "ok"
	for {
		var cand []int
		for i := range who {
			if tids[i] < 0 || !s.Done(tids[i]) {
				cand = append(cand, i)
			}
		}
		if len(cand) == 0 {
			break
		}
		if budget == 0 {
			status = "hang"
			break
		}
		budget--
		var i int
		if pl != nil {
			i = cand[0]
			if last >= 0 && (tids[last] < 0 || !s.Done(tids[last])) {
				i = last
			}
			for k, at := range pl.at {
				if at == nsteps {
					to := pl.to[k]
					if tids[to] < 0 || !s.Done(tids[to]) {
						i = to
					}
				}
			}
		} else {
			i = cand[rnd.Intn(len(cand))]
			if last >= 0 && rnd.Chance(55) && (tids[last] < 0 || !s.Done(tids[last])) {
				i = last
			}
		}
		last = i
		var info vsched.Info
		if tids[i] < 0 {
			c := cs[who[i]]
			tids[i] = s.Go(func() { f.Register(c) })
			info = s.Last(tids[i])
		} else {
			info = s.Step(tids[i])
		}
		if info.Panic != "" {
			status = "panic"
		}
		nsteps++
		steps = append(steps, I(int64(i)), I(code(f.HeadPtr(), f, cs)))
		for _, c := range cs {
			steps = append(steps, I(code(counter.VerifNextPtr(c), f, cs)))
		}
		if status != "ok" {
			break
		}
	}
	fields := []string{"reg", status, I(int64(ncounters)), I(int64(len(who)))}
	for _, w := range who {
		fields = append(fields, I(int64(w)))
	}
	fields = append(fields, I(int64(nsteps)))
	fields = append(fields, steps...)
	out.Case(len(who) >= 2, fields...)
	if pl != nil {
		out.Note("systematic")
	} else {
		out.Note("random")
	}
	if ncounters < len(who) {
		out.Note("shared-counter")
	}
	return nsteps
}

func systematic(k int, ncounters int, who []int) {
	max := scenario(ncounters, who, &plan{})
	var rec func(depth, from int, pl plan)
	rec = func(depth, from int, pl plan) {
		if depth == 0 {
			return
		}
		for at := from; at <= max+3; at++ {
			for to := range who {
				p2 := plan{append(append([]int{}, pl.at...), at), append(append([]int{}, pl.to...), to)}
				scenario(ncounters, who, &p2)
				rec(depth-1, at+1, p2)
			}
		}
	}
	rec(k, 0, plan{})
}

func main() {
	outPath := os.Args[1]
	n, _ := strconv.Atoi(os.Args[2])
	rnd = NewRand(Seed())
	out = NewOut(outPath)
	for i := 0; i < n; i++ {
		nth := 2 + rnd.Intn(4)
		nc := 1 + rnd.Intn(3)
		who := make([]int, nth)
		for j := range who {
			who[j] = rnd.Intn(nc)
		}
		scenario(nc, who, nil)
	}
	k := 2
	if os.Getenv("VERIF_TIER") == "thorough" {
		k = 3
	}
	systematic(k, 2, []int{0, 1})
	systematic(k, 3, []int{0, 1, 2})
	systematic(k, 2, []int{0, 1, 0})
	systematic(k-1, 3, []int{0, 1, 2, 1})
	out.Close()
}
