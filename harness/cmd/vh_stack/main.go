// vh_stack: correspondence harness for C15 (stack counter names).
//
// Case kinds written for the model runner (ocaml/stack_main.ml):
//
//	enc   prefix frames name decoded isstack        real EncodeStack / DecodeStack / IsStackCounter on
//	                                                 pcs captured from generated call chains (and mutated
//	                                                 pc slices); frames = what the loop of EncodeStack reads
//	                                                 from runtime.CallersFrames for the same pcs
//	dec   input status decoded isstack               real DecodeStack on arbitrary strings
//	cache name depth incs counters                   real StackCounter.Inc through generated call chains
package main

import (
	"fmt"
	"os"
	"path/filepath"
	"runtime"
	"sort"
	"strconv"
	"strings"
	"time"
	"unicode/utf8"

	"golang.org/x/telemetry/internal/counter"
	"golang.org/x/telemetry/internal/telemetry"
	"golang.org/x/telemetry/internal/verifh/vh_stack/pa"
	"golang.org/x/telemetry/internal/verifh/vh_stack/pb"
	"golang.org/x/telemetry/internal/verifh/vh_stack/pu"
	. "golang.org/x/telemetry/internal/verifh/vhlib"
)

var rnd *Rand
var out *Out

// ---------------------------------------------------------------- call chains

var (
	prog    []byte
	leaf    func()
	tval    pa.T
	tvalb   pb.T
	capture []uintptr
)

type local struct{}

//go:noinline
func (local) viaMethod(i int) { step(i + 1) }

//go:noinline
func viaGeneric[K comparable, V any](k K, v V, i int) { step(i + 1) }

// recBoost > 0: the recursive links recurse that deep (long runs of frames of
// one package: short encoded name, long expanded name).
var recBoost int

func recDepth(b byte) int {
	if recBoost > 0 {
		return recBoost
	}
	return int(b/22) % 5
}

// ---------------------------------------------------------------- watchdog

// pending describes the input of the real call in progress; if that call does
// not return within the limit the case is emitted as "hang" with this input
// and the harness stops (the stuck goroutine cannot be killed).
var pending []string

const hangLimit = 20 * time.Second

func guarded(f func()) {
	done := make(chan struct{})
	go func() {
		defer close(done)
		defer func() {
			// a panic of the code under test: reported with the input of the call in progress
			if r := recover(); r != nil {
				out.Note("panic")
				msg := fmt.Sprint(r)
				out.Case(true, append([]string{"panic", HS(msg)}, pending...)...)
			}
		}()
		f()
	}()
	select {
	case <-done:
	case <-time.After(hangLimit):
		out.Note("hang")
		out.Case(true, append([]string{"hang"}, pending...)...)
		out.Close()
		os.Exit(0)
	}
}

// step interprets prog[i] as the next link of the chain.
func step(i int) {
	if i >= len(prog) {
		leaf()
		return
	}
	switch prog[i] % 26 {
	case 0:
		pa.F(i, step)
	case 1:
		pa.T{}.M(i, step)
	case 2:
		tval.PM(i, step)
	case 3:
		pa.G[int](1, i, step)
	case 4:
		pa.Clo(i, step)
	case 5:
		pa.Inl(i, step)
	case 6:
		pa.Rec(recDepth(prog[i]), i, step)
	case 7:
		pa.Deep{}.Name(i, step)
	case 8:
		pb.F(i, step)
	case 9:
		pb.T{}.M(i, step)
	case 10:
		tvalb.PM(i, step)
	case 11:
		pb.G[pa.T](pa.T{}, i, step)
	case 12:
		pb.Clo(i, step)
	case 13:
		pb.Inl(i, step)
	case 14:
		pb.Rec(recDepth(prog[i]), i, step)
	case 15:
		pb.Deep{}.Name(i, step)
	case 16:
		local{}.viaMethod(i)
	case 17:
		viaGeneric[string, pb.T]("k", pb.T{}, i)
	case 18:
		func() { step(i + 1) }()
	case 19:
		f := pa.T{}.M // method value
		f(i, step)
	case 20:
		pa.G[map[string]pb.Deep](nil, i, step)
	case 22:
		pu.F世界你好世界你好世界你好世界你好(i, step)
	case 23:
		pu.Ωμέγαλφαβήταγάμμαδέλταεψιλον(i, step)
	case 24:
		pu.Тип世界{}.Метод世界你好é(i, step)
	case 25:
		pu.Rec世界é(recDepth(prog[i]), i, step)
	default:
		step(i + 1)
	}
}

//go:noinline
func leafCapture() {
	buf := make([]uintptr, 1024)
	n := runtime.Callers(1, buf)
	capture = buf[:n]
}

// forceUnicodeDeep: the next program is deep and made mostly of links with
// multi-byte identifiers.
var forceUnicodeDeep bool

func genProg() []byte {
	var n int
	if forceUnicodeDeep {
		forceUnicodeDeep = false
		p := make([]byte, 30+rnd.Intn(60))
		for i := range p {
			p[i] = byte(22 + rnd.Intn(4))
			if rnd.Chance(10) {
				p[i] = byte(rnd.Intn(256))
			}
		}
		return p
	}
	switch rnd.Intn(10) {
	case 0:
		n = 0
	case 1, 2:
		n = 40 + rnd.Intn(120) // deep: beyond truncation
	case 3:
		n = 15 + rnd.Intn(30) // around the truncation length
	default:
		n = 1 + rnd.Intn(14)
	}
	p := make([]byte, n)
	mode := rnd.Intn(5)
	for i := range p {
		switch mode {
		case 4: // mostly links with multi-byte identifiers: a cut lands inside a character
			if rnd.Chance(85) {
				p[i] = byte(22 + rnd.Intn(4))
			} else {
				p[i] = byte(rnd.Intn(256))
			}
		case 0: // one package only (long ditto runs)
			p[i] = byte(rnd.Intn(8))
		case 1: // alternating packages
			if i%2 == 0 {
				p[i] = byte(rnd.Intn(8))
			} else {
				p[i] = byte(8 + rnd.Intn(8))
			}
		case 2: // repeated link
			if i > 0 && rnd.Chance(70) {
				p[i] = p[i-1]
			} else {
				p[i] = byte(rnd.Intn(256))
			}
		default:
			p[i] = byte(rnd.Intn(256))
		}
	}
	return p
}

func capturePCs(p []byte) []uintptr {
	prog = p
	leaf = leafCapture
	capture = nil
	step(0)
	return append([]uintptr(nil), capture...)
}

// frames: exactly what EncodeStack's loop reads.
type frame struct {
	fn      string
	hasFunc bool
	line    int
	off     uintptr
}

func framesOf(pcs []uintptr) []frame {
	var res []frame
	frs := runtime.CallersFrames(pcs)
	for {
		fr, more := frs.Next()
		f := frame{fn: fr.Function, hasFunc: fr.Func != nil, off: fr.PC - fr.Entry}
		if fr.Func != nil {
			_, entryLine := fr.Func.FileLine(fr.Entry)
			f.line = fr.Line - entryLine
		} else {
			f.line = fr.Line
		}
		res = append(res, f)
		if !more {
			break
		}
	}
	return res
}

func frameFields(fs []frame) []string {
	res := []string{I(int64(len(fs)))}
	for _, f := range fs {
		res = append(res, HS(f.fn), B(f.hasFunc), I(int64(f.line)), U(uint64(f.off)))
	}
	return res
}

func genPrefix() string {
	switch rnd.Intn(12) {
	case 0:
		return ""
	case 1:
		return "crash/crash"
	case 2:
		return "a.b" // a dot in the counter name
	case 3:
		return "gopls/bug.v1.2"
	case 4:
		return strings.Repeat("p", 1+rnd.Intn(200))
	case 5:
		return strings.Repeat("long/", 820) // prefix alone beyond the limit
	case 6:
		return "x/y:z,w" // rendering punctuation in the prefix
	default:
		return Pick(rnd, []string{"st", "stack/main", "c", "cmd/go/x"})
	}
}

// caseEncUnicodeCut: a name that must be truncated, made of multi-byte
// identifiers, with prefixes of every length modulo the character width.
func caseEncUnicodeCut() {
	out.Note("enc-unicode-deep")
	forceUnicodeDeep = true
	caseEnc()
}

func caseEnc() {
	if rnd.Chance(6) { // long runs of one package: expanded name much longer than the encoded one
		recBoost = 20 + rnd.Intn(90)
		defer func() { recBoost = 0 }()
	}
	pcs := capturePCs(genProg())
	if len(pcs) > 2 && rnd.Chance(50) {
		pcs = pcs[:len(pcs)-2] // drop runtime.main / goexit sometimes
	}
	kind := rnd.Intn(12)
	switch kind {
	case 0: // sub-slice
		a := rnd.Intn(len(pcs) + 1)
		b := a + rnd.Intn(len(pcs)-a+1)
		pcs = pcs[a:b]
		out.Note("pcs-subslice")
	case 1: // shuffled / duplicated
		q := make([]uintptr, 0, len(pcs))
		for i := 0; i < len(pcs); i++ {
			q = append(q, pcs[rnd.Intn(len(pcs))])
		}
		pcs = q
		out.Note("pcs-shuffled")
	case 2: // offsets into the middle of instructions / neighbouring lines
		q := append([]uintptr(nil), pcs...)
		for i := range q {
			if rnd.Chance(50) {
				q[i] += uintptr(rnd.Intn(64)) - 16
			}
		}
		pcs = q
		out.Note("pcs-offset")
	case 3: // junk mixed in (unsymbolisable pcs are skipped by the runtime)
		q := []uintptr{}
		for _, pc := range pcs {
			if rnd.Chance(30) {
				q = append(q, Pick(rnd, []uintptr{0, 1, 2, ^uintptr(0), 0x10, uintptr(rnd.Uint64())}))
			}
			q = append(q, pc)
		}
		pcs = q
		out.Note("pcs-junk-mixed")
	case 4: // nothing symbolises: the zero frame
		pcs = Pick(rnd, [][]uintptr{nil, {}, {1, 2}, {0}, {^uintptr(0)}, {1}, {3, 4, 5}})
		out.Note("pcs-none-symbolise")
	case 5: // function entry pcs (PC == Entry)
		q := []uintptr{}
		for _, pc := range pcs {
			if f := runtime.FuncForPC(pc); f != nil {
				q = append(q, f.Entry())
			}
		}
		pcs = q
		out.Note("pcs-entry")
	default:
		out.Note("pcs-captured")
	}
	prefix := genPrefix()
	fs := framesOf(pcs)
	pending = append([]string{"EncodeStack", HS(prefix)}, frameFields(fs)...)
	name := counter.EncodeStack(pcs, prefix)
	pending = []string{"DecodeStack", HS(name)}
	dec := counter.DecodeStack(name)
	if len(name) >= 4096 {
		out.Note("name-at-limit")
		if cut := len(name) - len("\ntruncated\n"); cut > 0 && cut < len(name) && name[cut-1] >= 0x80 && !utf8.ValidString(name[:cut]) {
			out.Note("cut-inside-a-multibyte-character")
		}
	}
	if strings.Contains(name, "\n\".") {
		out.Note("name-has-ditto")
	}
	for _, f := range fs {
		if !f.hasFunc {
			out.Note("frame-inlined-or-nonGo")
			break
		}
	}
	fields := []string{"enc", HS(prefix)}
	fields = append(fields, frameFields(fs)...)
	fields = append(fields, HS(name), HS(dec), B(counter.IsStackCounter(name)))
	out.Case(true, fields...)
}

// ---------------------------------------------------------------- decoder on arbitrary strings

var alphabet = []string{"\n", "\n", ".", ".", "\"", "\"", "a", "b", "/", ":", "+", "0x1", ",", "=", "\".", "\n\".", "pkg", "golang.org/x", " ", "\x00", "\xff", "é", "truncated"}

func genString() string {
	switch rnd.Intn(8) {
	case 0:
		return string(rnd.Bytes(rnd.Intn(40)))
	case 1: // no newline at all
		var sb strings.Builder
		for k := rnd.Intn(12); k > 0; k-- {
			s := Pick(rnd, alphabet)
			if !strings.Contains(s, "\n") {
				sb.WriteString(s)
			}
		}
		return sb.String()
	case 2: // a valid encoding, mutated
		pcs := capturePCs(genProg())
		s := counter.EncodeStack(pcs, genPrefix())
		b := []byte(s)
		for k := rnd.Intn(4); k > 0 && len(b) > 0; k-- {
			i := rnd.Intn(len(b))
			switch rnd.Intn(3) {
			case 0:
				b[i] = Pick(rnd, []byte{'\n', '.', '"', 'x'})
			case 1:
				b = append(b[:i], b[i+1:]...)
			default:
				b = append(b[:i], append([]byte{Pick(rnd, []byte{'\n', '.', '"'})}, b[i:]...)...)
			}
		}
		return string(b)
	case 3:
		return Pick(rnd, []string{"", "\n", "\"", "\".", "\n\".", "\n\"", "a\n\".b", "a.b\n\".c", ".\n\".x", "\".x\n\".y", "a.\n\".b", "..\n\".b", "a\n.b\n\".c", "\n\n", "x.y.z\n\".\".\"", "\"\n\".a"})
	default:
		var sb strings.Builder
		for k := rnd.Intn(16); k > 0; k-- {
			sb.WriteString(Pick(rnd, alphabet))
		}
		return sb.String()
	}
}

func caseDec() {
	s := genString()
	status := "ok"
	var dec string
	var is bool
	func() {
		defer func() {
			if r := recover(); r != nil {
				status = "panic"
			}
		}()
		pending = []string{"DecodeStack", HS(s)}
		dec = counter.DecodeStack(s)
		is = counter.IsStackCounter(s)
	}()
	if strings.Contains(s, "\n") {
		out.Note("dec-has-newline")
	} else {
		out.Note("dec-plain")
	}
	if dec != s {
		out.Note("dec-changed")
	}
	out.Case(true, "dec", HS(s), status, HS(dec), B(is))
}

// ---------------------------------------------------------------- StackCounter.Inc cache

var theStack *counter.StackCounter

//go:noinline
func leafIncA() {
	buf := make([]uintptr, 1024)
	n := runtime.Callers(1, buf)
	capture = buf[:n]
	theStack.Inc()
}

//go:noinline
func leafIncB() {
	buf := make([]uintptr, 1024)
	n := runtime.Callers(1, buf)
	capture = buf[:n]
	theStack.Inc()
}

func caseCache() {
	depth := Pick(rnd, []int{0, 1, 2, 3, 4, 6, 8, 16, 64})
	name := Pick(rnd, []string{"st", "stack/x", "a.b"})
	nprogs := 1 + rnd.Intn(5)
	progs := make([][]byte, nprogs)
	for i := range progs {
		progs[i] = genProg()
		if len(progs[i]) > 20 {
			progs[i] = progs[i][:20]
		}
		if i > 0 && rnd.Chance(40) { // share a tail with an earlier program: equal top-of-stack pcs
			progs[i] = append([]byte{byte(rnd.Intn(256))}, progs[i-1]...)
		}
	}
	runCache(name, depth, progs, 1+rnd.Intn(12), -1)
}

// caseCacheGeneric: two call stacks that differ only in the instantiation of a
// generic function (pa.G[int] vs pa.G[map[string]pb.Deep]) within the counter's
// depth: different pcs, but the runtime names both frames pa.G[...].
// caseCacheDepths: two StackCounters made by the public constructor with ONE
// name and different depths, incremented from chains that share their top
// frames and differ further down.
func caseCacheDepths() {
	out.Note("cache-one-name-two-depths")
	name := Pick(rnd, []string{"st", "stack/x", "depths"})
	tail := genProg()
	if len(tail) > 6 {
		tail = tail[:6]
	}
	progs := [][]byte{append([]byte{3}, tail...), append([]byte{8}, tail...), append([]byte{0, 9}, tail...)}
	d1 := 1 + rnd.Intn(3)
	d2 := d1 + 2*len(tail) + 4 + rnd.Intn(4)
	if rnd.Bool() {
		d1, d2 = d2, d1
	}
	runCacheMode(name, d1, progs, 6, 0, 0)
	runCacheMode(name, d2, progs, 6, 0, 0)
}

// caseCacheDeepShared: call stacks of EQUAL length that agree on their innermost
// frames and differ in one link further out (at a random position, often the
// outermost), on a counter deep enough to record all of them.
func caseCacheDeepShared() {
	out.Note("cache-deep-shared")
	same := []byte{0, 8, 1, 9, 2, 10} // links of one frame each
	l := 10 + rnd.Intn(36)
	base := make([]byte, l)
	for i := range base {
		base[i] = Pick(rnd, same)
	}
	// where the stacks differ: the outermost link, anywhere, or around the 16th/32nd/64th frame from the top
	j := 0
	switch rnd.Intn(4) {
	case 0:
		j = rnd.Intn(l)
	case 1:
		j = l - Pick(rnd, []int{7, 8, 15, 16, 17, 31, 32, 33}) - rnd.Intn(2)
		if j < 0 {
			j = 0
		}
	}
	progs := [][]byte{base}
	for _, alt := range same {
		if alt != base[j] && len(progs) < 4 {
			v := append([]byte(nil), base...)
			v[j] = alt
			progs = append(progs, v)
		}
	}
	depth := 256 // deep enough to record every frame, mostly
	if rnd.Chance(35) {
		depth = Pick(rnd, []int{17, 33, 48, 64, 65, 100})
	}
	runCacheMode(Pick(rnd, []string{"st", "deep"}), depth, progs, 8, 0, rnd.Intn(2))
}

// caseCacheExpandedLong: long runs of frames of one package in a MAPPED file: the
// encoded name is short, the expanded name is on either side of 4096 bytes.
func caseCacheExpandedLong() {
	out.Note("cache-expanded-long")
	recBoost = 40 + rnd.Intn(61)
	defer func() { recBoost = 0 }()
	progs := [][]byte{{6}, {14}, {6, 14}}
	runCacheMode("st", 256, progs[:1+rnd.Intn(3)], 3, 0, 2)
}

// caseCacheTruncatedMapped: call stacks deep enough for their names to be
// truncated (exactly 4096 bytes with the marker), counted in a MAPPED file and
// read back through Read / ReadStack / Parse.
func caseCacheTruncatedMapped() {
	out.Note("cache-truncated-mapped")
	var progs [][]byte
	for k := 1 + rnd.Intn(2); k > 0; k-- {
		p := make([]byte, 70+rnd.Intn(40))
		for i := range p {
			p[i] = Pick(rnd, []byte{0, 8, 1, 9, 2, 10, 3, 11, 7, 15, 22, 23})
		}
		progs = append(progs, p)
	}
	runCacheMode(Pick(rnd, []string{"st", "stack/x"}), 256, progs, 3, 0, 2)
}

func caseCacheGeneric() {
	out.Note("cache-generic-instantiations")
	runCacheMode("st", 3, [][]byte{{3}, {20}}, 4, 0, 1)
}

// runCache: leafSel < 0 picks a random leaf for every Inc.
// cacheMode: 0 = the public constructor counter.NewStack on the (never opened,
// hence unmapped) default file; 1 = a private unmapped file; 2 = a private file
// opened (mapped) before the increments.
func runCache(name string, depth int, progs [][]byte, nincs int, leafSel int) {
	runCacheMode(name, depth, progs, nincs, leafSel, rnd.Intn(4)%3)
}

func runCacheMode(name string, depth int, progs [][]byte, nincs int, leafSel int, mode int) {
	state := "unmapped"
	var mvf *counter.VerifFile
	pending = []string{"StackCounter.Inc", HS(name), I(int64(depth)), I(int64(len(progs)))}
	for _, p := range progs {
		pending = append(pending, H(p))
	}
	switch mode {
	case 0:
		theStack = counter.NewStack(name, depth)
		out.Note("cache-NewStack-default-file")
	case 1:
		theStack = counter.VerifNewFile().NewStack(name, depth)
	default:
		dir, err := os.MkdirTemp("", "vh_stack")
		if err != nil {
			panic(err)
		}
		defer os.RemoveAll(dir)
		telemetry.Default = telemetry.NewDir(dir)
		os.MkdirAll(telemetry.Default.LocalDir(), 0777)
		os.WriteFile(filepath.Join(telemetry.Default.LocalDir(), "weekends"), []byte("2\n"), 0666)
		counter.CounterTime = func() time.Time { return time.Date(2024, 5, 6, 7, 8, 9, 0, time.UTC) }
		vf := counter.VerifNewFile()
		vf.Rotate1()
		defer vf.Close()
		if vf.CurrentName() != "" {
			state = "mapped"
			mvf = vf
		}
		theStack = vf.NewStack(name, depth)
		out.Note("cache-" + state + "-file")
	}
	nprogs := len(progs)
	ids := map[uintptr]int{}
	id := func(pc uintptr) string {
		if _, ok := ids[pc]; !ok {
			ids[pc] = len(ids) + 1
		}
		return I(int64(ids[pc]))
	}
	fields := []string{"cache", HS(name), I(int64(depth)), I(int64(nincs))}
	prev := map[int]uint64{}
	bad := ""
	// counters the object already has (none for a fresh StackCounter)
	pre := theStack.Counters()
	for ci, c := range pre {
		prev[ci], _ = counter.Read(c)
	}
	for k := 0; k < nincs; k++ {
		pi := rnd.Intn(nprogs)
		which := rnd.Intn(2)
		if leafSel >= 0 {
			pi = k % nprogs
			which = leafSel
		}
		prog = progs[pi]
		if which == 0 {
			leaf = leafIncA
		} else {
			leaf = leafIncB
		}
		step(0)
		// identity of the call stack as the harness knows it: which leaf, then
		// the independently captured callers, cut to the counter's depth
		key := []string{}
		if depth > 0 {
			key = append(key, I(int64(1000001+which)))
			for _, pc := range capture[1:] {
				if len(key) >= depth {
					break
				}
				key = append(key, id(pc))
			}
		}
		// which counter moved?
		ctrs := theStack.Counters()
		hit := -1
		var changed []int
		for ci, c := range ctrs {
			v, err := counter.Read(c)
			if err != nil {
				bad = "read-error"
			}
			if v != prev[ci] {
				if v != prev[ci]+1 {
					bad = "not-exactly-one-increment"
				}
				changed = append(changed, ci)
				prev[ci] = v
			}
		}
		switch {
		case len(changed) == 1:
			hit = changed[0]
		case len(changed) > 1:
			// In a mapped file counters with ONE name are one persistent cell (known finding
			// symboliser-not-injective): all of them move.  Then the counter that was hit is
			// the one whose recorded pcs are this call stack.
			same := state == "mapped"
			for _, ci := range changed {
				same = same && ctrs[ci].Name() == ctrs[changed[0]].Name()
			}
			if !same {
				bad = "not-exactly-one-increment"
			}
			rec := counter.VerifStackPCs(theStack)
			for _, ci := range changed {
				ok := len(rec[ci]) == len(key)
				for j := 1; ok && j < len(rec[ci]); j++ {
					ok = rec[ci][j] == capture[j]
				}
				if ok && len(rec[ci]) > 0 {
					fn := runtime.FuncForPC(rec[ci][0] - 1)
					ok = fn != nil && strings.HasSuffix(fn.Name(), []string{".leafIncA", ".leafIncB"}[which])
				}
				if ok {
					hit = ci
				}
			}
		}
		fields = append(fields, I(int64(len(key))))
		fields = append(fields, key...)
		fields = append(fields, I(int64(hit)), I(int64(len(ctrs))))
	}
	// the cache as the implementation holds it
	stacks := counter.VerifStackPCs(theStack)
	names := theStack.Names()
	fields = append(fields, I(int64(len(stacks))))
	for i, pcs := range stacks {
		// recorded pcs: the first is the call site of Inc in the leaf (identified by
		// the leaf's function name), the others must be the captured callers
		leafID := int64(0)
		if len(pcs) > 0 {
			fn := runtime.FuncForPC(pcs[0] - 1)
			switch {
			case fn != nil && strings.HasSuffix(fn.Name(), ".leafIncA"):
				leafID = 1000001
			case fn != nil && strings.HasSuffix(fn.Name(), ".leafIncB"):
				leafID = 1000002
			default:
				bad = "first-pc-not-in-leaf"
			}
		}
		fields = append(fields, I(int64(len(pcs))))
		for j, pc := range pcs {
			if j == 0 {
				fields = append(fields, I(leafID))
			} else {
				fields = append(fields, id(pc))
			}
		}
		fields = append(fields, frameFields(framesOf(pcs))...)
		fields = append(fields, HS(names[i]))
	}
	// values and ReadStack (what countertest.ReadStackCounter returns) in this state
	ctrs := theStack.Counters()
	fields = append(fields, I(int64(len(ctrs))))
	for _, c := range ctrs {
		v, _ := counter.Read(c)
		fields = append(fields, U(v))
	}
	rs, err := counter.ReadStack(theStack)
	if err != nil {
		bad = "readstack-error"
	}
	var keys []string
	for k := range rs {
		keys = append(keys, k)
	}
	sort.Strings(keys)
	fields = append(fields, state, I(int64(len(pre))), I(int64(len(keys))))
	for _, k := range keys {
		fields = append(fields, HS(k), U(rs[k]))
	}
	// the file decoder on the mapped file: the stack counters under their expanded names,
	// and an ordinary counter of the same file
	if mvf != nil {
		mvf.NewCounter("plain/ordinary").Inc()
		st := "err"
		var ents []string
		if data, err := os.ReadFile(mvf.CurrentName()); err == nil {
			if pf, err := counter.Parse(mvf.CurrentName(), data); err == nil {
				st = "ok"
				var ks []string
				for k := range pf.Count {
					ks = append(ks, k)
				}
				sort.Strings(ks)
				for _, k := range ks {
					ents = append(ents, HS(k), U(pf.Count[k]))
				}
			}
		}
		fields = append(fields, "parse-"+st, I(int64(len(ents)/2)))
		fields = append(fields, ents...)
	} else {
		fields = append(fields, "parse-none", I(0))
	}
	fields = append(fields, bad+"-")
	out.Note(fmt.Sprintf("cache-depth-%d", depth))
	out.Case(true, fields...)
}

func main() {
	outPath := os.Args[1]
	n, _ := strconv.Atoi(os.Args[2])
	rnd = NewRand(Seed())
	out = NewOut(outPath)
	for i := 0; i < n; i++ {
		var f func()
		switch {
		case i == 9:
			f = caseCacheGeneric
		case i%100 == 19:
			f = caseCacheDepths
		case i%50 == 29:
			f = caseCacheDeepShared
		case i%100 == 39:
			f = caseCacheExpandedLong
		case i%100 == 49:
			f = caseCacheTruncatedMapped
		case i%20 == 7:
			f = caseEncUnicodeCut
		case i%10 < 5:
			f = caseEnc
		case i%10 < 8:
			f = caseDec
		default:
			f = caseCache
		}
		guarded(f)
	}
	out.Close()
}
