// Package pb holds call-chain links for the vh_stack harness: plain
// functions, value and pointer methods, generics, closures, inlinable
// functions.  Every link calls next(i+1).
package pb

type T struct{ X int }

//go:noinline
func F(i int, next func(int)) { next(i + 1) }

//go:noinline
func (T) M(i int, next func(int)) { next(i + 1) }

//go:noinline
func (t *T) PM(i int, next func(int)) {
	t.X++
	next(i + 1)
}

//go:noinline
func G[X any](x X, i int, next func(int)) X {
	next(i + 1)
	return x
}

//go:noinline
func Clo(i int, next func(int)) {
	f := func() {
		next(i + 1)
	}
	f()
}

// Inl is small enough to be inlined into its caller.
func Inl(i int, next func(int)) { next(i + 1) }

//go:noinline
func Rec(k int, i int, next func(int)) {
	if k > 0 {
		Rec(k-1, i, next)
		return
	}
	next(i + 1)
}

// Deep.Er.Name has dots in the receiver-ish part of its symbol.
type Deep struct{ Er struct{} }

//go:noinline
func (d Deep) Name(i int, next func(int)) {
	func() {
		func() {
			next(i + 1)
		}()
	}()
}
