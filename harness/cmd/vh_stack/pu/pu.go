// Package pu holds call-chain links whose identifiers are made of multi-byte
// UTF-8 characters (2-byte Greek/Cyrillic, 3-byte CJK), so that the byte at
// which a long stack-counter name is cut often lies inside a character.
package pu

//go:noinline
func F世界你好世界你好世界你好世界你好(i int, next func(int)) { next(i + 1) }

//go:noinline
func Ωμέγαλφαβήταγάμμαδέλταεψιλον(i int, next func(int)) { next(i + 1) }

type Тип世界 struct{ X int }

//go:noinline
func (Тип世界) Метод世界你好é(i int, next func(int)) { next(i + 1) }

//go:noinline
func Rec世界é(k int, i int, next func(int)) {
	if k > 0 {
		Rec世界é(k-1, i, next)
		return
	}
	next(i + 1)
}
