// vh_bucket: correspondence harness for C18 (file-system storage bucket).
// Runs random operation sequences on the REAL storage.FSBucket in a fresh
// temporary directory and writes, per case, the operations with the real
// results, the resulting directory tree below the bucket directory and
// whether anything outside the bucket directory was touched.
//
// Case kinds
//
//	ops     h<spelling of the storage root, empty = absolute> <n> {op} <confined> <m> {h<relpath> <d|f> h<content>}
//	   op = w h<name> h<content> <ok>
//	      | r h<name> <ok|notexist|isdir|notdir|other> h<content>
//	      | l h<prefix> <context kind> <error surfaced> <k> {h<name>}
//	      | c h<dst> h<src> <ok>
//	      | wo h<name> <ok> | ww <writer> h<data> <ok> | wc <writer> <ok>   (writers numbered by successful open)
//	multi   <n> {<root> <bucket> op} <confined> 6 x (<m> {h<relpath> <d|f> h<content>})
//	resolve h<name> <in h<rel> | out>
//	svc     <upload|merge|chart> ... (see caseSvc)
package main

import (
	"context"
	"errors"
	"fmt"
	"io"
	"io/fs"
	"math"
	"os"
	"path/filepath"
	"strconv"
	"strings"
	"sync"
	"syscall"
	"time"

	"golang.org/x/telemetry/godev/internal/config"
	"golang.org/x/telemetry/godev/internal/storage"
	. "golang.org/x/telemetry/internal/verifh/vhlib"
)

var rnd *Rand
var out *Out
var root string
var ctx = context.Background()

var compPool = []string{"a", "b", "ab", "a.b", "a-b", "c", "2024-01-01", "x.json", "0.5.json", "..a", "a..", "...",
	"\xc3\xa9", "\xff", " ", "a b", "A", "a\\b", "b.json", "1e-05.json", "~", "a_b", "-", "_"}

func genComp() string {
	if rnd.Chance(85) {
		return Pick(rnd, compPool)
	}
	n := 1 + rnd.Intn(6)
	b := make([]byte, n)
	for i := range b {
		b[i] = Pick(rnd, []byte("abcxyz019.-_ AZ\x7f\x80\xfe"))
	}
	s := string(b)
	if s == "." || s == ".." {
		return "d" + s
	}
	return s
}

// a name of ordinary components
func genName(known []string) string {
	if len(known) > 0 && rnd.Chance(45) {
		base := Pick(rnd, known)
		switch rnd.Intn(5) {
		case 0:
			return base // overwrite / read back
		case 1:
			return base + "/" + genComp() // below an object: the object is in the way
		case 2:
			if i := strings.LastIndexByte(base, '/'); i > 0 {
				return base[:i] // an ancestor directory of an object
			}
			return base
		case 3:
			if i := strings.LastIndexByte(base, '/'); i > 0 {
				return base[:i+1] + genComp() // sibling
			}
			return genComp()
		default:
			return base + Pick(rnd, []string{"x", ".json", "-", "0"}) // shares a string prefix only
		}
	}
	k := 1 + rnd.Intn(4)
	parts := make([]string, k)
	for i := range parts {
		parts[i] = genComp()
	}
	return strings.Join(parts, "/")
}

func genPrefix(known []string) string {
	switch rnd.Intn(7) {
	case 0:
		return ""
	case 1:
		return genComp()
	case 2, 3:
		if len(known) > 0 {
			b := Pick(rnd, known)
			return b[:rnd.Intn(len(b)+1)] // may cut a component in the middle
		}
		return "a"
	case 4:
		if len(known) > 0 {
			b := Pick(rnd, known)
			if i := strings.IndexByte(b, '/'); i > 0 {
				return b[:i+1]
			}
			return b
		}
		return "a/"
	case 5:
		return Pick(rnd, []string{"/", ".", "a/", "a.", "a-", "a/b", "2024-01-01", "2024-01-0", "2024-01-01/"})
	default:
		return genName(known)
	}
}

func genContent() []byte {
	switch rnd.Intn(5) {
	case 0:
		return []byte{}
	case 1:
		return []byte("{\"Week\":\"2024-01-01\"}\n")
	default:
		return rnd.Bytes(1 + rnd.Intn(40))
	}
}

// snapshot of everything below dir: relative path -> "d" or "f"+content
func snapshot(dir string) map[string]string {
	m := map[string]string{}
	filepath.WalkDir(dir, func(p string, d fs.DirEntry, err error) error {
		if err != nil {
			m[p] = "err:" + err.Error()
			return nil
		}
		rel, _ := filepath.Rel(dir, p)
		if d.IsDir() {
			m[rel] = "d"
		} else {
			b, _ := os.ReadFile(p)
			m[rel] = "f" + string(b)
		}
		return nil
	})
	return m
}

type sandbox struct {
	oldwd                string
	base, dir, bucketDir string
	b                    storage.BucketHandle
	before               map[string]string
}

func newSandbox() *sandbox { return newSandboxAt("") }

// newSandboxAt opens the bucket with the storage root SPELLED as given
// relative to the sandbox's base directory ("" = the absolute path).  A
// relative spelling (the services' default is the relative ".localstorage")
// is resolved against the working directory, which is then the base
// directory until the sandbox is closed.
func newSandboxAt(spelling string) *sandbox {
	base, err := os.MkdirTemp(root, "t")
	if err != nil {
		panic(err)
	}
	s := &sandbox{base: base, dir: filepath.Join(base, "store")}
	os.MkdirAll(s.dir, 0777)
	os.WriteFile(filepath.Join(base, "outside.txt"), []byte("outside"), 0666)
	os.WriteFile(filepath.Join(s.dir, "sentinel"), []byte("sentinel"), 0666)
	os.MkdirAll(filepath.Join(s.dir, "other-bucket", "a"), 0777)
	os.WriteFile(filepath.Join(s.dir, "other-bucket", "a", "b"), []byte("other"), 0666)
	// through the public constructor the services use (storage.NewBucket with cfg.LocalStorage)
	local := s.dir
	if spelling != "" {
		s.oldwd, _ = os.Getwd()
		if err := os.Chdir(base); err != nil {
			panic(err)
		}
		local = strings.ReplaceAll(spelling, "$BASE", filepath.Base(base))
	}
	b, err := storage.NewBucket(ctx, &config.Config{LocalStorage: local}, "bkt")
	if err != nil {
		panic(err)
	}
	s.b = b
	s.bucketDir = filepath.Join(s.dir, "bkt")
	s.before = snapshot(base)
	return s
}

// confined: everything that differs from the initial snapshot of the parent
// directories lies below the bucket directory
func (s *sandbox) confined() bool {
	after := snapshot(s.base)
	inside := func(rel string) bool { return rel == "store/bkt" || strings.HasPrefix(rel, "store/bkt/") }
	for k, v := range after {
		if inside(k) {
			continue
		}
		if s.before[k] != v {
			return false
		}
	}
	for k := range s.before {
		if inside(k) {
			continue
		}
		if _, ok := after[k]; !ok {
			return false
		}
	}
	return true
}

func (s *sandbox) tree() []string { return treeOf(s.bucketDir) }

func treeOf(dir string) []string {
	var fields []string
	n := 0
	filepath.WalkDir(dir, func(p string, d fs.DirEntry, err error) error {
		if err != nil || p == dir {
			return nil
		}
		rel, _ := filepath.Rel(dir, p)
		n++
		if d.IsDir() {
			fields = append(fields, HS(filepath.ToSlash(rel)), "d", H(nil))
		} else {
			b, _ := os.ReadFile(p)
			fields = append(fields, HS(filepath.ToSlash(rel)), "f", H(b))
		}
		return nil
	})
	return append([]string{I(int64(n))}, fields...)
}

func (s *sandbox) close() {
	if s.oldwd != "" {
		os.Chdir(s.oldwd)
	}
	os.RemoveAll(s.base)
}

// A panic inside the bucket code is an observation (the operation failed in
// the worst way), not a reason for the harness to die.
func doWrite(b storage.BucketHandle, name string, content []byte) (ok bool) {
	defer func() {
		if recover() != nil {
			out.Note("panic-in-bucket-code")
			ok = false
		}
	}()
	w, err := b.Object(name).NewWriter(ctx)
	if err != nil {
		return false
	}
	_, err = w.Write(content)
	err2 := w.Close()
	return err == nil && err2 == nil
}

func doRead(b storage.BucketHandle, name string) (tag string, data []byte) {
	defer func() {
		if recover() != nil {
			out.Note("panic-in-bucket-code")
			tag, data = "panic", nil
		}
	}()
	r, err := b.Object(name).NewReader(ctx)
	if err != nil {
		switch {
		case errors.Is(err, storage.ErrObjectNotExist):
			return "notexist", nil
		case errors.Is(err, syscall.ENOTDIR):
			return "notdir", nil
		}
		return "other", nil
	}
	defer r.Close()
	data, err = io.ReadAll(r)
	if err != nil {
		if errors.Is(err, syscall.EISDIR) {
			return "isdir", nil
		}
		return "other", nil
	}
	return "ok", data
}

// countCtx is a context that becomes cancelled after its Err method has been
// consulted `after` times: a deterministic "cancelled in the middle of the
// walk" for implementations that poll the context.
type countCtx struct {
	context.Context
	mu    sync.Mutex
	calls int
	after int
	done  chan struct{}
}

func (c *countCtx) Err() error {
	c.mu.Lock()
	defer c.mu.Unlock()
	c.calls++
	if c.calls > c.after {
		select {
		case <-c.done:
		default:
			close(c.done)
		}
		return context.Canceled
	}
	return nil
}
func (c *countCtx) Done() <-chan struct{} { return c.done }

var ctxKinds = []string{"live", "live", "live", "cancelled", "expired", "midwalk", "consumer"}

// doList lists with a context of the given kind and reports the names and
// whether the iterator surfaced an error (anything but ErrObjectIteratorDone).
func doList(b storage.BucketHandle, prefix, kind string) (names []string, lerr bool) {
	defer func() {
		if recover() != nil {
			out.Note("panic-in-bucket-code")
			names, lerr = []string{"!panic"}, false
		}
	}()
	c := ctx
	var cancel context.CancelFunc = func() {}
	switch kind {
	case "cancelled":
		c, cancel = context.WithCancel(ctx)
		cancel()
	case "expired":
		c, cancel = context.WithDeadline(ctx, time.Now().Add(-time.Second))
	case "midwalk":
		c = &countCtx{Context: ctx, after: rnd.Intn(6), done: make(chan struct{})}
	case "consumer":
		c, cancel = context.WithCancel(ctx)
	}
	defer cancel()
	it := b.Objects(c, prefix)
	for {
		n, err := it.Next()
		if errors.Is(err, storage.ErrObjectIteratorDone) {
			return names, false
		}
		if err != nil {
			return names, true
		}
		names = append(names, n)
		if kind == "consumer" {
			cancel() // the consumer gives up after the first name; it keeps reading what it is given
		}
	}
}

func doCopy(b storage.BucketHandle, dst, src string) (ok bool) {
	defer func() {
		if recover() != nil {
			out.Note("panic-in-bucket-code")
			ok = false
		}
	}()
	return storage.Copy(ctx, b.Object(dst), b.Object(src)) == nil
}

func listTokens(p, kind string, lerr bool, names []string) []string {
	t := []string{"l", HS(p), kind, B(lerr), I(int64(len(names)))}
	for _, n := range names {
		t = append(t, HS(n))
	}
	return t
}

// Several buckets in one process: the same three bucket names (as NewAPI
// opens them) under TWO storage roots, operations interleaved, handles
// re-opened through NewBucket on the way.  A bucket is (root, name).
func caseMulti() {
	base, err := os.MkdirTemp(root, "m")
	if err != nil {
		panic(err)
	}
	defer os.RemoveAll(base)
	os.WriteFile(filepath.Join(base, "outside.txt"), []byte("outside"), 0666)
	bucketNames := []string{"up", "merged", "chart"}
	var cfgs [2]*config.Config
	var handles [2][3]storage.BucketHandle
	var dirs [2][3]string
	for r := 0; r < 2; r++ {
		rootDir := filepath.Join(base, fmt.Sprintf("root%d", r))
		os.MkdirAll(rootDir, 0777)
		os.WriteFile(filepath.Join(rootDir, "sentinel"), []byte("sentinel"), 0666)
		cfgs[r] = &config.Config{LocalStorage: rootDir, UploadBucket: bucketNames[0], MergedBucket: bucketNames[1], ChartDataBucket: bucketNames[2]}
		api, err := storage.NewAPI(ctx, cfgs[r])
		if err != nil {
			panic(err)
		}
		handles[r] = [3]storage.BucketHandle{api.Upload, api.Merge, api.Chart}
		for j := range bucketNames {
			dirs[r][j] = filepath.Join(rootDir, bucketNames[j])
		}
	}
	inBucket := func(rel string) bool {
		for r := 0; r < 2; r++ {
			for _, n := range bucketNames {
				p := fmt.Sprintf("root%d/%s", r, n)
				if rel == p || strings.HasPrefix(rel, p+"/") {
					return true
				}
			}
		}
		return false
	}
	before := snapshot(base)
	names := []string{"a", "a/b", "2024-01-01/0.5.json", "2024-01-01.json", "x/y/z", "b", genName(nil)}
	nops := 8 + rnd.Intn(30)
	var ops []string
	for i := 0; i < nops; i++ {
		r, j := rnd.Intn(2), rnd.Intn(3)
		if rnd.Chance(15) { // a handler opens its bucket again (worker handleCopy does so per request)
			h, err := storage.NewBucket(ctx, cfgs[r], bucketNames[j])
			if err == nil {
				handles[r][j] = h
			}
			out.Note("multi:bucket-reopened")
		}
		b := handles[r][j]
		ops = append(ops, I(int64(r)), I(int64(j)))
		name := Pick(rnd, names)
		switch k := rnd.Intn(10); {
		case k < 4:
			c := genContent()
			ops = append(ops, "w", HS(name), H(c), B(doWrite(b, name, c)))
		case k < 7:
			tag, data := doRead(b, name)
			ops = append(ops, "r", HS(name), tag, H(data))
		case k < 9:
			p := Pick(rnd, []string{"", "a", "2024-01-01", "x/"})
			kind := Pick(rnd, ctxKinds)
			ns, lerr := doList(b, p, kind)
			ops = append(ops, listTokens(p, kind, lerr, ns)...)
		default:
			src := Pick(rnd, names)
			if rnd.Chance(60) {
				// storage.Copy ACROSS buckets (what the worker's copy handler does), mostly under the same
				// object name: the destination bucket gets the source's bytes
				r2, j2 := rnd.Intn(2), rnd.Intn(3)
				if r2 == r && j2 == j {
					j2 = (j2 + 1) % 3
				}
				dst := src
				if rnd.Chance(25) {
					dst = name
				}
				ok := func() (ok bool) {
					defer func() {
						if recover() != nil {
							ok = false
						}
					}()
					return storage.Copy(ctx, handles[r2][j2].Object(dst), b.Object(src)) == nil
				}()
				ops = append(ops, "x", I(int64(r2)), I(int64(j2)), HS(dst), HS(src), B(ok))
				out.Note("multi:copy-across-buckets")
				break
			}
			ops = append(ops, "c", HS(name), HS(src), B(doCopy(b, name, src)))
		}
	}
	confined := true
	after := snapshot(base)
	for k, v := range after {
		if !inBucket(k) && before[k] != v {
			confined = false
		}
	}
	for k := range before {
		if _, ok := after[k]; !ok && !inBucket(k) {
			confined = false
		}
	}
	fields := []string{"multi", I(int64(nops))}
	fields = append(fields, ops...)
	fields = append(fields, B(confined))
	for r := 0; r < 2; r++ {
		for j := range bucketNames {
			fields = append(fields, treeOf(dirs[r][j])...)
		}
	}
	out.Case(true, fields...)
}

func caseOps() {
	// how the storage root is spelled: absolute, or relative to the working directory
	spelling := Pick(rnd, []string{"", "", "store", "./store", "../$BASE/store", "store/", "store/../store"})
	s := newSandboxAt(spelling)
	defer s.close()
	if spelling == "" {
		out.Note("storage-root:absolute")
	} else {
		out.Note("storage-root:relative")
	}
	target := 4 + rnd.Intn(28)
	var ops []string
	nops := 0
	var known []string
	collide, overwrite, emptyc, cutmid := false, false, false, false
	var writers []io.WriteCloser
	write := func(name string, c []byte) {
		ok := doWrite(s.b, name, c)
		for _, kn := range known {
			if kn == name {
				overwrite = true
			}
		}
		if ok {
			known = append(known, name)
		} else {
			collide = true
		}
		if len(c) == 0 {
			emptyc = true
		}
		ops = append(ops, "w", HS(name), H(c), B(ok))
		nops++
	}
	read := func(name string) {
		tag, data := doRead(s.b, name)
		if tag == "isdir" || tag == "notdir" {
			collide = true
		}
		ops = append(ops, "r", HS(name), tag, H(data))
		nops++
	}
	list := func(p string) {
		kind := Pick(rnd, ctxKinds)
		names, lerr := doList(s.b, p, kind)
		if p != "" && !strings.HasSuffix(p, "/") {
			cutmid = true
		}
		out.Note("list-context:" + kind)
		ops = append(ops, listTokens(p, kind, lerr, names)...)
		nops++
	}
	for nops < target {
		switch k := rnd.Intn(26); {
		case k >= 24:
			// writers as handles: the services close every writer twice (explicit Close + deferred Close),
			// and several writers are open at the same time (concurrent uploads, the worker's copies).
			// Discipline: distinct objects, nothing else touches them while a writer is open.
			a, b := genName(known), genName(known)
			openW := func(name string) int {
				w, err := func() (w io.WriteCloser, err error) {
					defer func() {
						if recover() != nil {
							err = errors.New("panic")
						}
					}()
					return s.b.Object(name).NewWriter(ctx)
				}()
				ops = append(ops, "wo", HS(name), B(err == nil))
				nops++
				if err != nil {
					collide = true
					return -1
				}
				writers = append(writers, w)
				known = append(known, name)
				return len(writers) - 1
			}
			writeW := func(h int) {
				if h < 0 {
					return
				}
				data := genContent()
				n, err := writers[h].Write(data)
				ops = append(ops, "ww", I(int64(h)), H(data), B(err == nil && n == len(data)))
				nops++
			}
			closeW := func(h int) {
				if h < 0 {
					return
				}
				err := writers[h].Close()
				ops = append(ops, "wc", I(int64(h)), B(err == nil))
				nops++
			}
			switch rnd.Intn(4) {
			case 0: // one writer, closed twice, written to after Close
				h := openW(a)
				writeW(h)
				writeW(h)
				closeW(h)
				closeW(h)
				if rnd.Bool() {
					writeW(h)
				}
				read(a)
				out.Note("ops:writer-closed-twice")
			default: // a double Close first, then two writers open at the same time
				h0 := openW(a)
				writeW(h0)
				closeW(h0)
				closeW(h0)
				if b == a {
					b = a + "2"
				}
				c := genName(known)
				if c == a || c == b {
					c = a + "3"
				}
				h1 := openW(b)
				h2 := openW(c)
				for i := 2 + rnd.Intn(4); i > 0; i-- {
					if rnd.Bool() {
						writeW(h1)
					} else {
						writeW(h2)
					}
				}
				closeW(h1)
				if rnd.Bool() {
					closeW(h1)
				}
				closeW(h2)
				if rnd.Bool() {
					closeW(h2)
				}
				read(a)
				read(b)
				read(c)
				out.Note("ops:two-writers-open-after-double-close")
			}
		case k < 9:
			write(genName(known), genContent())
		case k < 14:
			read(genName(known))
		case k == 23:
			// walk order vs string order: a directory d (walked first, with everything below it) next to
			// siblings d-x, d.json, "d x" ... whose names sort BEFORE "d/" as strings; then prefixes that
			// select only the siblings
			dir := ""
			if len(known) > 0 && rnd.Bool() {
				if b := Pick(rnd, known); strings.IndexByte(b, '/') > 0 {
					dir = b[:strings.LastIndexByte(b, '/')]
				}
			}
			if dir == "" {
				dir = genComp()
				write(dir+"/"+genComp(), genContent())
			}
			sep := Pick(rnd, []string{"-", ".", " ", "+", "!", ".json", "-x", "."})
			sib := dir + sep + Pick(rnd, []string{"", "x", "2", "json"})
			if sib != dir {
				write(sib, genContent())
			}
			for _, p := range []string{dir + sep, sib, dir + sep[:1]} {
				if rnd.Chance(70) {
					list(p)
				}
			}
			list(dir)
			out.Note("ops:sibling-sorts-before-directory-contents")
		case k < 19:
			list(genPrefix(known))
		default: // storage.Copy inside the bucket, then overwrites and reads of both names
			src := genName(known)
			if len(known) > 0 && rnd.Chance(80) {
				src = Pick(rnd, known)
			}
			dst := genName(known)
			switch rnd.Intn(10) {
			case 0:
				dst = src // onto itself
				out.Note("ops:copy-onto-itself")
			case 1, 2:
				if len(known) > 0 {
					dst = Pick(rnd, known) // replaces an object
				}
			}
			ok := doCopy(s.b, dst, src)
			if ok {
				known = append(known, dst)
				out.Note("ops:copy-ok")
			} else {
				out.Note("ops:copy-refused")
			}
			ops = append(ops, "c", HS(dst), HS(src), B(ok))
			nops++
			read(dst) // what the destination holds right after the copy
			if ok && rnd.Chance(75) {
				// the two names are independent objects afterwards
				first, second := src, dst
				if rnd.Bool() {
					first, second = dst, src
				}
				write(first, genContent())
				read(second)
				read(first)
				if rnd.Bool() {
					write(second, genContent())
					read(first)
					read(second)
				}
				out.Note("ops:copy-then-overwrite")
			}
		}
	}
	fields := []string{"ops", HS(spelling), I(int64(nops))}
	fields = append(fields, ops...)
	fields = append(fields, B(s.confined()))
	fields = append(fields, s.tree()...)
	if collide {
		out.Note("ops:file-dir-collision")
	}
	if overwrite {
		out.Note("ops:overwrite")
	}
	if emptyc {
		out.Note("ops:empty-content")
	}
	if cutmid {
		out.Note("ops:prefix-not-at-component-boundary")
	}
	out.Case(true, fields...)
}

// hostile and ordinary names through the real path construction
func caseResolve(sb *sandbox) {
	var name string
	if rnd.Chance(40) {
		name = genName(nil)
		out.Note("resolve:ordinary")
	} else {
		k := 1 + rnd.Intn(5)
		parts := make([]string, k)
		for i := range parts {
			parts[i] = Pick(rnd, []string{"a", "b", "..", ".", "", "a.b", "...", "..a", "2024-01-01"})
		}
		name = strings.Join(parts, "/")
		out.Note("resolve:hostile")
	}
	o := sb.b.Object(name).(*storage.FSObject)
	rel, err := filepath.Rel(sb.bucketDir, o.Filename())
	if err != nil || rel == ".." || strings.HasPrefix(rel, "../") {
		out.Case(true, "resolve", HS(name), "out", HS(""))
		return
	}
	if rel == "." {
		rel = ""
	}
	out.Case(true, "resolve", HS(name), "in", HS(filepath.ToSlash(rel)))
}

var hostileWeeks = []string{"../x", "2024-1-01", "2024-01-01/..", "2024-01-011", "2024-01-0", "", "2024/01/01", "..", ".",
	"2024-13-01", "2024-02-30", "2023-02-29", "2024-02-29", "0000-01-01", "9999-12-31", "2024-01-01 ", " 2024-01-01",
	"2024-01-01\x00", "+024-01-01", "2024-00-10", "2024-01-00", "2024-01-32", "20240101", "2024-01-01T", "/024-01-01",
	"2024-0/-01", "2024-01-/1", "2024.01.01", "2024-01-01/../../x"}

func genWeek() string {
	if rnd.Chance(35) {
		return Pick(rnd, hostileWeeks)
	}
	if rnd.Chance(15) { // single-character damage of a valid date
		w := []byte(genDate().Format("2006-01-02"))
		w[rnd.Intn(len(w))] = Pick(rnd, []byte("/.-0a \x00:"))
		return string(w)
	}
	return genDate().Format("2006-01-02")
}

func genDate() time.Time {
	if rnd.Chance(20) {
		return time.Date(rnd.Intn(10000), time.Month(1+rnd.Intn(12)), 1+rnd.Intn(28), 0, 0, 0, 0, time.UTC)
	}
	return time.Date(2000+rnd.Intn(60), time.Month(1+rnd.Intn(12)), 1+rnd.Intn(31), 0, 0, 0, 0, time.UTC)
}

func float01() float64 { return float64(rnd.Uint64()>>11) / (1 << 53) }

func genX() float64 {
	switch rnd.Intn(8) {
	case 0:
		return Pick(rnd, []float64{1e-320, 5e-324, 1e300, math.MaxFloat64, -math.MaxFloat64, 1e21, 1e20, 123456789, 0.000001,
			0.0001, 0.00001, -0.5, 1, -1, 0.1, 1e-5, 1e100, 12345678901234567890, 0.30000000000000004, 2.5e-8})
	case 1:
		return float01() * math.Pow(10, float64(rnd.Intn(600)-300))
	case 2:
		for {
			f := math.Float64frombits(rnd.Uint64())
			if !math.IsNaN(f) && !math.IsInf(f, 0) && f != 0 {
				return f
			}
		}
	default:
		return float01()
	}
}

// service object names: the same expressions the services use, with the real
// fmt %g / time.Format, resolved through the real FSObject path construction.
func caseSvc(sb *sandbox) {
	resolveTag := func(name string) (string, string) {
		o := sb.b.Object(name).(*storage.FSObject)
		rel, err := filepath.Rel(sb.bucketDir, o.Filename())
		if err != nil || rel == ".." || strings.HasPrefix(rel, "../") {
			return "out", HS("")
		}
		if rel == "." {
			rel = ""
		}
		return "in", HS(filepath.ToSlash(rel))
	}
	switch rnd.Intn(4) {
	case 0, 1: // upload: fmt.Sprintf("%s/%g.json", report.Week, report.X)
		week := genWeek()
		x := genX()
		_, perr := time.Parse("2006-01-02", week)
		xs := strconv.FormatFloat(x, 'g', -1, 64)
		name := fmt.Sprintf("%s/%g.json", week, x)
		t, rel := resolveTag(name)
		if perr == nil {
			out.Note("svc:upload-week-accepted")
		} else {
			out.Note("svc:upload-week-rejected")
		}
		if strings.ContainsAny(xs, "e") {
			out.Note("svc:upload-x-exponent-form")
		}
		out.Case(true, "svc", "upload", HS(week), B(perr == nil), HS(xs), HS(name), t, rel)
	case 2: // merge: date + ".json" for a date accepted by time.Parse
		date := genWeek()
		_, perr := time.Parse("2006-01-02", date)
		name := date + ".json"
		t, rel := resolveTag(name)
		out.Note("svc:merge")
		out.Case(true, "svc", "merge", HS(date), B(perr == nil), HS(name), t, rel)
	default: // chart: worker fileName(start, end)
		start := genDate()
		end := start.AddDate(0, 0, Pick(rnd, []int{0, 0, 6, 1, 30, 365}))
		if end.Year() > 9999 {
			end = start
		}
		var name string
		if start.Equal(end) {
			name = end.Format("2006-01-02") + ".json"
		} else {
			name = start.Format("2006-01-02") + "_" + end.Format("2006-01-02") + ".json"
		}
		t, rel := resolveTag(name)
		out.Note("svc:chart")
		out.Case(true, "svc", "chart", I(start.Unix()/86400), I(end.Unix()/86400), HS(name), t, rel)
	}
}

func main() {
	outPath := os.Args[1]
	n, _ := strconv.Atoi(os.Args[2])
	rnd = NewRand(Seed())
	out = NewOut(outPath)
	var err error
	root, err = os.MkdirTemp("", "vh_bucket")
	if err != nil {
		panic(err)
	}
	defer os.RemoveAll(root)
	shared := newSandbox()
	for i := 0; i < n; i++ {
		switch {
		case i%10 < 5:
			caseOps()
		case i%10 < 6:
			caseMulti()
		case i%10 < 8:
			caseResolve(shared)
		default:
			caseSvc(shared)
		}
	}
	// the path-construction cases must not have touched the disk at all
	if !shared.confined() || len(shared.tree()) != 1 {
		out.Case(true, "resolve-touched-disk")
	}
	shared.close()
	out.Close()
}
