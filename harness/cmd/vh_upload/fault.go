// The fault suite of C05 (uploader half): one real upload.Run - the exported
// Run (with its recover) in mode local, the inner uploader.Run in mode on - on
// a copy of a generated telemetry directory, with a fault plan installed in
// the shims: every os / http / rand call of the run is a numbered fault
// point; the plan maps call indices to ENOENT / EACCES / ENOSPC / EIO / short
// write / (for Post) 4xx / 5xx.
package main

import (
	"bytes"
	"fmt"
	"io"
	"log"
	"os"
	"path/filepath"
	"sort"
	"strings"
	"time"

	"golang.org/x/telemetry/internal/telemetry"
	"golang.org/x/telemetry/internal/upload"
	"golang.org/x/telemetry/internal/verifh/shim/vhttp"
	"golang.org/x/telemetry/internal/verifh/shim/vos"
	. "golang.org/x/telemetry/internal/verifh/vhlib"
)

var casesDone int
var stateIdx int

const callBudget = 3000

func copyTree(src, dst string) {
	type dm struct {
		path string
		t    time.Time
	}
	var dirs []dm
	defer func() { // directory ages last: writing their entries touches them
		for i := len(dirs) - 1; i >= 0; i-- {
			os.Chtimes(dirs[i].path, dirs[i].t, dirs[i].t)
		}
	}()
	filepath.Walk(src, func(p string, info os.FileInfo, err error) error {
		if err != nil {
			return nil
		}
		r, _ := filepath.Rel(src, p)
		q := filepath.Join(dst, r)
		if info.IsDir() {
			os.MkdirAll(q, 0777)
			if strings.HasSuffix(q, ".lock") {
				dirs = append(dirs, dm{q, info.ModTime()})
			}
			return nil
		}
		data, _ := os.ReadFile(p)
		os.WriteFile(q, data, 0666)
		os.Chtimes(q, info.ModTime(), info.ModTime()) // file ages are part of the state (old locks)
		return nil
	})
}

type faultState struct {
	w         *world
	tmpl      string
	cfg       *telemetry.UploadConfig
	start     time.Time
	modeOn    bool
	exported  bool
	rule      func(op, path string) int // persistent fault of the next runPlan (nil: none)
	curKind   string                    // kind of the case the next runPlan belongs to (for the watchdog)
	asof      time.Time
	head      []string // the case line's fields describing the initial state
	nCaseDirs int
}

// openFDs: the number of file descriptors the process holds.
func openFDs() int {
	es, err := os.ReadDir("/proc/self/fd")
	if err != nil {
		return 0
	}
	return len(es)
}

// watchdog: a run that neither returns nor reaches a fault point (a loop without calls) would stop
// the harness; after the deadline onExpire reports the case as a hang and the harness exits cleanly.
const caseDeadline = 60 * time.Second

func watchdog(onExpire func()) (stop func()) {
	tm := time.AfterFunc(caseDeadline, func() {
		onExpire()
		out.Close()
		os.Exit(0)
	})
	return func() { tm.Stop() }
}

type faultResult struct {
	fdDelta   int         // file descriptors held after the run minus before
	fired     map[int]int // index -> kind of the faults that fired (the index plan equivalent to plan + rule)
	ncalls    int
	log       []string
	escaped   string
	recovered bool
	hang      bool
}

// runPlan runs one upload on a fresh copy of the template under the plan.
func (fs *faultState) runPlan(plan map[int]int) (string, faultResult) {
	fs.nCaseDirs++
	caseDir := filepath.Join(filepath.Dir(fs.tmpl), fmt.Sprintf("c%d", fs.nCaseDirs))
	copyTree(fs.tmpl, caseDir)
	url := "http://verif.invalid/upload"
	var res faultResult
	vhttp.Reset(func(u string, body []byte) int {
		switch k := vos.Point("Post", u); k {
		case vos.KENOENT, vos.KEACCES, vos.KENOSPC, vos.KEIO:
			return 0
		case vos.K4xx:
			return 400
		case vos.K5xx:
			return 503
		default:
			return 200
		}
	})
	vos.Reset(plan, callBudget)
	vos.Rule = fs.rule
	vos.ResetTemp()
	fd0 := openFDs()
	stop := watchdog(func() {
		vos.Off()
		fs.emit(fs.curKind, plan, caseDir, faultResult{hang: true, ncalls: vos.Calls, log: append([]string(nil), vos.Log...), fired: vos.FiredKinds})
	})
	var buf bytes.Buffer
	log.SetOutput(&buf)
	func() {
		defer func() {
			if r := recover(); r != nil {
				if _, ok := r.(vos.HangError); ok {
					res.hang = true
				} else {
					res.escaped = fmt.Sprint(r)
				}
			}
		}()
		if fs.exported {
			upload.Run(upload.RunConfig{TelemetryDir: caseDir, UploadURL: url, StartTime: fs.start})
		} else {
			u := upload.VerifNewUploader(caseDir, url, fs.start, fs.cfg, "v9.9.9", nil)
			u.RunAndClose()
		}
	}()
	stop()
	log.SetOutput(io.Discard)
	res.fdDelta = openFDs() - fd0
	res.ncalls = vos.Calls
	res.fired = vos.FiredKinds
	res.log = append([]string(nil), vos.Log...)
	res.recovered = strings.Contains(buf.String(), "upload recover")
	if vos.Calls > callBudget || vos.Hung {
		res.hang = true
	}
	vos.Off()
	return caseDir, res
}

// emit writes the case line of one run.
func (fs *faultState) emit(kind string, plan map[int]int, caseDir string, res faultResult) {
	w := fs.w
	// a world view of the case directory: names / contents tables are per case
	cw := &world{dir: caseDir, local: filepath.Join(caseDir, "local"), up: filepath.Join(caseDir, "upload"),
		progIDs: w.progIDs, blobOf: w.blobOf, nblobs: w.nblobs, rawOf: map[[32]byte]int{}, nameOf: map[string]int{},
		weekOfCount: w.weekOfCount}
	// picks: the order in which reports() visited the weeks, from the call log
	var picks []string
	pending := false
	cur := ""
	for _, c := range res.log {
		if strings.HasPrefix(c, "rand ") {
			if pending {
				picks = append(picks, "ps")
			}
			pending = true
			continue
		}
		ci := cw.classify(c)
		if ci.op == "Close" {
			continue
		}
		if ci.phase == 1 && ci.week != cur {
			if pending && ci.op != "Stat" {
				// createReport starts with Stat(local.W.json); a week that starts with anything else
				// (the Removes of a week that needs no report) drew no random number: the pending
				// entropy read belonged to a week for which createReport made no os call
				picks = append(picks, "ps")
			}
			picks = append(picks, "pw "+HS(ci.week))
			cur = ci.week
			pending = false
		} else if ci.phase == 1 {
			pending = false
		} else if ci.phase == 2 && pending {
			picks = append(picks, "ps")
			pending = false
		}
	}
	if pending {
		picks = append(picks, "ps")
	}
	_, loc := cw.listDir(cw.local)
	oku, upl := cw.listDir(cw.up)
	fields := []string{"upf", kind}
	status := "ok"
	if res.hang {
		status = "hang"
	}
	fields = append(fields, status, B(fs.exported))
	fields = append(fields, fs.head...)
	var idx []int
	for i := range plan {
		idx = append(idx, i)
	}
	sort.Ints(idx)
	fields = append(fields, I(int64(len(idx))))
	for _, i := range idx {
		fields = append(fields, I(int64(i)), vos.KindName[plan[i]])
	}
	fields = append(fields, I(int64(len(picks))))
	fields = append(fields, picks...)
	fields = append(fields, I(int64(res.ncalls)), B(res.escaped != ""), B(res.recovered))
	// the escaped panic is the injected entropy failure?
	fields = append(fields, B(strings.Contains(res.escaped, "rand.Read failed")))
	var posts []string
	for _, r := range vhttp.Log {
		wk := r.URL[strings.LastIndex(r.URL, "/")+1:]
		posts = append(posts, HS(wk), I(int64(cw.rawID(r.Body))), outcomeTag(r.Status))
	}
	snapL, snapU := snapStr(true, loc), snapStr(oku, upl)
	fields = append(fields, I(int64(len(cw.names))))
	for _, n := range cw.names {
		fields = append(fields, HS(n))
	}
	fields = append(fields, I(int64(len(cw.descs))))
	fields = append(fields, cw.descs...)
	fields = append(fields, snapL, snapU, I(int64(len(vhttp.Log))))
	fields = append(fields, posts...)
	fields = append(fields, I(int64(len(res.log))))
	for _, c := range res.log {
		fields = append(fields, HS(strings.ReplaceAll(c, caseDir+string(filepath.Separator), "")))
	}
	fields = append(fields, I(int64(res.fdDelta)))
	out.Case(true, fields...)
	casesDone++
	os.RemoveAll(caseDir)
}

// faultCases: the no-fault run, every single call index x kind, and (thorough)
// pairs, on the directory state just generated in dir.
func faultCases(n int, w *world, dir string, cfg *telemetry.UploadConfig, start time.Time, modeOn bool, asof time.Time, head []string) {
	stateIdx++
	fs := &faultState{w: w, tmpl: dir, cfg: cfg, start: start, modeOn: modeOn, asof: asof, head: head}
	// mode local: the exported Run (no config download in that mode); mode on: the inner uploader
	fs.exported = !modeOn && stateIdx%4 != 0
	thorough := os.Getenv("VERIF_TIER") == "thorough"
	fs.curKind = "nofault"
	caseDir, base := fs.runPlan(nil)
	fs.emit("nofault", nil, caseDir, base)
	fs.curKind = "single"
	out.Note(fmt.Sprintf("state-calls-%02d", (base.ncalls/10)*10))
	if fs.exported {
		out.Note("run-exported")
	} else {
		out.Note("run-inner")
	}
	allKinds := stateIdx <= 2 || thorough
	errKinds := []int{vos.KEIO, vos.KShort}
	if allKinds {
		errKinds = []int{vos.KENOENT, vos.KEACCES, vos.KENOSPC, vos.KEIO, vos.KShort}
	}
	isWrite := func(op string) bool { return strings.HasPrefix(op, "Write ") || strings.HasPrefix(op, "WriteFile ") }
	for i := 0; i <= base.ncalls && casesDone < n; i++ {
		op := ""
		if i < len(base.log) {
			op = base.log[i]
		}
		for _, k := range errKinds {
			if k == vos.KShort && !isWrite(op) && i < len(base.log) {
				continue // a short write of a non-write call is no fault
			}
			plan := map[int]int{i: k}
			cd, r := fs.runPlan(plan)
			fs.emit("single", plan, cd, r)
			out.Note("fault-" + vos.KindName[k] + "-" + strings.SplitN(op+" ", " ", 2)[0])
		}
		if strings.HasPrefix(op, "Post ") {
			for _, k := range []int{vos.K4xx, vos.K5xx} {
				plan := map[int]int{i: k}
				cd, r := fs.runPlan(plan)
				fs.emit("single", plan, cd, r)
				out.Note("fault-" + vos.KindName[k] + "-Post")
			}
		}
	}
	// persistent faults: the same call fails however often it is repeated (a read-only upload
	// directory, names of local/ that cannot be removed, a full disk); the case carries the
	// equivalent index plan (the indices at which the rule fired)
	inUp := func(path string) bool {
		return strings.HasPrefix(path, "upload/") || strings.Contains(path, "/upload/")
	}
	rules := []struct {
		name string
		f    func(op, path string) int
	}{
		{"upload-readonly", func(op, path string) int {
			if inUp(path) && (op == "Remove" || op == "OpenFile" || op == "WriteFile" || op == "MkdirAll" || op == "Rename") {
				return vos.KEACCES
			}
			return vos.KOk
		}},
		{"upload-no-remove", func(op, path string) int {
			if inUp(path) && op == "Remove" {
				return vos.KEACCES
			}
			return vos.KOk
		}},
		{"no-remove", func(op, path string) int {
			if op == "Remove" {
				return vos.KEIO
			}
			return vos.KOk
		}},
		{"disk-full", func(op, path string) int {
			if op == "Write" || op == "WriteFile" {
				return vos.KENOSPC
			}
			return vos.KOk
		}},
	}
	for _, rl := range rules {
		if casesDone >= n {
			break
		}
		fs.rule = rl.f
		fs.curKind = "rule"
		cd, r := fs.runPlan(nil)
		fs.rule = nil
		if len(r.fired) == 0 && !r.hang {
			os.RemoveAll(cd)
			continue // the rule met no call on this state: the no-fault run again
		}
		fs.emit("rule", r.fired, cd, r)
		out.Note("rule-" + rl.name)
	}
	if thorough && stateIdx <= 3 {
		lim := base.ncalls
		if lim > 30 {
			lim = 30
		}
		for i := 0; i < lim && casesDone < n; i++ {
			for j := i + 1; j <= lim; j++ {
				for _, k1 := range []int{vos.KEIO, vos.KShort} {
					for _, k2 := range []int{vos.KENOSPC, vos.KShort} {
						plan := map[int]int{i: k1, j: k2}
						fs.curKind = "pair"
						cd, r := fs.runPlan(plan)
						fs.emit("pair", plan, cd, r)
					}
				}
			}
		}
		out.Note("pairs-state")
	} else if casesDone < n {
		// a few random pairs and triples everywhere
		for k := 0; k < 6 && casesDone < n; k++ {
			plan := map[int]int{}
			for m := 0; m < 2+rnd.Intn(2); m++ {
				plan[rnd.Intn(base.ncalls+1)] = 1 + rnd.Intn(int(vos.NKinds)-1)
			}
			fs.curKind = "multi"
			cd, r := fs.runPlan(plan)
			fs.emit("multi", plan, cd, r)
		}
	}
}
